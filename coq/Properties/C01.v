(* C01 — binary round trip.  Models: Model/Encode.v (Message.dump / __bytes__), Model/Decode.v (Message.load /
   parse), Model/Eq.v (Message.__eq__), Model/Object.v (raw object state, which_one_of); side conditions in
   Model/WellFormed.v and Model/C01Def.v; [norm_obj] (Model/C01Def.v) is the closed form of the decoded object,
   [reads] / [loop] / [step] (Proofs/C01Frame.v, Model/C01Def.v) name the pieces of Message.load. *)
From BP Require Import Base.Prelude Model.Types Model.Varint Model.Scalar Model.Float Model.Object Model.Eq Model.Encode
     Model.Decode Model.WellFormed Model.C01Def gen.Tables.
From BP Require Import Proofs.C01Float Proofs.C01Scalar Proofs.C01Frame Proofs.C01Step Proofs.C01Main Proofs.C01Stable
     Proofs.C01Eq Proofs.C01Obs Proofs.C01Final.

(* ---- layer 1: scalars.  What _preprocess_single writes for an in-range value of each of the eight varint kinds
        (enum included) is read back by load_varint + _postprocess_single as that value ... *)
Theorem C01_scalar_varint : forall msg t v,
  tmem t WIRE_VARINT_TYPES = true -> scalar_in_range t v = true ->
  exists bs n, preprocess_with msg t None v = Ok bs /\ bs <> [] /\
               (forall rest, load_varint (bs ++ rest) = Ok (n, bs, rest)) /\ postprocess_varint t n = v.
Proof. exact scalar_varint_rt. Qed.
Print Assumptions C01_scalar_varint.

(* ... and struct.pack / struct.unpack for the six fixed-width kinds (float32: the value comes back as
   unpack(pack(x)), which is x itself for a float32-representable x) *)
Theorem C01_scalar_fixed : forall t v,
  tmem t FIXED_TYPES = true -> scalar_in_range t v = true ->
  exists bs, pack_value t v = Ok bs /\ length bs = fixed_size t /\ unpack_value t bs = Ok (norm_scalar t v).
Proof. exact scalar_fixed_rt. Qed.
Print Assumptions C01_scalar_fixed.

(* float32 fields: packing lands in four bytes, re-packing the unpacked value gives the same four bytes,
   and the value is unchanged unless it is a NaN (which stays a NaN) *)
Theorem C01_float32 : forall b,
  scalar_in_range TFloat (PFloat b) = true ->
  exists w, d2f b = Some w /\ 0 <= w < 2 ^ 32 /\ norm_f32 b = f2d w /\ d2f (f2d w) = Some w /\
            (f2d w = b \/ (f64_is_nan b = true /\ f64_is_nan (f2d w) = true)).
Proof. exact f32_facts. Qed.
Print Assumptions C01_float32.

(* ---- layer 2: framing.  One record written by _serialize_single is read by load_varint + _load_field as exactly
        that record, leaving exactly the rest of the stream — wire types 0, 1/5, 2 ... *)
Theorem C01_frame_varint : forall num key val n,
  1 <= num < 2 ^ 29 -> encode_varint (Z.shiftl num 3) = Ok key ->
  (forall rest, load_varint (val ++ rest) = Ok (n, val, rest)) ->
  reads (key ++ val) (mkP num 0 n [] (key ++ val)).
Proof. exact reads_varint. Qed.
Print Assumptions C01_frame_varint.

Theorem C01_frame_fixed : forall num w key val,
  1 <= num < 2 ^ 29 -> (w = 1 /\ length val = 8%nat) \/ (w = 5 /\ length val = 4%nat) ->
  encode_varint (Z.lor (Z.shiftl num 3) w) = Ok key ->
  reads (key ++ val) (mkP num w 0 val (key ++ val)).
Proof. exact reads_fixed. Qed.
Print Assumptions C01_frame_fixed.

Theorem C01_frame_len : forall num key n val,
  1 <= num < 2 ^ 29 -> Zlength val < 2 ^ 64 ->
  encode_varint (Z.lor (Z.shiftl num 3) 2) = Ok key -> encode_varint (Zlength val) = Ok n ->
  reads (key ++ n ++ val) (mkP num 2 0 val (key ++ n ++ val)).
Proof. exact reads_len. Qed.
Print Assumptions C01_frame_len.

(* ... and the packed payload of a repeated scalar field is inverted by the packed reader *)
Theorem C01_packed : forall msg t items,
  tmem t PACKED_TYPES = true -> Forall (fun x => scalar_in_range t x = true) items ->
  exists buf, concat_map (preprocess_with msg t None) items = Ok buf /\
              forall n, (length buf < n)%nat -> unpack_packed n t buf = Ok (map (norm_scalar t) items).
Proof. exact packed_rt. Qed.
Print Assumptions C01_packed.

(* ---- layer 3: Message.load is the named loop (by conversion: an edit of Decode.load that is not mirrored breaks
        this proof); one complete record at the head of the stream costs one iteration and applies [step] *)
Theorem C01_load_is_loop : forall fuel' sc c raw sow unk cur s,
  load (S fuel') sc (Obj c raw sow unk cur) s None
  = loop fuel' sc None (get_class sc c) (S (length s)) (Obj c raw true unk cur) s 0.
Proof. exact load_unfold. Qed.
Print Assumptions C01_load_is_loop.

Theorem C01_one_record : forall fuel' sc cd bs p rest n o,
  reads bs p ->
  loop fuel' sc None cd (S n) o (bs ++ rest) 0 = (do o' <- step fuel' sc cd o p; loop fuel' sc None cd n o' rest 0).
Proof. exact loop_reads. Qed.
Print Assumptions C01_one_record.

(* ---- layer 4: whole messages — nested and recursive messages, repeated (packed and unpacked) fields, maps, oneofs,
        proto3-optional, wrappers, Timestamp / Duration.
   Hypotheses (all decidable, all evaluated on every generated case by the check):
     c01_schema_ok sc   = wf_schema (WellFormed.v) + the first classes ARE the bundled ones + a map's Entry class is
                          annotated like the map;
     c01_value_ok sc m  = in_range (WellFormed.v) + recursively: a oneof member other than the selected one holds
                          PLACEHOLDER, _group_current names members of its own group, no unknown bytes, dict keys distinct;
     Zlength bs < 2^64  : the encoding is shorter than 2^64 bytes (a longer length prefix would not be read back; no
                          Python object can reach it).
   Conclusions: bytes(m) exists; Cls().parse(bytes(m)) succeeds with m' = norm_obj m; m' == m (Message.__eq__) unless a
   NaN sits directly inside a list or as a map value (K7); which_one_of agrees for every group; every attribute of m' is
   readable / None / a sub-message with serialized_on_wire exactly as the same attribute of m, provided m's selected or
   non-default sub-messages carry their flag (sow_ok: what constructor / setattr / parse maintain; an all-default
   sub-message handed to the constructor as a oneof member or optional field has the flag down and comes back with it
   up — measured by the check); bytes(m') = bytes(m).
   [norm_obj] is compositional (the decoded form of a nested message is the norm_obj of that nested message), so the
   observer and equality statements hold at every nesting depth by instantiating this theorem at the nested value. *)
Theorem C01_roundtrip : forall sc m,
  c01_schema_ok sc = true -> c01_value_ok sc m = true ->
  exists bs, enc_obj sc m = Ok bs /\
    (Zlength bs < 2 ^ 64 ->
     exists m', parse sc (ocls m) bs = Ok m' /\ m' = norm_obj sc m /\
       (deep nan_free (PMsg m) = true -> obj_eq sc m m' = true) /\
       (forall g, which_one_of m' g = which_one_of m g) /\
       (sow_ok sc m = true -> obs_top sc m m' = true) /\
       enc_obj sc m' = Ok bs).
Proof. exact c01_roundtrip. Qed.
Print Assumptions C01_roundtrip.

(* the three components on their own (no size hypothesis: they are statements about norm_obj) *)
Theorem C01_decoded_equal : forall sc m,
  c01_schema_ok sc = true -> c01_value_ok sc m = true -> deep nan_free (PMsg m) = true ->
  obj_eq sc m (norm_obj sc m) = true.
Proof. exact c01_decoded_equal. Qed.
Print Assumptions C01_decoded_equal.

Theorem C01_observers_agree : forall sc m,
  c01_schema_ok sc = true -> c01_value_ok sc m = true -> sow_ok sc m = true ->
  obs_top sc m (norm_obj sc m) = true.
Proof. exact c01_observers_agree. Qed.
Print Assumptions C01_observers_agree.

Theorem C01_stable : forall sc m,
  c01_schema_ok sc = true -> c01_value_ok sc m = true -> enc_obj sc (norm_obj sc m) = enc_obj sc m.
Proof. exact c01_reencode_stable. Qed.
Print Assumptions C01_stable.

(* ---- K7: a NaN inside a repeated field.  Everything else holds (same bytes again), == does not. *)
Theorem C01_eq_nan_refuted :
  exists sc m, c01_schema_ok sc = true /\ c01_value_ok sc m = true /\
    exists bs m', enc_obj sc m = Ok bs /\ parse sc (ocls m) bs = Ok m' /\ obj_eq sc m m' = false /\
                  enc_obj sc m' = Ok bs.
Proof. exact c01_eq_nan_refuted. Qed.
Print Assumptions C01_eq_nan_refuted.

(* ---- non-vacuity: a schema with a recursive message, a oneof, an optional, a wrapper, a packed and an unpacked
        repeated field, a map of messages and a Timestamp; a value that uses all of them (negative enum, -0.0,
        selected default oneof member, empty-but-present sub-message, non-BMP string) ---- *)
Definition ex_schema : schema :=
  mkS (builtin_classes ++
       [mkC [mkF [x61] 1 TSInt64 None None None false (HPlain PyInt) 0;
             mkF [x62] 2 TMessage None None None false (HPlain (PyMsg 11)) 0;
             mkF [x63] 3 TString None (Some 0%nat) None false (HPlain PyStr) 0;
             mkF [x64] 4 TEnum None (Some 0%nat) None false (HPlain (PyEnum 0)) 0;
             mkF [x65] 5 TDouble None None None true (HOptional PyFloat) 0;
             mkF [x66] 6 TMessage None None (Some TInt32) false (HOptional PyInt) 0;
             mkF [x67] 7 TFixed32 None None None false (HList PyInt) 0;
             mkF [x68] 8 TString None None None false (HList PyStr) 0;
             mkF [x69] 9 TMap (Some (TString, TMessage)) None None false (HDict PyStr (PyMsg 11)) 12;
             mkF [x6a] 2047 TMessage None None None false (HPlain PyDatetime) 0] 1;
        mkC [mkF [x6b] 1 TString None None None false (HPlain PyStr) 0;
             mkF [x76] 2 TMessage None None None false (HPlain (PyMsg 11)) 0] 0])
      [mkE [([x5a], 0); ([x4e], -1)]].
Definition ex_leaf : obj :=
  Obj 11 [PInt (-1); PPlaceholder; PPlaceholder; PInt (-1); PNone; PPlaceholder; PPlaceholder; PPlaceholder; PPlaceholder; PPlaceholder]
      true [] [Some 3%nat].
Definition ex_empty : obj :=
  Obj 11 [PPlaceholder; PPlaceholder; PPlaceholder; PPlaceholder; PNone; PPlaceholder; PPlaceholder; PPlaceholder; PPlaceholder; PPlaceholder]
      true [] [None].
Definition ex_obj : obj :=
  Obj 11 [PInt (-9223372036854775808); PMsg ex_empty; PStr []; PPlaceholder; PFloat 9223372036854775808; PInt 0;
          PList [PInt 4294967295; PInt 0]; PList [PStr []; PStr [xf0; x9f; x98; x80]];
          PDict [(PStr [], PMsg ex_leaf); (PStr [x6b], PMsg ex_empty)]; PDatetime (-1500000)]
      true [] [Some 2%nat].
Example C01_nonvacuous :
  c01_schema_ok ex_schema = true /\ c01_value_ok ex_schema ex_obj = true /\
  deep nan_free (PMsg ex_obj) = true /\ deep (sow_ok ex_schema) (PMsg ex_obj) = true /\
  c01_holds ex_schema ex_obj = true /\
  match enc_obj ex_schema ex_obj with
  | Ok bs => parse ex_schema 11 bs = Ok (norm_obj ex_schema ex_obj) /\ (48 < length bs)%nat
  | Err _ => False
  end.
Proof. vm_compute. repeat split; reflexivity || lia || (repeat constructor). Qed.

From BP Require Import Model.History Model.C07Ops Model.C01Reach Proofs.C01ReachFinal Proofs.C01ReachWit.

(* ---- layer 5: REACHABLE objects.  The two value hypotheses of C01_roundtrip (c01_value_ok, and sow_ok for the
        observers) are invariants of every history of public-API operations (Model/History.v [op], Model/C07Ops.v
        [op7]: Cls(kwargs), Cls.from_dict, m.from_dict, attribute assignment and reads at ANY depth, copy, deepcopy,
        pickle, bytes / len / dump, ==, bool; any length) that starts at Cls(), provided the values handed in are
        values of their fields.  The conditions (Model/C01Reach.v, all boolean, judged along the run by [hist_ok]):
          op_value_ok : every value handed to the constructor / __setattr__ / from_dict is of the field's type and in
                        range ([val_ok]: exactly what in_range asks of the attribute it becomes, messages inside it
                        clean, dict keys distinct, not PLACEHOLDER); constructor kwargs name at most one member per
                        oneof group ([kw_groups_ok]; C01_constructor_two_members_refuted: the dataclass __init__
                        resets no sibling and == fails after the round trip); pickle: bytes(m) shorter than 2^64.
          op_sow_ok   : a sub-message handed in with its flag down is an all-default one for a plain field outside
                        every oneof ([flag_ok]; C01_sow_constructor_refuted); in a nested assignment m.a.b.x = v the
                        holders strictly between m and the object assigned to have their flag up ([set_flags_ok];
                        known finding K12, C01_lazy_intermediate_refuted).
        m.parse(bytes) on an existing object is NOT discharged: for it both conditions are the check of the
        resulting state (post_value_ok / post_sow_ok) - arbitrary bytes can carry unknown fields
        (C01_parse_leaves_value_ok_refuted) and parse into a used object merges.  Reads, copies, observers, ==, bool
        are unrestricted. *)
Theorem C01_reachable_value_ok : forall sc c ops o,
  c01_schema_ok sc = true -> hist_ok op_value_ok sc (new sc c) ops = true ->
  run7 sc (new sc c) ops = Ok o -> c01_value_ok sc o = true.
Proof. exact c01_reachable_value_ok. Qed.
Print Assumptions C01_reachable_value_ok.

Theorem C01_reachable_sow_ok : forall sc c ops o,
  c01_schema_ok sc = true -> hist_ok op_reach_ok sc (new sc c) ops = true ->
  run7 sc (new sc c) ops = Ok o -> c01_value_ok sc o = true /\ sow_ok sc o = true.
Proof. exact c01_reachable_sow_ok. Qed.
Print Assumptions C01_reachable_sow_ok.

(* the same from ANY state that satisfies the two conditions (e.g. a decoded message), not only from Cls() *)
Theorem C01_run_keeps : forall sc ops o o',
  c01_schema_ok sc = true -> c01_value_ok sc o = true -> sow_ok sc o = true ->
  hist_ok op_reach_ok sc o ops = true -> run7 sc o ops = Ok o' -> c01_value_ok sc o' = true /\ sow_ok sc o' = true.
Proof. exact c01_run_keeps. Qed.
Print Assumptions C01_run_keeps.

(* one operation *)
Theorem C01_step_keeps : forall sc o p o' x,
  c01_schema_ok sc = true -> c01_value_ok sc o = true -> sow_ok sc o = true ->
  op_reach_ok sc o p = true -> step7 sc o p = Ok (o', x) -> c01_value_ok sc o' = true /\ sow_ok sc o' = true.
Proof.
  intros sc o p o' x Hs Hv Hw Hp E. apply (c01_run_keeps sc [p] o o' Hs Hv Hw).
  - cbn [hist_ok]. rewrite Hp, E. reflexivity.
  - cbn [run7]. rewrite E. reflexivity.
Qed.
Print Assumptions C01_step_keeps.

(* the full conclusion of C01_roundtrip for every reachable object (the observers unconditionally) *)
Theorem C01_roundtrip_reachable : forall sc c ops m,
  c01_schema_ok sc = true -> hist_ok op_reach_ok sc (new sc c) ops = true -> run7 sc (new sc c) ops = Ok m ->
  exists bs, enc_obj sc m = Ok bs /\
    (Zlength bs < 2 ^ 64 ->
     exists m', parse sc (ocls m) bs = Ok m' /\ m' = norm_obj sc m /\
       (deep nan_free (PMsg m) = true -> obj_eq sc m m' = true) /\
       (forall g, which_one_of m' g = which_one_of m g) /\
       obs_top sc m m' = true /\
       enc_obj sc m' = Ok bs).
Proof. exact c01_roundtrip_reachable. Qed.
Print Assumptions C01_roundtrip_reachable.

(* ... and under the value condition alone, everything but the observers *)
Theorem C01_roundtrip_reachable_values : forall sc c ops m,
  c01_schema_ok sc = true -> hist_ok op_value_ok sc (new sc c) ops = true -> run7 sc (new sc c) ops = Ok m ->
  exists bs, enc_obj sc m = Ok bs /\
    (Zlength bs < 2 ^ 64 ->
     exists m', parse sc (ocls m) bs = Ok m' /\ m' = norm_obj sc m /\
       (deep nan_free (PMsg m) = true -> obj_eq sc m m' = true) /\
       (forall g, which_one_of m' g = which_one_of m g) /\
       (sow_ok sc m = true -> obs_top sc m m' = true) /\
       enc_obj sc m' = Ok bs).
Proof. exact c01_roundtrip_reachable_values. Qed.
Print Assumptions C01_roundtrip_reachable_values.

(* ---- what the conditions exclude, as reachable objects (witness schema Proofs/C01ReachWit.v [w_sc]) ---- *)
(* M(x=5, y="x") with x, y in one oneof: every value is fine, the hidden x = 5 stays in the raw state and == fails after
   the round trip, in both directions (confirmed on the implementation; not a recorded finding before this proof) *)
Theorem C01_constructor_two_members_refuted :
  exists sc c kw m bs m',
    c01_schema_ok sc = true /\ kw_vals_ok sc c kw = true /\ kw_flags_ok sc c kw = true /\ kw_groups_ok sc c kw = false /\
    run7 sc (new sc c) [OConstruct kw] = Ok m /\
    oneof_clean sc m = false /\ c01_value_ok sc m = false /\
    enc_obj sc m = Ok bs /\ parse sc c bs = Ok m' /\ obj_eq sc m m' = false /\ obj_eq sc m' m = false.
Proof. exact constructor_two_members_refuted. Qed.
Print Assumptions C01_constructor_two_members_refuted.

(* M(s=B()) with s a oneof member (and M(o=B()) with o optional): sow_ok is NOT an invariant without flag_ok *)
Theorem C01_sow_constructor_refuted :
  exists sc c kw m,
    c01_schema_ok sc = true /\ hist_ok op_value_ok sc (new sc c) [OConstruct kw] = true /\
    kw_flags_ok sc c kw = false /\
    run7 sc (new sc c) [OConstruct kw] = Ok m /\
    c01_value_ok sc m = true /\ sow_ok sc m = false /\ obs_top sc m (norm_obj sc m) = false.
Proof. exact sow_constructor_refuted. Qed.
Print Assumptions C01_sow_constructor_refuted.

Theorem C01_sow_constructor_optional_refuted :
  exists sc c kw m,
    c01_schema_ok sc = true /\ hist_ok op_value_ok sc (new sc c) [OConstruct kw] = true /\
    kw_flags_ok sc c kw = false /\
    run7 sc (new sc c) [OConstruct kw] = Ok m /\
    c01_value_ok sc m = true /\ sow_ok sc m = false /\ obs_top sc m (norm_obj sc m) = false.
Proof. exact sow_constructor_optional_refuted. Qed.
Print Assumptions C01_sow_constructor_optional_refuted.

(* K12 inside the operation model: m = M(); m.a; m.a.b.x = 0.  The history satisfies the value condition and fails
   set_flags_ok.  The state satisfies every hypothesis of C01_roundtrip (sow_ok at every depth) and its conclusion
   (which is about the attributes of m itself) - but bytes(m) is empty and serialized_on_wire(m.a.b) is True before
   and False after.  With a non-default value (x = 5) sow_ok itself fails and serialized_on_wire(m.a) differs. *)
Theorem C01_lazy_intermediate_refuted :
  exists sc c ops m m',
    c01_schema_ok sc = true /\ hist_ok op_value_ok sc (new sc c) ops = true /\ hist_ok op_reach_ok sc (new sc c) ops = false /\
    run7 sc (new sc c) ops = Ok m /\
    c01_value_ok sc m = true /\ deep (sow_ok sc) (PMsg m) = true /\
    enc_obj sc m = Ok [] /\ parse sc c [] = Ok m' /\ obj_eq sc m m' = true /\ obs_top sc m m' = true /\
    res_flag (snd (get_in sc m [0%nat] 0)) = true /\ res_flag (snd (get_in sc m' [0%nat] 0)) = false.
Proof. exact lazy_intermediate_refuted. Qed.
Print Assumptions C01_lazy_intermediate_refuted.

Theorem C01_lazy_intermediate_nondefault_refuted :
  exists sc c ops m,
    c01_schema_ok sc = true /\ hist_ok op_value_ok sc (new sc c) ops = true /\ hist_ok op_reach_ok sc (new sc c) ops = false /\
    run7 sc (new sc c) ops = Ok m /\
    c01_value_ok sc m = true /\ sow_ok sc m = false /\ obs_top sc m (norm_obj sc m) = false.
Proof. exact lazy_intermediate_nondefault_refuted. Qed.
Print Assumptions C01_lazy_intermediate_nondefault_refuted.

Theorem C01_parse_leaves_value_ok_refuted :
  exists sc c bs m,
    c01_schema_ok sc = true /\
    run7 sc (new sc c) [OBase (OParse bs)] = Ok m /\ no_unknown m = false /\ c01_value_ok sc m = false.
Proof. exact parse_leaves_value_ok_refuted. Qed.
Print Assumptions C01_parse_leaves_value_ok_refuted.

(* ---- non-vacuity: twelve operations of nine kinds on ex_schema (constructor with a oneof member and a repeated field,
        assignment of the sibling member, nested read that creates m.b lazily, nested assignments at depth 1, 2 and 3
        - each holder flagged by the assignment before -, bytes, copy, deepcopy, m.from_dict with an optional, a
        wrapper and a map of messages, pickle, len) ---- *)
Definition ex_hist : list op7 :=
  [OConstruct [(0%nat, PInt (-5)); (2%nat, PStr [x78]); (6%nat, PList [PInt 4294967295])];
   OBase (OSet [] 3 (PInt (-1)));
   OBase (OGet [1%nat] 0);
   OBase (OSet [1%nat] 0 (PInt 7));
   OBase OBytes;
   OBase OCopy;
   OBase ODeepcopy;
   OFromDictInst [(4%nat, PFloat 9223372036854775808); (5%nat, PInt 0);
                  (8%nat, PDict [(PStr [x6b], PMsg (new ex_schema 11))])];
   OBase (OSet [1%nat; 1%nat] 9 (PDatetime (-1500000)));
   OBase (OSet [1%nat; 1%nat; 1%nat] 2 (PStr []));
   OBase OPickle;
   OBase OLen].
Example C01_reachable_nonvacuous :
  hist_ok op_reach_ok ex_schema (new ex_schema 11) ex_hist = true /\
  forallb op_static ex_hist = true /\
  match run7 ex_schema (new ex_schema 11) ex_hist with
  | Ok o => c01_value_ok ex_schema o = true /\ sow_ok ex_schema o = true /\ c01_holds ex_schema o = true /\
            which_one_of o 0 = Some 3%nat /\
            match enc_obj ex_schema o with Ok bs => (60 < length bs)%nat | Err _ => False end
  | Err _ => False
  end.
Proof. vm_compute. repeat split; reflexivity || lia || (repeat constructor). Qed.

(* the flagged variant of the K12 history is inside the conditions *)
Example C01_lazy_intermediate_flagged_ok :
  hist_ok op_reach_ok w_sc (new w_sc 11)
    [OBase (OGet [] 0); OBase (OSet [0%nat] 0 (PMsg (new w_sc 13))); OBase (OSet [0%nat; 0%nat] 0 (PInt 0))] = true.
Proof. exact lazy_intermediate_flagged_ok. Qed.

From BP Require Import Model.C01Parse Proofs.C01Reach2B Proofs.C01Reach2Wit.

(* ---- layer 6: m.parse(bytes) on an existing, possibly USED object is discharged.  [clean_bytes sc c bs]
        (Model/C01Parse.v) is a decidable condition on the class and the bytes alone - it never looks at the object parsed
        into, nor at a result state: walking the stream as Message.load does, every record names a declared field with
        a fitting wire type (so nothing is kept as unknown bytes) and the value the decoder computes for that record
        alone (nested payloads are parsed into fresh objects) is a value of the field: inside the declared range after
        the decoder's own truncation, every message in it clean at every depth (no unknown bytes in nested payloads),
        a message value flagged (always so: mark_sow).  A stream the reader rejects is vacuously clean (parse raises, no
        new state).  Under it the merge parse performs - repeated fields and packed payloads append, map entries
        update the dict (keys stay distinct), a singular field / oneof member / sub-message is replaced through
        __setattr__ (siblings of a oneof member reset; the except-branch assignment of the default for an unselected
        member included) - keeps c01_value_ok, and keeps sow_ok with NO further condition.
        [op_value_ok_p] / [op_sow_ok_p] / [op_reach_ok_p] are op_value_ok / op_sow_ok / op_reach_ok with the OParse
        case replaced (clean_bytes / true); on histories without parse they coincide (C01_conditions_agree_static), so
        the theorems of layer 5 are instances, not weakened. *)
Theorem C01_parse_keeps : forall sc o bs o',
  c01_schema_ok sc = true -> c01_value_ok sc o = true -> clean_bytes sc (ocls o) bs = true ->
  parse_into sc o bs = Ok o' ->
  c01_value_ok sc o' = true /\ (sow_ok sc o = true -> sow_ok sc o' = true) /\ ocls o' = ocls o.
Proof. exact c01_parse_keeps. Qed.
Print Assumptions C01_parse_keeps.

Theorem C01_reachable_value_ok_parse : forall sc c ops o,
  c01_schema_ok sc = true -> hist_ok op_value_ok_p sc (new sc c) ops = true ->
  run7 sc (new sc c) ops = Ok o -> c01_value_ok sc o = true.
Proof. exact c01_reachable_value_ok_parse. Qed.
Print Assumptions C01_reachable_value_ok_parse.

Theorem C01_reachable_sow_ok_parse : forall sc c ops o,
  c01_schema_ok sc = true -> hist_ok op_reach_ok_p sc (new sc c) ops = true ->
  run7 sc (new sc c) ops = Ok o -> c01_value_ok sc o = true /\ sow_ok sc o = true.
Proof. exact c01_reachable_sow_ok_parse. Qed.
Print Assumptions C01_reachable_sow_ok_parse.

Theorem C01_run_keeps_parse : forall sc ops o o',
  c01_schema_ok sc = true -> c01_value_ok sc o = true -> sow_ok sc o = true ->
  hist_ok op_reach_ok_p sc o ops = true -> run7 sc o ops = Ok o' -> c01_value_ok sc o' = true /\ sow_ok sc o' = true.
Proof. exact c01_run_keeps_parse. Qed.
Print Assumptions C01_run_keeps_parse.

Theorem C01_roundtrip_reachable_parse : forall sc c ops m,
  c01_schema_ok sc = true -> hist_ok op_reach_ok_p sc (new sc c) ops = true -> run7 sc (new sc c) ops = Ok m ->
  exists bs, enc_obj sc m = Ok bs /\
    (Zlength bs < 2 ^ 64 ->
     exists m', parse sc (ocls m) bs = Ok m' /\ m' = norm_obj sc m /\
       (deep nan_free (PMsg m) = true -> obj_eq sc m m' = true) /\
       (forall g, which_one_of m' g = which_one_of m g) /\
       obs_top sc m m' = true /\
       enc_obj sc m' = Ok bs).
Proof. exact c01_roundtrip_reachable_parse. Qed.
Print Assumptions C01_roundtrip_reachable_parse.

(* without parse the new conditions ARE the old ones *)
Theorem C01_conditions_agree_static : forall sc ops o,
  forallb op_static ops = true -> hist_ok op_reach_ok_p sc o ops = hist_ok op_reach_ok sc o ops.
Proof. intros sc ops o H. apply hist_ok_static. exact H. Qed.
Print Assumptions C01_conditions_agree_static.

(* ---- each clause of clean_bytes is needed: bytes that fail exactly it, parsed into Cls() ---- *)
(* a field number the class does not declare *)
Theorem C01_parse_unknown_field_refuted :
  exists sc c bs m,
    c01_schema_ok sc = true /\ clean_bytes sc c bs = false /\
    run7 sc (new sc c) [OBase (OParse bs)] = Ok m /\ ounk m = bs /\ no_unknown m = false /\ c01_value_ok sc m = false.
Proof. exact parse_unknown_field_refuted. Qed.
Print Assumptions C01_parse_unknown_field_refuted.

(* a declared number with a wire type that does not fit (int32 field, wire type 5) *)
Theorem C01_parse_misfit_refuted :
  exists sc c bs m,
    c01_schema_ok sc = true /\ clean_bytes sc c bs = false /\
    run7 sc (new sc c) [OBase (OParse bs)] = Ok m /\ ounk m = bs /\ no_unknown m = false /\ c01_value_ok sc m = false.
Proof. exact parse_misfit_refuted. Qed.
Print Assumptions C01_parse_misfit_refuted.

(* a fitting record whose nested payload carries an unknown field: the top level is fine, m.a holds the bytes *)
Theorem C01_parse_nested_unknown_refuted :
  exists sc c bs m,
    c01_schema_ok sc = true /\ clean_bytes sc c bs = false /\
    run7 sc (new sc c) [OBase (OParse bs)] = Ok m /\ no_unknown m = true /\ in_range sc m = true /\
    c01_value_ok sc m = false.
Proof. exact parse_nested_unknown_refuted. Qed.
Print Assumptions C01_parse_nested_unknown_refuted.

(* a 5-byte varint in a uint32 field: unsigned fields are not truncated by the decoder *)
Theorem C01_parse_out_of_range_refuted :
  exists sc c bs m,
    c01_schema_ok sc = true /\ clean_bytes sc c bs = false /\
    run7 sc (new sc c) [OBase (OParse bs)] = Ok m /\ no_unknown m = true /\ in_range sc m = false /\
    c01_value_ok sc m = false.
Proof. exact parse_out_of_range_refuted. Qed.
Print Assumptions C01_parse_out_of_range_refuted.

(* ---- non-vacuity: the twelve operations of ex_hist, then a parse INTO THE USED OBJECT whose nine records hit every
        merge path (singular overwrite, oneof member c - resets d -, packed append, unpacked append, map update with a
        nested message, sub-message replacement, wrapper, Timestamp, the sibling member d - resets c again), a read, and
        a second parse that appends an empty string ---- *)
Definition ex_bytes : list byte :=
  [x08; x03;                                     (* a = -2 *)
   x1a; x01; x79;                                (* c = "y" *)
   x3a; x04; x01; x00; x00; x00;                 (* g += [1] (packed fixed32) *)
   x42; x01; x7a;                                (* h += ["z"] *)
   x4a; x07; x0a; x01; x6b; x12; x02; x08; x01;  (* i["k"] = Cls(a = -1) *)
   x12; x02; x08; x05;                           (* b = Cls(a = -3) *)
   x32; x02; x08; x07;                           (* f = Int32Value(7) *)
   xfa; x7f; x02; x08; x01;                      (* j = Timestamp(seconds = 1) *)
   x20; x01].                                    (* d = 1 *)
Definition ex_hist_parse : list op7 :=
  ex_hist ++ [OBase (OParse ex_bytes); OBase (OGet [1%nat] 0); OBase (OParse [x42; x00])].
Example C01_reachable_parse_nonvacuous :
  clean_bytes ex_schema 11 ex_bytes = true /\
  hist_ok op_reach_ok_p ex_schema (new ex_schema 11) ex_hist_parse = true /\
  forallb op_static ex_hist_parse = false /\
  match run7 ex_schema (new ex_schema 11) ex_hist, run7 ex_schema (new ex_schema 11) ex_hist_parse with
  | Ok o0, Ok o => c01_value_ok ex_schema o0 = true /\ osow o0 = true /\        (* a used object is parsed into *)
            c01_value_ok ex_schema o = true /\ sow_ok ex_schema o = true /\ c01_holds ex_schema o = true /\
            which_one_of o0 0 = Some 3%nat /\ which_one_of o 0 = Some 3%nat /\ read ex_schema o0 3 = Ok (PInt (-1)) /\ read ex_schema o 3 = Ok (PInt 1) /\
            read ex_schema o 6 = Ok (PList [PInt 4294967295; PInt 1]) /\
            read ex_schema o 7 = Ok (PList [PStr [x7a]; PStr []])
  | _, _ => False
  end.
Proof. vm_compute. repeat split; reflexivity || lia || (repeat constructor). Qed.

From BP Require Import Model.C01Deep Proofs.C01Reach2C Proofs.C01Reach2D.

(* the [flagged] clause of dec_ok (a decoded message value carries its flag) never fails on what the decoder computes for
   a singular field: given the other clause it is implied, so clean_bytes excludes nothing through it (there is no
   _refuted witness for it because there is no such input) *)
Theorem C01_clean_flag_clause_redundant : forall fuel' sc n f p v,
  wf_field sc n f = true -> decode_value fuel' sc f p = Ok v ->
  dec_ok sc f v = match fhint f with HPlain _ | HOptional _ => val_ok sc f v | _ => dec_ok sc f v end.
Proof. exact dec_ok_without_flag. Qed.
Print Assumptions C01_clean_flag_clause_redundant.

(* ---- layer 7: the observers at EVERY depth.  [obs_deep] (Model/C01Deep.v) is obs_top applied to the two messages and
        recursively to every pair of nested message values (singular attributes, list items, map values).
        PARTIAL: proved for every message that satisfies, besides the hypotheses of C01_roundtrip, two decidable
        conditions on the value itself: [deep_sow_ok] (sow_ok at every nested message) and [deep_mapvals_emit] (no
        message held as a map value encodes to nothing - such a value is dropped from its entry and comes back as a
        fresh instance).  MISSING: (1) deep_sow_ok is not yet shown to be an invariant of the operation model (sow_ok
        of the top-level object is: C01_reachable_sow_ok_parse; at depth it additionally needs the values handed in to
        be deep_sow_ok themselves and one nested induction per operation); (2) deep_mapvals_emit is sufficient, not
        shown necessary: dropping it needs `enc_obj o = Ok [] -> obs_top o (new (ocls o))`, no refuting witness is
        known. *)
Theorem C01_observers_agree_deep_partial : forall sc m,
  c01_schema_ok sc = true -> c01_value_ok sc m = true ->
  deep_sow_ok sc m = true -> deep_mapvals_emit sc m = true ->
  obs_deep sc (PMsg m) (PMsg (norm_obj sc m)) = true.
Proof. exact c01_observers_agree_deep. Qed.
Print Assumptions C01_observers_agree_deep_partial.

(* for a reachable object (parse included): the two conditions are evaluated on the state reached *)
Theorem C01_observers_deep_reachable_partial : forall sc c ops m,
  c01_schema_ok sc = true -> hist_ok op_value_ok_p sc (new sc c) ops = true -> run7 sc (new sc c) ops = Ok m ->
  deep_sow_ok sc m = true -> deep_mapvals_emit sc m = true ->
  exists bs, enc_obj sc m = Ok bs /\
    (Zlength bs < 2 ^ 64 ->
     exists m', parse sc (ocls m) bs = Ok m' /\ m' = norm_obj sc m /\ obs_deep sc (PMsg m) (PMsg m') = true).
Proof.
  intros sc c ops m Hs Hh E Hw Hm. pose proof (c01_reachable_value_ok_parse sc c ops m Hs Hh E) as Hv.
  destruct (c01_roundtrip sc m Hs Hv) as (bs & Eb & Hrest). exists bs. split; [exact Eb|]. intros Hsm.
  destruct (Hrest Hsm) as (m' & Hp & Hn & _). exists m'. split; [exact Hp|]. split; [exact Hn|].
  rewrite Hn. apply c01_observers_agree_deep; assumption.
Qed.
Print Assumptions C01_observers_deep_reachable_partial.

(* non-vacuity: the object reached by ex_hist_parse (three levels of nested assignment, a map of messages, then the
   parse into it) satisfies both conditions; obs_deep is not trivially true (it fails against Cls()).  ex_obj holds an
   EMPTY message as a map value, so deep_mapvals_emit fails for it - obs_deep holds nevertheless (the condition is
   sufficient, not known to be necessary) *)
Example C01_deep_nonvacuous :
  deep_sow_ok ex_schema ex_obj = true /\ deep_mapvals_emit ex_schema ex_obj = false /\
  obs_deep ex_schema (PMsg ex_obj) (PMsg (norm_obj ex_schema ex_obj)) = true /\
  match run7 ex_schema (new ex_schema 11) ex_hist_parse with
  | Ok o => deep_sow_ok ex_schema o = true /\ deep_mapvals_emit ex_schema o = true /\
            obs_deep ex_schema (PMsg o) (PMsg (norm_obj ex_schema o)) = true /\
            obs_deep ex_schema (PMsg o) (PMsg (new ex_schema 11)) = false
  | Err _ => False
  end.
Proof. vm_compute. repeat split; reflexivity. Qed.

From BP Require Import Model.C01ReachCv Proofs.C01ReachCvP.

(* ---- layer 8: the hypothesis of the reachability theorems, clause by clause.  The check (harness/c01reach.py, stage
        `reach`) runs generated histories on the real classes AND evaluates `hist_ok op_reach_ok_p` on them inside Coq; to
        count which condition a history fails it evaluates six predicates (Model/C01ReachCv.v: values, oneof groups of
        constructor kwargs, pickle size, clean_bytes, flags of constructor / from_dict arguments, flags of assignments
        incl. the holders of a nested assignment).  These two theorems say that the six together ARE the hypothesis of
        C01_roundtrip_reachable_parse - per operation and per history (a history is judged along ONE run, whatever the
        predicate) - so the per-clause counts of the evidence are counts about that hypothesis and nothing else. *)
Theorem C01_reach_clauses : forall sc o p,
  op_reach_ok_p sc o p = forallb (fun cl => cl sc o p) clauses.
Proof. exact op_reach_ok_p_clauses. Qed.
Print Assumptions C01_reach_clauses.

Theorem C01_hist_reach_clauses : forall sc ops o,
  hist_ok op_reach_ok_p sc o ops = forallb (fun cl => hist_ok cl sc o ops) clauses.
Proof. exact hist_reach_ok_p_clauses. Qed.
Print Assumptions C01_hist_reach_clauses.

(* non-vacuity: the sixteen operations of ex_hist_parse satisfy all six; the K12 history m.a; m.a.b.x = 0 fails exactly
   cl_setflags, the two-member constructor exactly cl_groups, a parse of an unknown field exactly cl_parse *)
Example C01_reach_clauses_nonvacuous :
  map (fun cl => hist_ok cl ex_schema (new ex_schema 11) ex_hist_parse) clauses = [true; true; true; true; true; true] /\
  map (fun cl => hist_ok cl w_sc (new w_sc 11) [OBase (OGet [] 0); OBase (OSet [0%nat; 0%nat] 0 (PInt 0))]) clauses
    = [true; true; true; true; true; false] /\
  map (fun cl => hist_ok cl ex_schema (new ex_schema 11) [OConstruct [(2%nat, PStr [x78]); (3%nat, PInt 1)]]) clauses
    = [true; false; true; true; true; true] /\
  map (fun cl => hist_ok cl ex_schema (new ex_schema 11) [OBase (OSet [] 0 (PInt 1)); OBase (OParse [x98; x06; x01])]) clauses
    = [true; true; true; false; true; true].
Proof. vm_compute. repeat split; reflexivity. Qed.

From BP Require Import Model.Len Model.C17Typed Model.C17Nested Model.C14Pickle Model.C08Step Model.C03Bridge Spec.Descriptor.
From BP Require Import Model.C01GapDef Proofs.C01GapA Proofs.C01GapB Proofs.C03BridgeWit.

(* ---- layer 9: the property text compared clause by clause with layers 1-8 (table: header of Proofs/C01GapA.v) ---- *)

(* "decoding ... yields a message [of the domain]": the decoded message satisfies the value hypothesis again, and its flags
   satisfy sow_ok with NO hypothesis on the flags of m - after the first round trip the observer clause is unconditional *)
Theorem C01_decoded_in_domain : forall sc m,
  c01_schema_ok sc = true -> c01_value_ok sc m = true ->
  c01_value_ok sc (norm_obj sc m) = true /\ sow_ok sc (norm_obj sc m) = true.
Proof. exact decoded_in_domain. Qed.
Print Assumptions C01_decoded_in_domain.

(* "Encoding that decoded message again ...": decode-after-encode is idempotent (under the size condition of C01_roundtrip:
   the equation is obtained from parse being a function; without it: not proved) *)
Theorem C01_norm_idempotent : forall sc m bs,
  c01_schema_ok sc = true -> c01_value_ok sc m = true -> enc_obj sc m = Ok bs -> Zlength bs < 2 ^ 64 ->
  norm_obj sc (norm_obj sc m) = norm_obj sc m.
Proof. exact norm_idem. Qed.
Print Assumptions C01_norm_idempotent.

(* the second cycle: m' is a fixpoint; value and flag conditions, observers and (NaN-free) == hold of it outright *)
Theorem C01_second_cycle : forall sc m bs,
  c01_schema_ok sc = true -> c01_value_ok sc m = true -> enc_obj sc m = Ok bs -> Zlength bs < 2 ^ 64 ->
  let m' := norm_obj sc m in
  parse sc (ocls m) bs = Ok m' /\ enc_obj sc m' = Ok bs /\ parse sc (ocls m') bs = Ok m' /\
  c01_value_ok sc m' = true /\ sow_ok sc m' = true /\ obs_top sc m' m' = true /\
  (deep nan_free (PMsg m') = true -> obj_eq sc m' m' = true).
Proof. exact second_cycle. Qed.
Print Assumptions C01_second_cycle.

(* ... and every later cycle: n+1 passes through bytes / parse end in the same object, which encodes to the same bytes *)
Theorem C01_cycles_fixpoint : forall sc m bs n,
  c01_schema_ok sc = true -> c01_value_ok sc m = true -> enc_obj sc m = Ok bs -> Zlength bs < 2 ^ 64 ->
  cycles sc (S n) m = Ok (norm_obj sc m) /\ enc_obj sc (norm_obj sc m) = Ok bs.
Proof. exact cycles_fixpoint. Qed.
Print Assumptions C01_cycles_fixpoint.

(* "THE decoded message": it is determined by the bytes; two values with the same bytes are == to each other's decoded form *)
Theorem C01_decoded_unique : forall sc m1 m2 bs,
  c01_schema_ok sc = true -> c01_value_ok sc m1 = true -> c01_value_ok sc m2 = true -> ocls m1 = ocls m2 ->
  enc_obj sc m1 = Ok bs -> enc_obj sc m2 = Ok bs -> Zlength bs < 2 ^ 64 ->
  norm_obj sc m1 = norm_obj sc m2 /\ (forall g, which_one_of m1 g = which_one_of m2 g) /\
  (deep nan_free (PMsg m1) = true -> deep nan_free (PMsg m2) = true ->
   obj_eq sc m1 (norm_obj sc m2) = true /\ obj_eq sc (norm_obj sc m1) m2 = true).
Proof. exact decoded_unique. Qed.
Print Assumptions C01_decoded_unique.

(* the encoder is injective exactly up to norm_obj: same class and same bytes IFF same decoded message *)
Theorem C01_enc_eq_iff_norm_eq : forall sc m1 m2 bs,
  c01_schema_ok sc = true -> c01_value_ok sc m1 = true -> c01_value_ok sc m2 = true ->
  enc_obj sc m1 = Ok bs -> Zlength bs < 2 ^ 64 ->
  (enc_obj sc m2 = Ok bs /\ ocls m2 = ocls m1 <-> norm_obj sc m2 = norm_obj sc m1).
Proof. exact enc_eq_iff_norm_eq. Qed.
Print Assumptions C01_enc_eq_iff_norm_eq.

(* "equal to m": Message.__eq__ in both directions (it is not symmetric by construction) *)
Theorem C01_equal_both_ways : forall sc m,
  c01_schema_ok sc = true -> c01_value_ok sc m = true -> deep nan_free (PMsg m) = true ->
  obj_eq sc m (norm_obj sc m) = true /\ obj_eq sc (norm_obj sc m) m = true.
Proof. exact equal_both_ways. Qed.
Print Assumptions C01_equal_both_ways.

(* composition with C17_accept_iff: bytes(m) meets the exact acceptance criterion of the class of m *)
Theorem C01_bytes_valid : forall sc m bs,
  c01_schema_ok sc = true -> c01_value_ok sc m = true -> enc_obj sc m = Ok bs -> Zlength bs < 2 ^ 64 ->
  valid sc (ocls m) bs.
Proof. exact bytes_valid. Qed.
Print Assumptions C01_bytes_valid.

(* composition with C09: len(m) = len(m') = the number of bytes *)
Theorem C01_len_roundtrip : forall sc m bs,
  c01_schema_ok sc = true -> c01_value_ok sc m = true -> enc_obj sc m = Ok bs ->
  len_obj sc m = Ok (Zlength bs) /\ len_obj sc (norm_obj sc m) = Ok (Zlength bs).
Proof. exact len_roundtrip. Qed.
Print Assumptions C01_len_roundtrip.

(* composition with C08: a message that holds unknown records at the top level (outside c01_value_ok) - [unk_records_ok]: its
   _unknown_fields is a concatenation of complete records the class keeps verbatim (what parse leaves there); the records come
   back verbatim, the rest as in C01_roundtrip, == in both directions.  Unknown bytes inside NESTED messages: not covered *)
Theorem C01_roundtrip_unknown : forall sc m,
  c01_schema_ok sc = true -> c01_value_ok sc (clear_unk m) = true -> unk_records_ok sc m = true -> enc_small sc m = true ->
  exists body m', enc_obj sc (clear_unk m) = Ok body /\ enc_obj sc m = Ok (body ++ ounk m) /\
    parse sc (ocls m) (body ++ ounk m) = Ok m' /\ m' = set_unk (norm_obj sc (clear_unk m)) (ounk m) /\
    ounk m' = ounk m /\ enc_obj sc m' = Ok (body ++ ounk m) /\
    (forall g, which_one_of m' g = which_one_of m g) /\
    (deep nan_free (PMsg m) = true -> obj_eq sc m m' = true /\ obj_eq sc m' m = true) /\
    (sow_ok sc m = true -> obs_top sc m m' = true).
Proof. exact roundtrip_unknown. Qed.
Print Assumptions C01_roundtrip_unknown.

(* "message types ... generated by the plugin": for every class table with C03's table_ok (what the plugin's output denotes:
   C03_table_schema_ok and the C03 descriptor theorems) the schema hypothesis is discharged *)
Theorem C01_table_roundtrip : forall (t : class_table) m,
  table_ok t = true ->
  let sc := schema_of_table t in
  c01_value_ok sc m = true ->
  exists bs, enc_obj sc m = Ok bs /\
    (Zlength bs < 2 ^ 64 ->
     exists m', parse sc (ocls m) bs = Ok m' /\ m' = norm_obj sc m /\
       (deep nan_free (PMsg m) = true -> obj_eq sc m m' = true) /\
       (forall g, which_one_of m' g = which_one_of m g) /\
       (sow_ok sc m = true -> obs_top sc m m' = true) /\
       enc_obj sc m' = Ok bs).
Proof. exact table_roundtrip. Qed.
Print Assumptions C01_table_roundtrip.

(* ---- non-vacuity of layer 9: ex_obj (norm_obj changes it: the flag of the top-level object and the empty map value), a second
        value with the same bytes but another raw state (an unset plain field written as its default), unknown records (field
        99 varint, field 100 length-delimited) attached to ex_obj, the plugin-derived table T_ok with its value ok_outer ---- *)
Definition ex_obj2 : obj :=
  match ex_obj with Obj c raw sow unk cur => Obj c (set_nth 3 PPlaceholder (set_nth 6 (PList [PInt 4294967295; PInt 0]) raw)) false unk cur end.
Definition ex_obj_unk : obj := set_unk ex_obj [x98; x06; x01; xa2; x06; x02; x68; x69].
Example C01_gap_nonvacuous :
  match enc_obj ex_schema ex_obj with
  | Ok bs =>
      (Zlength bs <? 2 ^ 64) = true /\
      len_obj ex_schema ex_obj = Ok (Zlength bs) /\
      cycles ex_schema 3 ex_obj = Ok (norm_obj ex_schema ex_obj) /\
      norm_obj ex_schema (norm_obj ex_schema ex_obj) = norm_obj ex_schema ex_obj /\
      enc_obj ex_schema ex_obj2 = Ok bs
  | Err _ => False
  end /\
  c01_value_ok ex_schema ex_obj2 = true /\ ocls ex_obj2 = ocls ex_obj /\
  c01_value_ok ex_schema (norm_obj ex_schema ex_obj) = true /\ sow_ok ex_schema (norm_obj ex_schema ex_obj) = true /\
  c01_value_ok ex_schema ex_obj_unk = false /\ c01_value_ok ex_schema (clear_unk ex_obj_unk) = true /\
  unk_records_ok ex_schema ex_obj_unk = true /\ enc_small ex_schema ex_obj_unk = true /\
  table_ok T_ok = true /\ c01_value_ok (schema_of_table T_ok) ok_outer = true.
Proof. vm_compute. repeat split; reflexivity || lia || (repeat constructor). Qed.

(* "all scalar kinds, enums incl. negative and unlisted numbers, nested/recursive messages, repeated, packed, maps, oneofs,
   proto3-optional, wrapper and Timestamp/Duration fields": the side conditions ADMIT every one of them.  gk_schema
   (Model/C01GapDef.v): each of the 16 scalar kinds as a plain, a repeated, a proto3-optional field and a oneof member, the nine
   wrappers, Timestamp, Duration, repeated Timestamp, a recursive message (plain, optional, repeated, oneof member, map value),
   a map for each of the 12 legal key kinds.  gk_obj: 32/64-bit boundaries, enum -2^31 (negative, unlisted), -0.0, -inf, +inf,
   a singular NaN, non-BMP string, negative Duration, optionals holding the default value, the selected oneof member holding
   its default "", an empty-but-present sub-message; gk_empty: empty containers, nothing set.  The property evaluated on both. *)
Example C01_all_kinds_schema :
  c01_schema_ok gk_schema = true /\ length gk_fields = 92%nat /\ length (classes gk_schema) = 24%nat /\
  forallb (fun t => existsb (fun f => ptype_eqb (fty f) t && match fhint f with HPlain _ => negb (is_some (fgroup f)) | _ => false end) gk_fields &&
                    existsb (fun f => ptype_eqb (fty f) t && match fhint f with HList _ => true | _ => false end) gk_fields &&
                    existsb (fun f => ptype_eqb (fty f) t && fopt f) gk_fields &&
                    existsb (fun f => ptype_eqb (fty f) t && is_some (fgroup f)) gk_fields) scalar_ptypes = true /\
  forallb (fun w => existsb (fun f => opt_eqb ptype_eqb (fwraps f) (Some w)) gk_fields) wrapper_types = true /\
  forallb (fun k => negb (map_key_ok k) ||
                    existsb (fun f => match fmap f with Some (kt, _) => ptype_eqb kt k | None => false end) gk_fields) scalar_ptypes = true.
Proof. exact all_kinds_schema. Qed.

Example C01_all_kinds_value :
  c01_value_ok gk_schema gk_obj = true /\ sow_ok gk_schema gk_obj = true /\ deep nan_free (PMsg gk_obj) = true /\
  c01_holds gk_schema gk_obj = true /\
  which_one_of (norm_obj gk_schema gk_obj) 0 = Some gk_selected /\
  match enc_obj gk_schema gk_obj with
  | Ok bs => parse gk_schema 11 bs = Ok (norm_obj gk_schema gk_obj) /\ (400 < length bs)%nat
  | Err _ => False
  end /\
  c01_value_ok gk_schema gk_empty = true /\ c01_holds gk_schema gk_empty = true /\ enc_obj gk_schema gk_empty = Ok [].
Proof. exact all_kinds_value. Qed.
