(* C04 - dict / JSON round trip: from_dict(to_dict(m)) and from_json(to_json(m)) give m.

   Model   coq/Model/Json.v: Message.to_dict, _from_dict_init, from_dict (class and instance form), the json text
           path (text_rt = json.loads o json.dumps on the AST), _dump_float/_parse_float, _dump_enum, _dump_json_value/
           _parse_json_value/_parse_json_key, base64, isoformat/isoparse, over the shared object model (Object, Eq, Encode).
   Side conditions (coq/Proofs/C04Def.v, all decidable, all evaluated by harness/props/c04.py on what it generates):
     wf_schema sc                 the class table is what the plugin / the field API builds
     keys_ok cs sc                the keys of every class are pairwise distinct and map back to their field (C19)
     good sc m = in_range sc m    C01's in-range values
              && oneof_ok sc m    a oneof member holds a value iff its group selects it (at every depth)
              && dicts_ok sc m    the keys of a dict are pairwise distinct (an invariant of Python dicts)
              && json_supported sc m, whose three conjuncts are the classes the repaired code still cannot round-trip,
                                  each with a _refuted witness below and an entry in known_findings/C04.json:
                   no_unknown     unknown fields have no JSON form              (cls unknown-fields)
                   no_lazy        K12: non-empty message below a lazily created intermediate (cls lazy-intermediate)
                   nan_ok         NaN other than float("nan") / NaN inside repeated or map  (cls nan-payload, nan-in-container)
   The theorems of the first part are about to_dict(include_default_values=False) (the default); obj_eq is Message.__eq__,
   enc_obj is bytes().

   Second part (theorems C04_incl_..., C04_repwrap_..., C04_general_...): include_default_values=True and REPEATED WRAPPER fields.
     all_present sc m   (coq/Proofs/C04InclDef.v) every implicit-presence sub-message field (plain, not in a oneof), at every depth,
                        holds a message whose _serialized_on_wire is True.  The extra condition of the BYTES half of the round trip
                        through to_dict(include_default_values=True): the listed default `"sub": {...}` of an unset plain sub-message
                        is read back by from_dict as a PRESENT sub-message, == m but encoded as `tag 00`
                        (C04_incl_unset_submessage_refuted; cls incl-unset-submessage; the gnorm_obj of every value that violates
                        it holds a present sub-message where m has none - the necessity is proved for the witness only).  It implies
                        that Cls().to_dict(include_default_values=True) is never called, so no recursive class is entered.
     defaults_reach sc m  Cls().to_dict(include_default_values=True) terminates for every unset plain sub-message field of m (the chain
                        of plain sub-message classes below it is shorter than the model's fuel; false on a recursive class, where Python
                        raises RecursionError: C04_incl_recursive_refuted).  It is all the == half of the round trip and C04_incl_dumps_total
                        need (C04_incl_eq_rt); all_present implies it.
     wfx_schema sc      (coq/Model/C04RepWrap.v) wf_schema that also admits `repeated google.protobuf.XxxValue` fields
                        (List[...] with meta.proto_type = message and meta.wraps set; commit 09cc975)
     goodx sc m         good with in_rangex: the elements of a repeated wrapper field are judged by meta.wraps
                        (WellFormed.in_range judges them by meta.proto_type = message and rejects every non-empty list)
     incl_ok incl sc m  negb incl || all_present sc m;   reach_ok incl sc m  negb incl || defaults_reach sc m *)
From BP Require Import Base.Prelude Model.Types Model.Object Model.Eq Model.TimeCore Model.Encode Model.WellFormed Model.Json Model.C04RepWrap.
From BP Require Import Proofs.C04Def Proofs.C04ScalarP Proofs.C04CalP Proofs.C04CalSweepP Proofs.C04ObjP Proofs.C04RtP4 Proofs.C04InstP Proofs.C04DumpsP Proofs.C04MainP Proofs.C04WitP.
From BP Require Import Proofs.C04InclDef Proofs.C04InclBaseP Proofs.C04InclMainP Proofs.C04InclWitP.

(* ---- the oracles inside the model, proved rather than assumed ---- *)
Theorem C04_base64_inverse : forall bs, b64decode (b64encode bs) = Ok bs.
Proof. exact b64_roundtrip. Qed.
Print Assumptions C04_base64_inverse.

(* isoparse reads back every Timestamp string to_dict writes (years 1..9999; the calendar by a sweep of one 400-year era) *)
Theorem C04_calendar_inverse : forall us,
  (dt_min_us <=? us) && (us <=? dt_max_us) = true -> iso_parse (ts_text us) = Ok us.
Proof. intros us H. exact (iso_roundtrip us cal_fact_holds H). Qed.
Print Assumptions C04_calendar_inverse.

(* ---- (A) from_dict of to_dict(m), directly (text = false) or through the JSON text (text = true), is exactly norm_obj m ---- *)
Theorem C04_from_to_dict_norm : forall sc cs (text : bool) m,
  wf_schema sc = true -> keys_ok cs sc = true -> good sc m = true ->
  from_dict_cls sc (ocls m) (tr text (to_dict cs false sc m)) = Ok (norm_obj sc m).
Proof. intros sc cs text m W K G. exact (from_to_dict_norm sc cs text W K m G). Qed.
Print Assumptions C04_from_to_dict_norm.

(* ---- (B) norm_obj m is == m and encodes to the same bytes ---- *)
Theorem C04_norm_faithful : forall sc m, wf_schema sc = true -> good sc m = true ->
  obj_eq sc (norm_obj sc m) m = true /\ enc_obj sc (norm_obj sc m) = enc_obj sc m.
Proof. intros sc m W G. exact (norm_faithful sc W m G). Qed.
Print Assumptions C04_norm_faithful.

(* ---- C04_dumps_total: to_dict(m) is json.dumps-serialisable (str / int / float / bool / None / list / dict with
        str-able keys only; bytes, datetime, timedelta, Message objects never appear). No json_supported, no keys_ok. ---- *)
Theorem C04_dumps_total : forall sc cs m,
  wf_schema sc = true -> in_range sc m = true -> oneof_ok sc m = true -> dumpsable (to_dict cs false sc m) = true.
Proof. exact dumps_total_main. Qed.
Print Assumptions C04_dumps_total.

(* ---- C04_dict_rt: the dict path, for casing cs in {CAMEL, SNAKE} (any cs with keys_ok), BOTH forms:
        Cls.from_dict(d) and Cls().from_dict(d) build the same message m', m' == m, bytes(m') = bytes(m) ---- *)
Theorem C04_dict_rt : forall sc cs m,
  wf_schema sc = true -> keys_ok cs sc = true -> good sc m = true ->
  exists m', from_dict_cls sc (ocls m) (to_dict cs false sc m) = Ok m' /\
             from_dict_inst sc (new sc (ocls m)) (to_dict cs false sc m) = Ok m' /\
             obj_eq sc m' m = true /\ enc_obj sc m' = enc_obj sc m.
Proof. exact dict_rt. Qed.
Print Assumptions C04_dict_rt.

(* ---- C04_text_rt: the same through json.dumps / json.loads (json.dumps succeeds; object keys arrive as strings):
        Cls.from_dict(json.loads(json.dumps(d))) and Cls().from_json(m.to_json()) ---- *)
Theorem C04_text_rt : forall sc cs m,
  wf_schema sc = true -> keys_ok cs sc = true -> good sc m = true ->
  exists m', json_rt_cls cs false sc m = Ok m' /\
             json_rt_inst cs false sc m (new sc (ocls m)) = Ok m' /\
             obj_eq sc m' m = true /\ enc_obj sc m' = enc_obj sc m.
Proof. exact text_rt_rt. Qed.
Print Assumptions C04_text_rt.

(* ---- the classes of values outside json_supported really fail (each replayed on the implementation) ---- *)
Theorem C04_unknown_fields_refuted :
  domain_ok ex_sc wit_unknown = true /\ no_lazy ex_sc wit_unknown = true /\ nan_ok wit_unknown = true /\
  no_unknown wit_unknown = false /\
  match rt_class CAMEL false ex_sc wit_unknown with
  | Ok m' => obj_eq ex_sc m' wit_unknown = true /\ bytes_differ (enc_obj ex_sc m') (enc_obj ex_sc wit_unknown) = true
  | Err _ => False
  end.
Proof. exact unknown_refuted. Qed.
Print Assumptions C04_unknown_fields_refuted.

Theorem C04_lazy_intermediate_refuted :
  domain_ok ex_sc wit_lazy = true /\ no_unknown wit_lazy = true /\ nan_ok wit_lazy = true /\
  no_lazy ex_sc wit_lazy = false /\
  to_dict CAMEL false ex_sc wit_lazy = JObj [] /\
  match rt_class CAMEL false ex_sc wit_lazy with
  | Ok m' => obj_eq ex_sc m' wit_lazy = false /\ bytes_differ (enc_obj ex_sc m') (enc_obj ex_sc wit_lazy) = true
  | Err _ => False
  end.
Proof. exact lazy_refuted. Qed.
Print Assumptions C04_lazy_intermediate_refuted.

Theorem C04_nan_in_container_refuted :
  domain_ok ex_sc wit_nan_list = true /\ no_unknown wit_nan_list = true /\ no_lazy ex_sc wit_nan_list = true /\
  nan_ok wit_nan_list = false /\
  match rt_class CAMEL true ex_sc wit_nan_list with
  | Ok m' => obj_eq ex_sc m' wit_nan_list = false /\ enc_obj ex_sc m' = enc_obj ex_sc wit_nan_list
  | Err _ => False
  end.
Proof. exact nan_in_container_refuted. Qed.
Print Assumptions C04_nan_in_container_refuted.

Theorem C04_nan_payload_refuted :
  domain_ok ex_sc wit_nan_payload = true /\ no_unknown wit_nan_payload = true /\ no_lazy ex_sc wit_nan_payload = true /\
  nan_ok wit_nan_payload = false /\
  match rt_class CAMEL false ex_sc wit_nan_payload with
  | Ok m' => obj_eq ex_sc m' wit_nan_payload = true /\ bytes_differ (enc_obj ex_sc m') (enc_obj ex_sc wit_nan_payload) = true
  | Err _ => False
  end.
Proof. exact nan_payload_refuted. Qed.
Print Assumptions C04_nan_payload_refuted.

(* ---- non-vacuity: one schema and one value meet every hypothesis at once (nested message, set optional 0, optional
        Timestamp at the epoch, map<int32,bytes> with an empty value, repeated double, the canonical NaN, a selected oneof
        member holding its default), and the round trip through the text really rebuilds it ---- *)
Example C04_hypotheses_satisfiable :
  wf_schema ex_sc = true /\ keys_ok CAMEL ex_sc = true /\ keys_ok SNAKE ex_sc = true /\ good ex_sc ex_m = true.
Proof. vm_compute. repeat split; reflexivity. Qed.

Example C04_nonvacuous :
  match json_rt_inst SNAKE false ex_sc ex_m (new ex_sc 11) with
  | Ok m' => obj_eq ex_sc m' ex_m = true /\ enc_obj ex_sc m' = enc_obj ex_sc ex_m /\
             match enc_obj ex_sc ex_m with Ok b => (70 <? Zlength b) = true | Err _ => False end
  | Err _ => False
  end.
Proof. vm_compute. repeat split; reflexivity. Qed.

(* ====================================================================================================================== *)
(* include_default_values = True                                                                                         *)
(* ====================================================================================================================== *)

(* ---- C04_incl_dict_rt: the dict path of to_dict(include_default_values=True), casing cs in {CAMEL, SNAKE}, BOTH forms:
        Cls.from_dict(d) and Cls().from_dict(d) build the same message m', m' == m, bytes(m') = bytes(m).
        Same hypotheses as C04_dict_rt plus all_present (needed: C04_incl_unset_submessage_refuted).  Unselected oneof
        members are left out of d (commit 79f89e0), implicit-presence defaults are listed and read back as values that
        are == the default and contribute no bytes, optional fields that are None are listed as null and skipped. ---- *)
Theorem C04_incl_dict_rt : forall sc cs m,
  wf_schema sc = true -> keys_ok cs sc = true -> good sc m = true -> all_present sc m = true ->
  exists m', from_dict_cls sc (ocls m) (to_dict cs true sc m) = Ok m' /\
             from_dict_inst sc (new sc (ocls m)) (to_dict cs true sc m) = Ok m' /\
             obj_eq sc m' m = true /\ enc_obj sc m' = enc_obj sc m.
Proof. exact incl_dict_rt. Qed.
Print Assumptions C04_incl_dict_rt.

(* ---- C04_incl_text_rt: the same through json.dumps / json.loads:
        Cls.from_dict(json.loads(json.dumps(d))) and Cls().from_json(m.to_json(include_default_values=True)) ---- *)
Theorem C04_incl_text_rt : forall sc cs m,
  wf_schema sc = true -> keys_ok cs sc = true -> good sc m = true -> all_present sc m = true ->
  exists m', json_rt_cls cs true sc m = Ok m' /\
             json_rt_inst cs true sc m (new sc (ocls m)) = Ok m' /\
             obj_eq sc m' m = true /\ enc_obj sc m' = enc_obj sc m.
Proof. exact incl_text_rt. Qed.
Print Assumptions C04_incl_text_rt.

(* ---- C04_incl_eq_rt: the == half needs no all_present.  Whenever to_dict(m, include_default_values=True) exists
        (defaults_reach: no recursive class is entered), from_dict of it - both forms, dict path (text = false) and JSON
        text path (text = true) - builds a message that is == m; the listed default of an unset plain sub-message comes
        back as a present message that is == Cls() (its bytes are the subject of C04_incl_unset_submessage_refuted) ---- *)
Theorem C04_incl_eq_rt : forall sc cs (text : bool) m,
  wf_schema sc = true -> keys_ok cs sc = true -> good sc m = true -> defaults_reach sc m = true ->
  exists m', from_dict_cls sc (ocls m) (tr text (to_dict cs true sc m)) = Ok m' /\
             from_dict_inst sc (new sc (ocls m)) (tr text (to_dict cs true sc m)) = Ok m' /\
             obj_eq sc m' m = true.
Proof. exact incl_eq_rt. Qed.
Print Assumptions C04_incl_eq_rt.

Theorem C04_incl_eq_text_rt : forall sc cs m,
  wf_schema sc = true -> keys_ok cs sc = true -> good sc m = true -> defaults_reach sc m = true ->
  exists m', json_rt_cls cs true sc m = Ok m' /\
             json_rt_inst cs true sc m (new sc (ocls m)) = Ok m' /\
             obj_eq sc m' m = true.
Proof. exact incl_eq_text_rt. Qed.
Print Assumptions C04_incl_eq_text_rt.

(* ---- C04_incl_dumps_total: to_dict(m, include_default_values=True) is json.dumps-serialisable whenever the defaults
        of its unset plain sub-messages can be materialised at all (defaults_reach; no all_present, no json_supported,
        no keys_ok) ---- *)
Theorem C04_incl_dumps_total : forall sc cs m,
  wf_schema sc = true -> in_range sc m = true -> oneof_ok sc m = true -> defaults_reach sc m = true ->
  dumpsable (to_dict cs true sc m) = true.
Proof. exact incl_dumps_total. Qed.
Print Assumptions C04_incl_dumps_total.

(* ---- without all_present the bytes differ: Outer(x=3) with the plain sub-message `sub` unset.
        to_dict(include_default_values=True) = {"x": 3, "sub": {"y": 0, ...}, ...}; from_dict gives a message that is == m
        but whose `sub` is present: 08 03 12 00 instead of 08 03 (replayed on the implementation) ---- *)
Theorem C04_incl_unset_submessage_refuted :
  schema_ok exi_sc = true /\ good exi_sc wit_unset_sub = true /\ defaults_reach exi_sc wit_unset_sub = true /\
  all_present exi_sc wit_unset_sub = false /\
  enc_obj exi_sc wit_unset_sub = Ok [x08; x03] /\
  match rt_class_incl CAMEL false exi_sc wit_unset_sub with
  | Ok m' => obj_eq exi_sc m' wit_unset_sub = true /\ enc_obj exi_sc m' = Ok [x08; x03; x12; x00]
  | Err _ => False
  end.
Proof. exact incl_unset_submessage_refuted. Qed.
Print Assumptions C04_incl_unset_submessage_refuted.

(* ---- without defaults_reach there is no dict at all: a class with a plain field of its own type (RecursionError in
        Python; the model's fuel runs out and leaves a PLACEHOLDER in the dict) ---- *)
Theorem C04_incl_recursive_refuted :
  schema_ok ex_sc = true /\ good ex_sc (with_x 3 true []) = true /\
  defaults_reach ex_sc (with_x 3 true []) = false /\
  dumpsable (to_dict CAMEL true ex_sc (with_x 3 true [])) = false /\
  match rt_class_incl CAMEL false ex_sc (with_x 3 true []) with Ok _ => False | Err _ => True end.
Proof. exact incl_recursive_refuted. Qed.
Print Assumptions C04_incl_recursive_refuted.

(* ====================================================================================================================== *)
(* repeated wrapper fields (wfx_schema / goodx), and everything at once                                                   *)
(* ====================================================================================================================== *)

(* the extension is conservative: a wf_schema is a wfx_schema, and on a wf_schema goodx is good *)
Theorem C04_wfx_extends_wf : forall sc, wf_schema sc = true ->
  wfx_schema sc = true /\ forall m, in_rangex sc m = in_range sc m.
Proof. intros sc W. split; [exact (wf_wfx_schema sc W)|intros m; exact (in_rangex_in_range sc m W)]. Qed.
Print Assumptions C04_wfx_extends_wf.

(* ---- C04_repwrap_dict_rt: C04_dict_rt for schemas with repeated wrapper fields ---- *)
Theorem C04_repwrap_dict_rt : forall sc cs m,
  wfx_schema sc = true -> keys_ok cs sc = true -> goodx sc m = true ->
  exists m', from_dict_cls sc (ocls m) (to_dict cs false sc m) = Ok m' /\
             from_dict_inst sc (new sc (ocls m)) (to_dict cs false sc m) = Ok m' /\
             obj_eq sc m' m = true /\ enc_obj sc m' = enc_obj sc m.
Proof. exact repwrap_dict_rt. Qed.
Print Assumptions C04_repwrap_dict_rt.

Theorem C04_repwrap_text_rt : forall sc cs m,
  wfx_schema sc = true -> keys_ok cs sc = true -> goodx sc m = true ->
  exists m', json_rt_cls cs false sc m = Ok m' /\
             json_rt_inst cs false sc m (new sc (ocls m)) = Ok m' /\
             obj_eq sc m' m = true /\ enc_obj sc m' = enc_obj sc m.
Proof. exact repwrap_text_rt. Qed.
Print Assumptions C04_repwrap_text_rt.

Theorem C04_repwrap_dumps_total : forall sc cs m,
  wfx_schema sc = true -> in_rangex sc m = true -> oneof_ok sc m = true -> dumpsable (to_dict cs false sc m) = true.
Proof. exact repwrap_dumps_total. Qed.
Print Assumptions C04_repwrap_dumps_total.

(* ---- the general statements: any flag incl, schemas with repeated wrapper fields, dict path (text = false) and JSON
        text path (text = true), both forms; the normal form the round trip builds is gnorm_obj incl sc m ---- *)
Theorem C04_general_from_to_dict_norm : forall sc cs incl (text : bool) m,
  wfx_schema sc = true -> keys_ok cs sc = true -> goodx sc m = true -> reach_ok incl sc m = true ->
  from_dict_cls sc (ocls m) (tr text (to_dict cs incl sc m)) = Ok (gnorm_obj incl sc m).
Proof. exact norm_formG. Qed.
Print Assumptions C04_general_from_to_dict_norm.

Theorem C04_general_eq_rt : forall sc cs incl (text : bool) m,
  wfx_schema sc = true -> keys_ok cs sc = true -> goodx sc m = true -> reach_ok incl sc m = true ->
  exists m', from_dict_cls sc (ocls m) (tr text (to_dict cs incl sc m)) = Ok m' /\
             from_dict_inst sc (new sc (ocls m)) (tr text (to_dict cs incl sc m)) = Ok m' /\
             obj_eq sc m' m = true.
Proof. exact eq_formsG. Qed.
Print Assumptions C04_general_eq_rt.

Theorem C04_general_rt : forall sc cs incl (text : bool) m,
  wfx_schema sc = true -> keys_ok cs sc = true -> goodx sc m = true -> incl_ok incl sc m = true ->
  exists m', from_dict_cls sc (ocls m) (tr text (to_dict cs incl sc m)) = Ok m' /\
             from_dict_inst sc (new sc (ocls m)) (tr text (to_dict cs incl sc m)) = Ok m' /\
             obj_eq sc m' m = true /\ enc_obj sc m' = enc_obj sc m.
Proof. exact both_formsG. Qed.
Print Assumptions C04_general_rt.

Theorem C04_general_text_rt : forall sc cs incl m,
  wfx_schema sc = true -> keys_ok cs sc = true -> goodx sc m = true -> incl_ok incl sc m = true ->
  exists m', json_rt_cls cs incl sc m = Ok m' /\
             json_rt_inst cs incl sc m (new sc (ocls m)) = Ok m' /\
             obj_eq sc m' m = true /\ enc_obj sc m' = enc_obj sc m.
Proof. exact text_rtG. Qed.
Print Assumptions C04_general_text_rt.

Theorem C04_general_dumps_total : forall sc cs incl m,
  wfx_schema sc = true -> in_rangex sc m = true -> oneof_ok sc m = true -> (incl = true -> defaults_reach sc m = true) ->
  dumpsable (to_dict cs incl sc m) = true.
Proof. exact dumps_total_mainG. Qed.
Print Assumptions C04_general_dumps_total.

(* all_present is the stronger condition: it implies defaults_reach *)
Theorem C04_all_present_reach : forall sc m, all_present sc m = true -> defaults_reach sc m = true.
Proof. exact all_present_reach. Qed.
Print Assumptions C04_all_present_reach.

(* ---- non-vacuity of the second part ---- *)
(* include_default_values=True: a non-recursive wf_schema and a value with a present-but-empty plain sub-message, unset
   scalars / Timestamp (listed as defaults), an unset optional and an unset wrapper (listed as null), a set-but-empty
   optional sub-message, a repeated and a map field holding an empty message, a selected oneof member that is an empty
   message (its unselected sibling is left out) *)
Example C04_incl_hypotheses_satisfiable :
  wf_schema exi_sc = true /\ keys_ok CAMEL exi_sc = true /\ keys_ok SNAKE exi_sc = true /\
  good exi_sc exi_m = true /\ all_present exi_sc exi_m = true /\ defaults_reach exi_sc exi_m = true.
Proof. vm_compute. repeat split; reflexivity. Qed.

Example C04_incl_nonvacuous :
  match json_rt_inst SNAKE true exi_sc exi_m (new exi_sc 11), to_dict CAMEL true exi_sc exi_m with
  | Ok m', JObj d => obj_eq exi_sc m' exi_m = true /\ enc_obj exi_sc m' = enc_obj exi_sc exi_m /\
                     length d = 10%nat /\
                     match enc_obj exi_sc exi_m with Ok b => (20 <? Zlength b) = true | Err _ => False end
  | _, _ => False
  end.
Proof. vm_compute. repeat split; reflexivity. Qed.

(* defaults_reach without all_present (C04_incl_eq_rt, C04_incl_dumps_total): the dict of the refuted witness is still
   serialisable, and what from_dict builds from it is the normal form gnorm_obj, == the original *)
Example C04_incl_dumps_nonvacuous :
  good exi_sc wit_unset_sub = true /\ defaults_reach exi_sc wit_unset_sub = true /\
  all_present exi_sc wit_unset_sub = false /\ dumpsable (to_dict CAMEL true exi_sc wit_unset_sub) = true /\
  json_rt_cls CAMEL true exi_sc wit_unset_sub = Ok (gnorm_obj true exi_sc wit_unset_sub) /\
  obj_eq exi_sc (gnorm_obj true exi_sc wit_unset_sub) wit_unset_sub = true.
Proof. vm_compute. repeat split; reflexivity. Qed.

(* repeated wrappers: a schema that is wfx but NOT wf, a value that is goodx but NOT in_range (non-empty repeated BytesValue
   with an empty element, unset repeated DoubleValue which to_dict lists as []) *)
Example C04_repwrap_hypotheses_satisfiable :
  wf_schema exr_sc = false /\ wfx_schema exr_sc = true /\ keys_ok CAMEL exr_sc = true /\ keys_ok SNAKE exr_sc = true /\
  goodx exr_sc exr_m = true /\ in_range exr_sc exr_m = false /\ all_present exr_sc exr_m = true.
Proof. vm_compute. repeat split; reflexivity. Qed.

Example C04_repwrap_nonvacuous :
  match json_rt_inst SNAKE false exr_sc exr_m (new exr_sc 11), from_dict_cls exr_sc 11 (to_dict CAMEL true exr_sc exr_m) with
  | Ok m', Ok m'' => obj_eq exr_sc m' exr_m = true /\ enc_obj exr_sc m' = enc_obj exr_sc exr_m /\
                     obj_eq exr_sc m'' exr_m = true /\ enc_obj exr_sc m'' = enc_obj exr_sc exr_m /\
                     match enc_obj exr_sc exr_m with Ok b => (30 <? Zlength b) = true | Err _ => False end
  | _, _ => False
  end.
Proof. vm_compute. repeat split; reflexivity. Qed.

(* ====================================================================================================================== *)
(* Gap closing against the property text (clause table: Proofs/C04GapA.v)                                                 *)
(* ====================================================================================================================== *)
From BP Require Import Model.C04GapDef Proofs.C04GapA Proofs.C04GapB.
From BP Require Model.C01Def Proofs.C07InvP.
From BP Require Import Model.Decode.

(* ---- "for both key casings ... via both the dict and the JSON-text path, via both the classmethod and the instance form":
        the eight read-backs do not merely each give SOME message == m: they all give the SAME object, gnorm_obj incl sc m ---- *)
Theorem C04_rt_result_unique : forall sc cs1 cs2 incl (t1 t2 : bool) m,
  wfx_schema sc = true -> keys_ok cs1 sc = true -> keys_ok cs2 sc = true -> goodx sc m = true -> reach_ok incl sc m = true ->
  from_dict_cls sc (ocls m) (tr t1 (to_dict cs1 incl sc m)) = Ok (gnorm_obj incl sc m) /\
  from_dict_inst sc (new sc (ocls m)) (tr t1 (to_dict cs1 incl sc m)) = Ok (gnorm_obj incl sc m) /\
  from_dict_cls sc (ocls m) (tr t2 (to_dict cs2 incl sc m)) = Ok (gnorm_obj incl sc m) /\
  from_dict_inst sc (new sc (ocls m)) (tr t2 (to_dict cs2 incl sc m)) = Ok (gnorm_obj incl sc m).
Proof. exact rt_result_unique. Qed.
Print Assumptions C04_rt_result_unique.

Theorem C04_text_result_unique : forall sc cs1 cs2 incl m,
  wfx_schema sc = true -> keys_ok cs1 sc = true -> keys_ok cs2 sc = true -> goodx sc m = true -> reach_ok incl sc m = true ->
  json_rt_cls cs1 incl sc m = Ok (gnorm_obj incl sc m) /\
  json_rt_inst cs2 incl sc m (new sc (ocls m)) = Ok (gnorm_obj incl sc m) /\
  from_dict_cls sc (ocls m) (to_dict cs2 incl sc m) = Ok (gnorm_obj incl sc m).
Proof. exact text_result_unique. Qed.
Print Assumptions C04_text_result_unique.

(* ---- unknown fields (C08), the exact form of C04_unknown_fields_refuted: for EVERY m whose visible part strip_unk m is
        inside the scope, the rebuilt message is == m and bytes(m) = bytes(m') ++ the unknown bytes of m: the unknown bytes
        are lost and nothing else is.  (top level only: unknown bytes inside a nested message stay excluded) ---- *)
Theorem C04_rt_unknown_exact : forall sc cs incl (text : bool) m,
  wfx_schema sc = true -> keys_ok cs sc = true -> goodx sc (strip_unk m) = true -> incl_ok incl sc (strip_unk m) = true ->
  exists m', from_dict_cls sc (ocls m) (tr text (to_dict cs incl sc m)) = Ok m' /\
             from_dict_inst sc (new sc (ocls m)) (tr text (to_dict cs incl sc m)) = Ok m' /\
             obj_eq sc m' m = true /\
             enc_obj sc m = match enc_obj sc m' with Ok b => Ok (b ++ ounk m) | Err e => Err e end.
Proof. exact rt_unknown_exact. Qed.
Print Assumptions C04_rt_unknown_exact.

(* ---- composition with C01: the rebuilt message has the bytes of m and those bytes parse to the decoded form of m ---- *)
Theorem C04_rt_then_binary : forall sc cs incl (text : bool) m,
  C01Def.c01_schema_ok sc = true -> C01Def.c01_value_ok sc m = true ->
  keys_ok cs sc = true -> goodx sc m = true -> incl_ok incl sc m = true ->
  exists m' bs, from_dict_cls sc (ocls m) (tr text (to_dict cs incl sc m)) = Ok m' /\
                from_dict_inst sc (new sc (ocls m)) (tr text (to_dict cs incl sc m)) = Ok m' /\
                obj_eq sc m' m = true /\ enc_obj sc m' = Ok bs /\ enc_obj sc m = Ok bs /\
                (Zlength bs < 2 ^ 64 -> parse sc (ocls m) bs = Ok (C01Def.norm_obj sc m)).
Proof. exact rt_then_binary. Qed.
Print Assumptions C04_rt_then_binary.

(* ---- "default-valued oneof members": the SELECTION survives (Message.__eq__ does not compare _group_current): every member
        k of every group is selected in the rebuilt message iff it is selected in m ---- *)
Theorem C04_rt_keeps_selection : forall sc cs (text : bool) m,
  wf_schema sc = true -> keys_ok cs sc = true -> good sc m = true ->
  exists m', from_dict_cls sc (ocls m) (tr text (to_dict cs false sc m)) = Ok m' /\
             from_dict_inst sc (new sc (ocls m)) (tr text (to_dict cs false sc m)) = Ok m' /\
             forall k f, nth_error (cfields (get_class sc (ocls m))) k = Some f ->
               group_selects (ocur m') f k = group_selects (ocur m) f k.
Proof. exact rt_keeps_selection. Qed.
Print Assumptions C04_rt_keeps_selection.

(* ---- composition with C07: whatever from_dict builds from to_dict(m) satisfies the oneof invariant (no hypothesis) ---- *)
Theorem C04_rt_inv : forall sc cs incl (text : bool) m m',
  from_dict_cls sc (ocls m) (tr text (to_dict cs incl sc m)) = Ok m' -> C07InvP.Inv sc m'.
Proof. exact rt_inv. Qed.
Print Assumptions C04_rt_inv.

(* ---- exactness of the hypotheses: without keys_ok (two names with one key) a field is lost, under both casings ---- *)
Theorem C04_keys_ok_refuted :
  wf_schema k_sc = true /\ good k_sc k_m = true /\ keys_ok CAMEL k_sc = false /\ keys_ok SNAKE k_sc = false /\
  to_dict CAMEL false k_sc k_m = JObj [(JStr [x78], JInt 4)] /\
  match rt_class CAMEL false k_sc k_m, rt_class SNAKE false k_sc k_m with
  | Ok m1, Ok m2 => obj_eq k_sc m1 k_m = false /\ obj_eq k_sc m2 k_m = false /\
                    bytes_differ (enc_obj k_sc m1) (enc_obj k_sc k_m) = true
  | _, _ => False
  end.
Proof. exact keys_ok_refuted. Qed.
Print Assumptions C04_keys_ok_refuted.

(* ... and without it the result depends on the casing (C04_rt_result_unique fails): names a_b / aB *)
Theorem C04_keys_ok_casing_refuted :
  wf_schema k2_sc = true /\ good k2_sc k_m = true /\ keys_ok CAMEL k2_sc = false /\ keys_ok SNAKE k2_sc = false /\
  rt_class CAMEL false k2_sc k_m = Ok (Obj 11 [PPlaceholder; PInt 4] true [] []) /\
  rt_class SNAKE false k2_sc k_m = Ok (Obj 11 [PInt 4; PPlaceholder] true [] []).
Proof. exact keys_ok_casing_refuted. Qed.
Print Assumptions C04_keys_ok_casing_refuted.

(* without oneof_ok: two members of one group hold a value *)
Theorem C04_oneof_ok_refuted :
  schema_ok ex_sc = true /\ in_range ex_sc wit_two_members = true /\ dicts_ok ex_sc wit_two_members = true /\
  json_supported ex_sc wit_two_members = true /\ oneof_ok ex_sc wit_two_members = false /\
  match rt_class CAMEL false ex_sc wit_two_members with
  | Ok m' => obj_eq ex_sc m' wit_two_members = false /\ enc_obj ex_sc m' = enc_obj ex_sc wit_two_members
  | Err _ => False
  end.
Proof. exact oneof_ok_refuted. Qed.
Print Assumptions C04_oneof_ok_refuted.

(* without dicts_ok (a state of the MODEL only: a Python dict has no repeated key) *)
Theorem C04_dicts_ok_refuted :
  schema_ok ex_sc = true /\ in_range ex_sc wit_dup_key = true /\ oneof_ok ex_sc wit_dup_key = true /\
  json_supported ex_sc wit_dup_key = true /\ dicts_ok ex_sc wit_dup_key = false /\
  match rt_class CAMEL false ex_sc wit_dup_key with
  | Ok m' => obj_eq ex_sc m' wit_dup_key = false
  | Err _ => False
  end.
Proof. exact dicts_ok_refuted. Qed.
Print Assumptions C04_dicts_ok_refuted.

(* ---- "the instance form of from_dict": on a FRESH instance only.  Cls(s="a").from_dict(Cls(x=3).to_dict()) keeps s ---- *)
Theorem C04_inst_stale_refuted :
  schema_ok ex_sc = true /\ good ex_sc (with_x 3 true []) = true /\ ocls stale_inst = ocls (with_x 3 true []) /\
  in_range ex_sc stale_inst = true /\
  match from_dict_inst ex_sc stale_inst (to_dict CAMEL false ex_sc (with_x 3 true [])) with
  | Ok m' => obj_eq ex_sc m' (with_x 3 true []) = false /\
             enc_obj ex_sc m' = Ok [x08; x03; x12; x01; x61] /\ enc_obj ex_sc (with_x 3 true []) = Ok [x08; x03]
  | Err _ => False
  end.
Proof. exact inst_stale_refuted. Qed.
Print Assumptions C04_inst_stale_refuted.

(* ---- non-vacuity of the gap-closing theorems ---- *)
Example C04_gap_hypotheses_satisfiable :
  wfx_schema ex_sc = true /\ keys_ok CAMEL ex_sc = true /\ keys_ok SNAKE ex_sc = true /\ goodx ex_sc ex_m = true /\
  reach_ok false ex_sc ex_m = true /\
  wfx_schema exi_sc = true /\ goodx exi_sc exi_m = true /\ reach_ok true exi_sc exi_m = true /\ incl_ok true exi_sc exi_m = true.
Proof. exact gap_hyps_ex. Qed.

Example C04_gap_unknown_nonvacuous :
  goodx ex_sc (strip_unk wit_unknown) = true /\ incl_ok false ex_sc (strip_unk wit_unknown) = true /\
  ounk wit_unknown = [x98; x06; x01] /\ goodx ex_sc wit_unknown = false /\
  match rt_class CAMEL false ex_sc wit_unknown with
  | Ok m' => enc_obj ex_sc m' = Ok [x08; x03] /\ enc_obj ex_sc wit_unknown = Ok ([x08; x03] ++ [x98; x06; x01])
  | Err _ => False
  end.
Proof. exact gap_unknown_ex. Qed.

Example C04_gap_binary_nonvacuous :
  C01Def.c01_schema_ok ex_sc = true /\ C01Def.c01_value_ok ex_sc ex_m = true /\ goodx ex_sc ex_m = true /\
  match enc_obj ex_sc ex_m with
  | Ok bs => (70 <? Zlength bs) = true /\ parse ex_sc 11 bs = Ok (C01Def.norm_obj ex_sc ex_m)
  | Err _ => False
  end.
Proof. exact gap_binary_ex. Qed.

(* ex_m selects the member v of its group, which holds its default b"": the rebuilt message selects it too *)
Example C04_gap_selection_nonvacuous :
  group_selects (ocur ex_m) (nth 9 (cfields (get_class ex_sc 11)) (mkF [] 0 TInt32 None None None false (HPlain PyInt) 0)) 9 = Some true /\
  nth 9 (oraw ex_m) PNone = PBytes [] /\
  match rt_class SNAKE true ex_sc ex_m with
  | Ok m' => ocur m' = [Some 9%nat]
  | Err _ => False
  end.
Proof. exact gap_selection_ex. Qed.

(* ---- "for all message values": the objects the public API produces (Proofs/C04GapC.v).  For the final object of ANY history of
        operations from Cls() (constructor, setattr, nested assignment, reads, from_dict, copies, pickle, parse of clean bytes)
        under C01's decidable conditions on the operations, in_range and no_unknown (two conjuncts of good, at every depth) are
        DERIVED from C01_reachable_value_ok_parse.  oneof_ok, dicts_ok, no_lazy, nan_ok remain hypotheses (why: header of
        Proofs/C04GapC.v).  The conclusion is that of C04_rt_then_binary. ---- *)
From BP Require Import Proofs.C04GapC.
From BP Require Model.C01Reach Model.C01Parse Model.C07Ops.

Theorem C04_value_ok_gives : forall sc m, C01Def.c01_value_ok sc m = true -> in_range sc m = true /\ no_unknown m = true.
Proof. exact value_ok_gives. Qed.
Print Assumptions C04_value_ok_gives.

Theorem C04_rt_reachable : forall sc cs incl (text : bool) c ops m,
  C01Def.c01_schema_ok sc = true ->
  C01Reach.hist_ok C01Parse.op_value_ok_p sc (new sc c) ops = true -> C07Ops.run7 sc (new sc c) ops = Ok m ->
  keys_ok cs sc = true ->
  oneof_ok sc m = true -> dicts_ok sc m = true -> no_lazy sc m = true -> nan_ok m = true -> incl_ok incl sc m = true ->
  exists m' bs, from_dict_cls sc (ocls m) (tr text (to_dict cs incl sc m)) = Ok m' /\
                from_dict_inst sc (new sc (ocls m)) (tr text (to_dict cs incl sc m)) = Ok m' /\
                obj_eq sc m' m = true /\ enc_obj sc m' = Ok bs /\ enc_obj sc m = Ok bs /\
                (Zlength bs < 2 ^ 64 -> parse sc (ocls m) bs = Ok (C01Def.norm_obj sc m)).
Proof. exact rt_reachable. Qed.
Print Assumptions C04_rt_reachable.

Theorem C04_dumps_reachable : forall sc cs c ops m,
  C01Def.c01_schema_ok sc = true ->
  C01Reach.hist_ok C01Parse.op_value_ok_p sc (new sc c) ops = true -> C07Ops.run7 sc (new sc c) ops = Ok m ->
  oneof_ok sc m = true -> dumpsable (to_dict cs false sc m) = true.
Proof. exact dumps_reachable. Qed.
Print Assumptions C04_dumps_reachable.

Example C04_reachable_nonvacuous :
  C01Def.c01_schema_ok ex_sc = true /\ keys_ok CAMEL ex_sc = true /\ keys_ok SNAKE ex_sc = true /\
  C01Reach.hist_ok C01Parse.op_value_ok_p ex_sc (new ex_sc 11) reach_hist = true /\
  match C07Ops.run7 ex_sc (new ex_sc 11) reach_hist with
  | Ok m => oneof_ok ex_sc m = true /\ dicts_ok ex_sc m = true /\ no_lazy ex_sc m = true /\
            nan_ok m = true /\ incl_ok false ex_sc m = true /\ ocur m = [Some 9%nat] /\
            match enc_obj ex_sc m with Ok bs => (20 <? Zlength bs) = true | Err _ => False end
  | Err _ => False
  end.
Proof. exact reach_ex. Qed.
