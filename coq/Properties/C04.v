(* C04 - dict / JSON round trip: from_dict(to_dict(m)) and from_json(to_json(m)) give m.
   Model: coq/Model/Json.v (to_dict, _from_dict_init, from_dict both forms, the json text path),
   side conditions and the normal form: coq/Proofs/C04Def.v.  Work in progress: see the comments. *)
From BP Require Import Base.Prelude Model.Types Model.Object Model.Eq Model.TimeCore Model.Encode Model.WellFormed Model.Json.
From BP Require Import Proofs.C04Def Proofs.C04ScalarP Proofs.C04CalP Proofs.C04CalSweepP Proofs.C04ObjP.

(* ---- oracles of the model, proved rather than assumed ---- *)
Theorem C04_base64_inverse : forall bs, b64decode (b64encode bs) = Ok bs.
Proof. exact b64_roundtrip. Qed.
Print Assumptions C04_base64_inverse.

Theorem C04_calendar_inverse : forall us,
  (dt_min_us <=? us) && (us <=? dt_max_us) = true -> iso_parse (ts_text us) = Ok us.
Proof. intros us H. exact (iso_roundtrip us cal_fact_holds H). Qed.
Print Assumptions C04_calendar_inverse.

(* ---- (A) what from_dict makes of to_dict(m): exactly the normal form, on the dict and through the text ---- *)
Theorem C04_from_to_dict_norm : forall sc cs (text : bool) m,
  wf_schema sc = true -> keys_ok cs sc = true -> good sc m = true ->
  from_dict_cls sc (ocls m) (tr text (to_dict cs false sc m)) = Ok (norm_obj sc m).
Proof. intros sc cs text m W K G. exact (from_to_dict_norm sc cs text W K m G). Qed.
Print Assumptions C04_from_to_dict_norm.
