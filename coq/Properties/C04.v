(* C04 - dict / JSON round trip: from_dict(to_dict(m)) and from_json(to_json(m)) give m.

   Model   coq/Model/Json.v: Message.to_dict, _from_dict_init, from_dict (class and instance form), the json text
           path (text_rt = json.loads o json.dumps on the AST), _dump_float/_parse_float, _dump_enum, _dump_json_value/
           _parse_json_value/_parse_json_key, base64, isoformat/isoparse, over the shared object model (Object, Eq, Encode).
   Side conditions (coq/Proofs/C04Def.v, all decidable, all evaluated by harness/props/c04.py on what it generates):
     wf_schema sc                 the class table is what the plugin / the field API builds
     keys_ok cs sc                the keys of every class are pairwise distinct and map back to their field (C19)
     good sc m = in_range sc m    C01's in-range values
              && oneof_ok sc m    a oneof member holds a value iff its group selects it (at every depth)
              && dicts_ok sc m    the keys of a dict are pairwise distinct (an invariant of Python dicts)
              && json_supported sc m, whose three conjuncts are the classes the repaired code still cannot round-trip,
                                  each with a _refuted witness below and an entry in known_findings/C04.json:
                   no_unknown     unknown fields have no JSON form              (cls unknown-fields)
                   no_lazy        K12: non-empty message below a lazily created intermediate (cls lazy-intermediate)
                   nan_ok         NaN other than float("nan") / NaN inside repeated or map  (cls nan-payload, nan-in-container)
   All theorems are about to_dict(include_default_values=False) (the default); obj_eq is Message.__eq__, enc_obj is bytes(). *)
From BP Require Import Base.Prelude Model.Types Model.Object Model.Eq Model.TimeCore Model.Encode Model.WellFormed Model.Json.
From BP Require Import Proofs.C04Def Proofs.C04ScalarP Proofs.C04CalP Proofs.C04CalSweepP Proofs.C04ObjP Proofs.C04RtP4 Proofs.C04InstP Proofs.C04DumpsP Proofs.C04MainP Proofs.C04WitP.

(* ---- the oracles inside the model, proved rather than assumed ---- *)
Theorem C04_base64_inverse : forall bs, b64decode (b64encode bs) = Ok bs.
Proof. exact b64_roundtrip. Qed.
Print Assumptions C04_base64_inverse.

(* isoparse reads back every Timestamp string to_dict writes (years 1..9999; the calendar by a sweep of one 400-year era) *)
Theorem C04_calendar_inverse : forall us,
  (dt_min_us <=? us) && (us <=? dt_max_us) = true -> iso_parse (ts_text us) = Ok us.
Proof. intros us H. exact (iso_roundtrip us cal_fact_holds H). Qed.
Print Assumptions C04_calendar_inverse.

(* ---- (A) from_dict of to_dict(m), directly (text = false) or through the JSON text (text = true), is exactly norm_obj m ---- *)
Theorem C04_from_to_dict_norm : forall sc cs (text : bool) m,
  wf_schema sc = true -> keys_ok cs sc = true -> good sc m = true ->
  from_dict_cls sc (ocls m) (tr text (to_dict cs false sc m)) = Ok (norm_obj sc m).
Proof. intros sc cs text m W K G. exact (from_to_dict_norm sc cs text W K m G). Qed.
Print Assumptions C04_from_to_dict_norm.

(* ---- (B) norm_obj m is == m and encodes to the same bytes ---- *)
Theorem C04_norm_faithful : forall sc m, wf_schema sc = true -> good sc m = true ->
  obj_eq sc (norm_obj sc m) m = true /\ enc_obj sc (norm_obj sc m) = enc_obj sc m.
Proof. intros sc m W G. exact (norm_faithful sc W m G). Qed.
Print Assumptions C04_norm_faithful.

(* ---- C04_dumps_total: to_dict(m) is json.dumps-serialisable (str / int / float / bool / None / list / dict with
        str-able keys only; bytes, datetime, timedelta, Message objects never appear). No json_supported, no keys_ok. ---- *)
Theorem C04_dumps_total : forall sc cs m,
  wf_schema sc = true -> in_range sc m = true -> oneof_ok sc m = true -> dumpsable (to_dict cs false sc m) = true.
Proof. exact dumps_total_main. Qed.
Print Assumptions C04_dumps_total.

(* ---- C04_dict_rt: the dict path, for casing cs in {CAMEL, SNAKE} (any cs with keys_ok), BOTH forms:
        Cls.from_dict(d) and Cls().from_dict(d) build the same message m', m' == m, bytes(m') = bytes(m) ---- *)
Theorem C04_dict_rt : forall sc cs m,
  wf_schema sc = true -> keys_ok cs sc = true -> good sc m = true ->
  exists m', from_dict_cls sc (ocls m) (to_dict cs false sc m) = Ok m' /\
             from_dict_inst sc (new sc (ocls m)) (to_dict cs false sc m) = Ok m' /\
             obj_eq sc m' m = true /\ enc_obj sc m' = enc_obj sc m.
Proof. exact dict_rt. Qed.
Print Assumptions C04_dict_rt.

(* ---- C04_text_rt: the same through json.dumps / json.loads (json.dumps succeeds; object keys arrive as strings):
        Cls.from_dict(json.loads(json.dumps(d))) and Cls().from_json(m.to_json()) ---- *)
Theorem C04_text_rt : forall sc cs m,
  wf_schema sc = true -> keys_ok cs sc = true -> good sc m = true ->
  exists m', json_rt_cls cs false sc m = Ok m' /\
             json_rt_inst cs false sc m (new sc (ocls m)) = Ok m' /\
             obj_eq sc m' m = true /\ enc_obj sc m' = enc_obj sc m.
Proof. exact text_rt_rt. Qed.
Print Assumptions C04_text_rt.

(* ---- the classes of values outside json_supported really fail (each replayed on the implementation) ---- *)
Theorem C04_unknown_fields_refuted :
  domain_ok ex_sc wit_unknown = true /\ no_lazy ex_sc wit_unknown = true /\ nan_ok wit_unknown = true /\
  no_unknown wit_unknown = false /\
  match rt_class CAMEL false ex_sc wit_unknown with
  | Ok m' => obj_eq ex_sc m' wit_unknown = true /\ bytes_differ (enc_obj ex_sc m') (enc_obj ex_sc wit_unknown) = true
  | Err _ => False
  end.
Proof. exact unknown_refuted. Qed.
Print Assumptions C04_unknown_fields_refuted.

Theorem C04_lazy_intermediate_refuted :
  domain_ok ex_sc wit_lazy = true /\ no_unknown wit_lazy = true /\ nan_ok wit_lazy = true /\
  no_lazy ex_sc wit_lazy = false /\
  to_dict CAMEL false ex_sc wit_lazy = JObj [] /\
  match rt_class CAMEL false ex_sc wit_lazy with
  | Ok m' => obj_eq ex_sc m' wit_lazy = false /\ bytes_differ (enc_obj ex_sc m') (enc_obj ex_sc wit_lazy) = true
  | Err _ => False
  end.
Proof. exact lazy_refuted. Qed.
Print Assumptions C04_lazy_intermediate_refuted.

Theorem C04_nan_in_container_refuted :
  domain_ok ex_sc wit_nan_list = true /\ no_unknown wit_nan_list = true /\ no_lazy ex_sc wit_nan_list = true /\
  nan_ok wit_nan_list = false /\
  match rt_class CAMEL true ex_sc wit_nan_list with
  | Ok m' => obj_eq ex_sc m' wit_nan_list = false /\ enc_obj ex_sc m' = enc_obj ex_sc wit_nan_list
  | Err _ => False
  end.
Proof. exact nan_in_container_refuted. Qed.
Print Assumptions C04_nan_in_container_refuted.

Theorem C04_nan_payload_refuted :
  domain_ok ex_sc wit_nan_payload = true /\ no_unknown wit_nan_payload = true /\ no_lazy ex_sc wit_nan_payload = true /\
  nan_ok wit_nan_payload = false /\
  match rt_class CAMEL false ex_sc wit_nan_payload with
  | Ok m' => obj_eq ex_sc m' wit_nan_payload = true /\ bytes_differ (enc_obj ex_sc m') (enc_obj ex_sc wit_nan_payload) = true
  | Err _ => False
  end.
Proof. exact nan_payload_refuted. Qed.
Print Assumptions C04_nan_payload_refuted.

(* ---- non-vacuity: one schema and one value meet every hypothesis at once (nested message, set optional 0, optional
        Timestamp at the epoch, map<int32,bytes> with an empty value, repeated double, the canonical NaN, a selected oneof
        member holding its default), and the round trip through the text really rebuilds it ---- *)
Example C04_hypotheses_satisfiable :
  wf_schema ex_sc = true /\ keys_ok CAMEL ex_sc = true /\ keys_ok SNAKE ex_sc = true /\ good ex_sc ex_m = true.
Proof. vm_compute. repeat split; reflexivity. Qed.

Example C04_nonvacuous :
  match json_rt_inst SNAKE false ex_sc ex_m (new ex_sc 11) with
  | Ok m' => obj_eq ex_sc m' ex_m = true /\ enc_obj ex_sc m' = enc_obj ex_sc ex_m /\
             match enc_obj ex_sc ex_m with Ok b => (70 <? Zlength b) = true | Err _ => False end
  | Err _ => False
  end.
Proof. vm_compute. repeat split; reflexivity. Qed.
