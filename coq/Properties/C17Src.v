(* C17 - source-translation tie of the record reader (second, tighter tie next to the sampled correspondence).
   gen/C17Src.v holds Gallina definitions obtained MECHANICALLY (harness/gen_c17_src.py, Python `ast`, extending the
   translator of C16) from the CURRENT source text of `_read_exactly` and `_load_field` (wire types 0, 1, 2, 5, the
   proto2 group loop with nested groups by recursion, the end-group check, the errors) and of the dataclass
   `ParsedField` (-> the Record src_ParsedField).  `load_varint` is not translated again: src17_load_varint is
   src_load_varint of gen/C16Src.v (its equation comes from Proofs/C16Src.v through gen/C17SrcBridge.v) when the C16
   translator accepts the current source, otherwise the model's load_varint (src17_varint_from_source says which).
   The theorems say that the translated functions ARE the hand-written model functions of Model/Decode.v, for every
   input and every pair of fuels above explicit bounds (out-of-fuel unreachable), so every theorem of Properties/C17.v
   about load_field is a theorem about the translated source; the headline reader statements are restated over it.
     lift_field r  =  err_class (r with the record p replaced by of_parsed p)
     of_parsed p   =  ParsedField(number = pnum p, wire_type = pwt p,
                                  value = pint p if the wire type is 0, None if it is 3, pbytes p otherwise, raw = praw p)
   err_class renames the model's ETooLong to EValue and is the identity otherwise (both are Python's ValueError and
   differ in the message text only, which the translator drops); EOFError (EEof) stays apart.
   THIS FILE IS BUILT ONLY BY THE "source tie" STAGE of harness/props/c17.py.  A behaviour-preserving rewrite of the
   Python functions can make the translator reject or these proofs fail although C17 still holds; the stage then
   records "source-translation tie did not hold" in the evidence and the sampled correspondence and the oracles decide.
   Properties/C17.v does not depend on this file.
   Only statements here; every proof is one [exact] of a lemma of Proofs/C17Src.v. *)
From BP Require Import Base.Prelude Model.Types Model.Varint Model.Decode Spec.Varint Model.C17Wire.
From BP Require Import Model.C16SrcLib Model.C17SrcLib gen.C17Src gen.C17SrcBridge.
From BP Require Import Proofs.VarintP Proofs.C17FieldP Proofs.C17Src.
From Coq Require Import Lia.

(* the generator translated the reader (when it rejects it leaves no definition and this flag false) *)
Theorem C17_src_reader_translated : src17_reader_translated = true.
Proof. exact src17_reader_present. Qed.
Print Assumptions C17_src_reader_translated.

(* load_varint as the translated reader calls it: the model's, up to the error class (from Proofs/C16Src.v when
   src17_varint_from_source = true, by definition otherwise) *)
Theorem C17_src_load_varint_is_model : forall s fuel,
  (10 < fuel)%nat -> src17_load_varint fuel s = err_class (load_varint s).
Proof. exact src17_load_varint_spec. Qed.
Print Assumptions C17_src_load_varint_is_model.

(* _read_exactly: equal outright, for every stream and every size (negative sizes included) *)
Theorem C17_src_read_exactly_is_model : forall s n, src__read_exactly s n = read_exactly s n.
Proof. exact src_read_exactly_is_model. Qed.
Print Assumptions C17_src_read_exactly_is_model.

(* _load_field: source fuel above |stream| + 10 (the 10 is what the translated load_varint needs), model fuel above
   |stream|; the two fuels are otherwise unrelated *)
Theorem C17_src_load_field_is_model : forall fuel m s nw raw,
  (length s + 10 < fuel)%nat -> (length s < m)%nat ->
  src__load_field fuel s nw raw = lift_field (load_field m s nw raw).
Proof. exact src_load_field_is_model. Qed.
Print Assumptions C17_src_load_field_is_model.

Theorem C17_src_load_field_fuel_ok : forall fuel s nw raw,
  (length s + 10 < fuel)%nat -> src__load_field fuel s nw raw <> Err EFuel.
Proof. exact src_load_field_fuel_ok. Qed.
Print Assumptions C17_src_load_field_fuel_ok.

(* the bound is not decoration: below it the translated function does run out of fuel where the model answers *)
Theorem C17_src_load_field_low_fuel_refuted : exists fuel s nw raw p,
  fuel <> O /\ src__load_field fuel s nw raw = Err EFuel /\ load_field (S (length s)) s nw raw = Ok p.
Proof. exact src_load_field_low_fuel. Qed.
Print Assumptions C17_src_load_field_low_fuel_refuted.

(* lift_field is invisible on successes; an error of the source is the model's error, or EValue for its ETooLong *)
Theorem C17_src_lift_field_ok : forall r q s',
  lift_field r = Ok (q, s') <-> exists p, r = Ok (p, s') /\ q = of_parsed p.
Proof. exact lift_field_ok. Qed.
Print Assumptions C17_src_lift_field_ok.

Theorem C17_src_lift_field_err : forall r e,
  lift_field r = Err e -> r = Err e \/ (e = EValue /\ r = Err ETooLong).
Proof. exact lift_field_err. Qed.
Print Assumptions C17_src_lift_field_err.

(* of_parsed keeps every component the reader fills *)
Theorem C17_src_of_parsed_fields : forall p,
  ParsedField_number (of_parsed p) = pnum p /\ ParsedField_wire_type (of_parsed p) = pwt p /\
  ParsedField_raw (of_parsed p) = praw p /\
  (pwt p = 0 -> ParsedField_value (of_parsed p) = VInt (pint p)) /\
  (pwt p = 3 -> ParsedField_value (of_parsed p) = VNone) /\
  (pwt p <> 0 -> pwt p <> 3 -> ParsedField_value (of_parsed p) = VBytes (pbytes p)).
Proof. exact of_parsed_fields. Qed.
Print Assumptions C17_src_of_parsed_fields.

(* ---- the reader statements of Properties/C17.v over the translated source ---- *)
(* C17_reader_sound: whatever the translated _load_field returns is a complete payload of the specification *)
Theorem C17_src_reader_sound : forall fuel s nw raw q s',
  (length s + 10 < fuel)%nat ->
  src__load_field fuel s nw raw = Ok (q, s') -> exists p, q = of_parsed p /\ field_ok nw raw s p s'.
Proof. exact src_reader_sound. Qed.
Print Assumptions C17_src_reader_sound.

(* C17_reader_complete: every complete payload is read, whatever follows it *)
Theorem C17_src_reader_complete : forall nw pl fuel rest raw,
  wpayload nw pl -> (length (pl ++ rest) + 10 < fuel)%nat ->
  exists p, src__load_field fuel (pl ++ rest) nw raw = Ok (of_parsed p, rest) /\ field_ok nw raw (pl ++ rest) p rest.
Proof. exact src_reader_complete. Qed.
Print Assumptions C17_src_reader_complete.

(* C17_payload_cut: a payload cut anywhere is an exception of the translated reader (a Python one, not out-of-fuel) *)
Theorem C17_src_payload_cut : forall nw pl x y fuel raw,
  wpayload nw pl -> pl = x ++ y -> y <> [] -> (length x + 10 < fuel)%nat ->
  exists e, src__load_field fuel x nw raw = Err e /\ e <> EFuel.
Proof. exact src_payload_cut. Qed.
Print Assumptions C17_src_payload_cut.

(* C17_bad_tag at the reader: field number 0, wire types 4 (no group open), 6, 7 raise ValueError, with any fuel but 0 *)
Theorem C17_src_bad_tag : forall fuel s nw raw,
  fuel <> O -> tag_num nw = 0 \/ tag_wt nw = 4 \/ tag_wt nw = 6 \/ tag_wt nw = 7 ->
  src__load_field fuel s nw raw = Err EValue.
Proof. exact src_bad_tag. Qed.
Print Assumptions C17_src_bad_tag.

(* C17_bad_end_group at the reader: inside a group, an end tag carrying another field number raises ValueError *)
Theorem C17_src_bad_end_group : forall fuel s nw raw enw etag rest,
  tag_num nw <> 0 -> tag_wt nw = 3 -> s = etag ++ rest -> VarintRep enw etag -> tag_wt enw = 4 ->
  tag_num enw <> tag_num nw -> (length s + 10 < fuel)%nat ->
  src__load_field fuel s nw raw = Err EValue.
Proof. exact src_group_end_mismatch. Qed.
Print Assumptions C17_src_bad_end_group.

(* the only exception classes of the translated reader are EOFError and ValueError (and it always terminates with one
   of the three outcomes) *)
Theorem C17_src_reader_outcomes : forall fuel s nw raw,
  (length s + 10 < fuel)%nat ->
  (exists x, src__load_field fuel s nw raw = Ok x) \/ src__load_field fuel s nw raw = Err EEof \/
  src__load_field fuel s nw raw = Err EValue.
Proof. exact src_load_field_outcomes. Qed.
Print Assumptions C17_src_reader_outcomes.

(* ================= non-vacuity ================= *)
(* group 1 closed by the end tag of group 2 (14 = 2<<3|4): the hypotheses of C17_src_bad_end_group, and the outcome *)
Example C17_src_bad_end_group_nonvacuous :
  tag_num 11 <> 0 /\ tag_wt 11 = 3 /\ [x14; xff] = [x14] ++ [xff] /\ VarintRep 20 [x14] /\ tag_wt 20 = 4 /\
  tag_num 20 <> tag_num 11 /\ (length [x14; xff] + 10 < 20)%nat /\ src__load_field 20 [x14; xff] 11 [] = Err EValue /\
  (tag_wt 14 = 6 /\ src__load_field 1 [] 14 [] = Err EValue).
Proof.
  repeat split; try (cbn; lia); try (vm_compute; congruence); vm_compute; reflexivity.
Qed.

(* group 1 { field 1 varint 150; group 2 { field 3 fixed32 } } followed by one more byte: the translated reader skips
   the nested groups, returns value None, the raw bytes, and leaves the trailing byte; the fuel meets the bound *)
Example C17_src_group_example :
  let s := [x08; x96; x01; x13; x1d; x0a; x0b; x0c; x0d; x14; x0c; xff] in
  (length s + 10 < 30)%nat /\
  src__load_field 30 s 11 [x0b] =
    Ok (mk_ParsedField 1 3 VNone [x0b; x08; x96; x01; x13; x1d; x0a; x0b; x0c; x0d; x14; x0c], [xff]) /\
  lift_field (load_field 13 s 11 [x0b]) = src__load_field 30 s 11 [x0b].
Proof. cbv zeta. split; [cbn; lia|]. vm_compute. split; reflexivity. Qed.

(* the four scalar wire types, an end-group tag of another number, wire type 6, field number 0, a negative size *)
Example C17_src_outcomes_example :
  src__load_field 20 [x96; x01; xff] 8 [x08] = Ok (mk_ParsedField 1 0 (VInt 150) [x08; x96; x01], [xff]) /\
  src__load_field 20 [x02; x61; x62; xff] 18 [x12] = Ok (mk_ParsedField 2 2 (VBytes [x61; x62]) [x12; x02; x61; x62], [xff]) /\
  src__load_field 20 [x01; x02; x03; x04] 29 [] = Ok (mk_ParsedField 3 5 (VBytes [x01; x02; x03; x04]) [x01; x02; x03; x04], []) /\
  src__load_field 20 [x01; x02; x03] 29 [] = Err EEof /\
  src__load_field 20 [x14] 11 [] = Err EValue /\
  src__load_field 20 [] 14 [] = Err EValue /\
  src__load_field 20 [x00] 0 [] = Err EValue /\
  src__read_exactly [x01; x02] (-1) = Err EEof.
Proof. vm_compute. repeat split. Qed.

(* the hypotheses of the complete / cut statements are met: payload 96 01 of a varint record of field 1 *)
Example C17_src_complete_nonvacuous :
  wpayload 8 [x96; x01] /\ (length ([x96; x01] ++ [xff]) + 10 < 20)%nat /\
  [x96; x01] = [x96] ++ [x01] /\ [x01] <> @nil byte /\ (length [x96] + 10 < 20)%nat /\
  src__load_field 20 [x96] 8 [] = Err EEof.
Proof.
  split; [apply (PVarint 8 150); try (cbn; lia); split; [cbn; lia | split; [reflexivity | cbn; lia]]|].
  split; [cbn; lia|]. split; [reflexivity|]. split; [discriminate|]. split; [cbn; lia|]. vm_compute. reflexivity.
Qed.
