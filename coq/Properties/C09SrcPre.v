(* C09 - source-translation tie of the SIZE side and the WRITE side helpers, part "preprocess": the scalar arms of
   _preprocess_single / _len_preprocessed_single (varint kinds incl. the zig-zag arms, bool, enum-as-int; fixed kinds through
   struct.pack = the model's pack_value; string through the model's UTF-8 bytes; bytes).  gen/C09Src.v (Section SrcPre) holds
   the Gallina obtained MECHANICALLY (harness/gen_c09_src.py, Python `ast`) from the CURRENT source text of the two
   functions; the theorems say that each IS the hand-written model function (Model/Encode.v preprocess_with, Model/Len.v
   len_preprocessed_with) for every proto type, wraps, value, every interpretation [msg] of bytes(value) in the TYPE_MESSAGE
   arm and every fuel above an explicit bound, and restate the agreement of the two walks over the translated source.
   NOT TRANSLATED: the `proto_type == TYPE_MESSAGE` arm is DELEGATED to the hand-written model's arm
   (C09SrcLib.delegated_*_message; its source text is pinned in the translator, any edit of it is a rejection).
   See Properties/C09Src.v for the rest of the description.  THIS FILE IS BUILT ONLY BY THE "source tie" STAGE of
   harness/props/c09.py (non-alarming: when it does not build, the evidence records "source-translation tie did not hold").
   Only statements here; every proof is one [exact] of a lemma of Proofs/C09SrcPre.v. *)
From BP Require Import Base.Prelude Model.Types Model.Varint Model.Scalar Model.Object Model.Encode Model.Len gen.Tables.
From BP Require Import Model.C16SrcLib Model.C09SrcLib gen.C16Src gen.C09Src.
From BP Require Import Proofs.C16Src Proofs.C09SrcPre.

Theorem C09_src_pre_tables_are_model : src_FIXED_TYPES = FIXED_TYPES.
Proof. exact src_pre_tables_are_model. Qed.
Print Assumptions C09_src_pre_tables_are_model.

Theorem C09_src_preprocess_single_is_model : forall msg fuel t w v,
  (src_fuel_value v <= fuel)%nat -> src__preprocess_single msg fuel t w v = preprocess_with msg t w v.
Proof. exact src_preprocess_is_model. Qed.
Print Assumptions C09_src_preprocess_single_is_model.

Theorem C09_src_len_preprocessed_single_is_model : forall msg t w v,
  src__len_preprocessed_single msg t w v = len_preprocessed_with msg t w v.
Proof. exact src_len_preprocessed_is_model. Qed.
Print Assumptions C09_src_len_preprocessed_single_is_model.

(* the two walks agree on the payload: same length, or the same class of error *)
Theorem C09_src_two_walks_agree_preprocess : forall msg fuel t w v,
  (src_fuel_value v <= fuel)%nat ->
  match src__preprocess_single msg fuel t w v, src__len_preprocessed_single msg t w v with
  | Ok b, Ok n => n = Zlength b
  | Err a, Err b => a = b
  | _, _ => False
  end.
Proof. exact src_preprocess_agree. Qed.
Print Assumptions C09_src_two_walks_agree_preprocess.

(* 66 iterations are enough when the value, if it is an int / bool at all, is in the signed 64-bit range *)
Theorem C09_src_fuel_value_in_range : forall v, int64_or_not_int v -> (src_fuel_value v <= 66)%nat.
Proof. exact src_fuel_value_in_range. Qed.
Print Assumptions C09_src_fuel_value_in_range.

(* with the stated fuel the translated loop does not run out of fuel (given that bytes(value) of the delegated arm does not) *)
Theorem C09_src_preprocess_fuel_unreachable : forall msg fuel t w v,
  msg_no_fuel msg -> (src_fuel_value v <= fuel)%nat -> src__preprocess_single msg fuel t w v <> Err EFuel.
Proof. exact src_preprocess_fuel_ok. Qed.
Print Assumptions C09_src_preprocess_fuel_unreachable.

(* ---- non-vacuity ---- *)
Definition ex_msg_pre : option ptype -> pv -> result (list byte) := msg_bytes (fun _ => Ok [x08; x01]).
Example C09_src_pre_ex_fuel : (src_fuel_value (PInt 300) <= 12)%nat /\ (src_fuel_value (PBool true) <= 66)%nat /\
  int64_or_not_int (PInt (-3)) /\ int64_or_not_int (PStr [x61]) /\ msg_no_fuel no_msg.
Proof.
  split; [vm_compute; lia|]. split; [vm_compute; lia|].
  split; [split; [discriminate | reflexivity]|]. split; [exact I|]. intros w v. discriminate.
Qed.
Example C09_src_pre_ex_values :
  src__preprocess_single ex_msg_pre 66 TSInt32 None (PInt (-3)) = Ok [x05] /\
  src__len_preprocessed_single ex_msg_pre TSInt32 None (PInt (-3)) = Ok 1 /\
  src__preprocess_single ex_msg_pre 66 TInt64 None (PInt (-1)) = Ok [xff; xff; xff; xff; xff; xff; xff; xff; xff; x01] /\
  src__len_preprocessed_single ex_msg_pre TInt64 None (PInt (-1)) = Ok 10 /\
  src__preprocess_single ex_msg_pre 66 TFixed32 None (PInt 258) = Ok [x02; x01; x00; x00] /\
  src__len_preprocessed_single ex_msg_pre TFixed32 None (PInt 258) = Ok 4 /\
  src__preprocess_single ex_msg_pre 66 TString None (PStr [x61; x62]) = Ok [x61; x62] /\
  src__len_preprocessed_single ex_msg_pre TString None (PStr [x61; x62]) = Ok 2 /\
  src__preprocess_single ex_msg_pre 66 TBytes None (PBytes [x00]) = Ok [x00] /\
  src__len_preprocessed_single ex_msg_pre TBytes None (PBytes [x00]) = Ok 1 /\
  src__preprocess_single ex_msg_pre 66 TMessage (Some TInt32) PNone = Ok [] /\
  src__len_preprocessed_single ex_msg_pre TMessage (Some TInt32) PNone = Ok 0 /\
  src__preprocess_single ex_msg_pre 66 TMessage None (PMsg (Obj 0 [] false [] [])) = Ok [x08; x01] /\
  src__len_preprocessed_single ex_msg_pre TMessage None (PMsg (Obj 0 [] false [] [])) = Ok 2.
Proof. vm_compute. repeat split; reflexivity. Qed.
Example C09_src_pre_ex_errors :
  src__preprocess_single ex_msg_pre 66 TInt32 None (PStr [x61]) = Err EType /\
  src__len_preprocessed_single ex_msg_pre TInt32 None (PStr [x61]) = Err EType /\
  src__preprocess_single ex_msg_pre 66 TFloat None (PFloat 5183643171103440896) = Err EOverflow /\
  src__len_preprocessed_single ex_msg_pre TFloat None (PFloat 5183643171103440896) = Err EOverflow /\
  src__preprocess_single ex_msg_pre 66 TString None (PInt 1) = Err EAttribute /\
  src__len_preprocessed_single ex_msg_pre TString None (PInt 1) = Err EAttribute.
Proof. vm_compute. repeat split; reflexivity. Qed.
Example C09_src_pre_ex_fuel_needed : src__preprocess_single ex_msg_pre 1 TInt32 None (PInt 300) = Err EFuel.
Proof. vm_compute. reflexivity. Qed.
