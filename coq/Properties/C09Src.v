(* C09 - source-translation tie of the SIZE side and the WRITE side helpers, part "single" (_serialize_single / _len_single;
   part "preprocess" is Properties/C09SrcPre.v) (second, tighter tie next to the sampled
   correspondence).  gen/C09Src.v holds Gallina definitions src__* obtained MECHANICALLY (harness/gen_c09_src.py, an
   extension of harness/gen_c16_src.py; Python `ast`) from the CURRENT source text of
       _preprocess_single   _len_preprocessed_single   _serialize_single   _len_single
   (the varint primitives they call are the translations of gen/C16Src.v).  The theorems below say that each translated
   function IS the hand-written model function (Model/Encode.v preprocess_with / serialize_with, Model/Len.v
   len_preprocessed_with / len_single_with) for every proto type, value, field number, serialize_empty flag, wraps, every
   interpretation [msg] of bytes(value) in the TYPE_MESSAGE arm, and every fuel above an explicit bound (the out-of-fuel
   arm is unreachable); C09_two_walks_agree is then restated at the helper level directly over the translated source.
   WHAT IS NOT TRANSLATED: the `proto_type == TYPE_MESSAGE` arm of the two *_preprocess* functions (datetime / timedelta /
   wrapper / nested message) is DELEGATED to the hand-written model's arm (C09SrcLib.delegated_*_message; its source text
   is pinned in the translator, any edit of it is a rejection); struct.pack(_pack_fmt(t), v) is the model's library
   function pack_value; a dynamic (Any) value meeting an int / str / bytes operation is classified by its Python type
   alone (Model/C09SrcLib.v lists where that is not exact: floats in int fields, str / list in bytes fields).
   THIS FILE IS BUILT ONLY BY THE "source tie" STAGE of harness/props/c09.py.  A behaviour-preserving rewrite of the
   Python functions can make the translator reject or these proofs fail although C09 still holds; the stage then
   records "source-translation tie did not hold" in the evidence and the sampled correspondence and the oracles
   decide.  Properties/C09.v does not depend on this file.
   Only statements here; every proof is one [exact] of a lemma of Proofs/C09Src.v. *)
From BP Require Import Base.Prelude Model.Types Model.Varint Model.Scalar Model.Object Model.Eq Model.Encode Model.Len gen.Tables.
From BP Require Import Model.C16SrcLib Model.C09SrcLib gen.C16Src gen.C09Src.
From BP Require Import Proofs.C16Src Proofs.C09SrcPre Proofs.C09Src.

(* ---- the module-level tables read from the source text are the reflected ones ---- *)
Theorem C09_src_tables_are_model :
  src_FIXED_TYPES = FIXED_TYPES /\ src_WIRE_VARINT_TYPES = WIRE_VARINT_TYPES /\
  src_WIRE_FIXED_32_TYPES = WIRE_FIXED_32_TYPES /\ src_WIRE_FIXED_64_TYPES = WIRE_FIXED_64_TYPES /\
  src_WIRE_LEN_DELIM_TYPES = WIRE_LEN_DELIM_TYPES.
Proof. exact src_tables_are_model. Qed.
Print Assumptions C09_src_tables_are_model.

(* ---- each translated function is the model function (the two *_preprocess* functions: Properties/C09SrcPre.v) ---- *)
Theorem C09_src_serialize_single_is_model : forall msg fuel num t v se w,
  (src_fuel_single msg num t w v <= fuel)%nat ->
  src__serialize_single msg fuel num t v se w = serialize_with msg num t v se w.
Proof. exact src_serialize_is_model. Qed.
Print Assumptions C09_src_serialize_single_is_model.

Theorem C09_src_len_single_is_model : forall msg num t v se w,
  src__len_single msg num t v se w = len_single_with msg num t v se w.
Proof. exact src_len_single_is_model. Qed.
Print Assumptions C09_src_len_single_is_model.

(* ---- C09_two_walks_agree at the helper level, over the translated source:
        for every proto type, value, field number, serialize_empty flag and wraps the size walk returns the length of what
        the write walk returns, and where one raises the other raises the same class ---- *)
Theorem C09_src_two_walks_agree : forall msg fuel num t v se w,
  (src_fuel_single msg num t w v <= fuel)%nat ->
  match src__serialize_single msg fuel num t v se w, src__len_single msg num t v se w with
  | Ok b, Ok n => n = Zlength b
  | Err a, Err b => a = b
  | _, _ => False
  end.
Proof. exact src_single_agree. Qed.
Print Assumptions C09_src_two_walks_agree.

(* the same with a fuel bound that does not mention the model: 66 iterations are never used up when every varint
   written is a 64-bit one (field number below 2^61; the value, if it is an int / bool at all, in the signed 64-bit range;
   payload shorter than 2^64 bytes) *)
Theorem C09_src_two_walks_agree_in_range : forall msg fuel num t v se w,
  0 <= num < 2 ^ 61 -> int64_or_not_int v ->
  (forall b, preprocess_with msg t w v = Ok b -> Zlength b < 2 ^ 64) ->
  (66 <= fuel)%nat ->
  match src__serialize_single msg fuel num t v se w, src__len_single msg num t v se w with
  | Ok b, Ok n => n = Zlength b
  | Err a, Err b => a = b
  | _, _ => False
  end.
Proof. exact src_single_agree_in_range. Qed.
Print Assumptions C09_src_two_walks_agree_in_range.

Theorem C09_src_fuel_in_range : forall msg num t w v,
  0 <= num < 2 ^ 61 -> int64_or_not_int v ->
  (forall b, preprocess_with msg t w v = Ok b -> Zlength b < 2 ^ 64) ->
  (src_fuel_single msg num t w v <= 66)%nat.
Proof. exact src_fuel_single_in_range. Qed.
Print Assumptions C09_src_fuel_in_range.

(* ---- read off the agreement: both directions, and the size returned is a size ---- *)
Theorem C09_src_len_of_bytes : forall msg fuel num t v se w bs,
  (src_fuel_single msg num t w v <= fuel)%nat ->
  src__serialize_single msg fuel num t v se w = Ok bs -> src__len_single msg num t v se w = Ok (Zlength bs).
Proof. exact src_len_of_bytes. Qed.
Print Assumptions C09_src_len_of_bytes.

Theorem C09_src_len_err : forall msg fuel num t v se w e,
  (src_fuel_single msg num t w v <= fuel)%nat ->
  src__serialize_single msg fuel num t v se w = Err e <-> src__len_single msg num t v se w = Err e.
Proof. exact src_len_err_iff. Qed.
Print Assumptions C09_src_len_err.

Theorem C09_src_len_ok_inv : forall msg fuel num t v se w n,
  (src_fuel_single msg num t w v <= fuel)%nat ->
  src__len_single msg num t v se w = Ok n ->
  exists bs, src__serialize_single msg fuel num t v se w = Ok bs /\ n = Zlength bs.
Proof. exact src_len_ok_inv. Qed.
Print Assumptions C09_src_len_ok_inv.

(* ---- what the translated writer emits: nothing (an empty length-delimited payload that is not forced), or
        key ++ payload, or key ++ length prefix ++ payload, the key being varint(number << 3 | wire type) ---- *)
Theorem C09_src_serialize_shape : forall msg fuel num t v se w out,
  (src_fuel_single msg num t w v <= fuel)%nat ->
  src__serialize_single msg fuel num t v se w = Ok out ->
  exists payload, src__preprocess_single msg fuel t w v = Ok payload /\
    ((out = [] /\ payload = [] /\ tmem t src_WIRE_LEN_DELIM_TYPES = true) \/
     exists wt key, encode_varint (Z.lor (Z.shiftl num 3) wt) = Ok key /\
       ((wt = 0 /\ tmem t src_WIRE_VARINT_TYPES = true /\ out = key ++ payload) \/
        (wt = 5 /\ tmem t src_WIRE_FIXED_32_TYPES = true /\ out = key ++ payload) \/
        (wt = 1 /\ tmem t src_WIRE_FIXED_64_TYPES = true /\ out = key ++ payload) \/
        (wt = 2 /\ tmem t src_WIRE_LEN_DELIM_TYPES = true /\
           exists n, encode_varint (Zlength payload) = Ok n /\ out = key ++ n ++ payload))).
Proof. exact src_serialize_shape. Qed.
Print Assumptions C09_src_serialize_shape.

(* ---- ... and it reads back: the first varint of a written field is the tag (number * 8 + the wire type the translated
        dispatch gives the proto type), what follows is the payload, for a length-delimited kind preceded by the varint of
        its length ---- *)
Theorem C09_src_serialize_reads_back : forall msg fuel num t v se w out,
  0 <= num < 2 ^ 61 ->
  (src_fuel_single msg num t w v <= fuel)%nat ->
  src__serialize_single msg fuel num t v se w = Ok out ->
  exists payload wt, src__preprocess_single msg fuel t w v = Ok payload /\ src_wire_type t = Some wt /\
    ((out = [] /\ payload = [] /\ wt = 2) \/
     exists key rest, out = key ++ rest /\ load_varint out = Ok (num * 8 + wt, key, rest) /\
       if wt =? 2
       then Zlength payload < 2 ^ 64 -> exists n, rest = n ++ payload /\ load_varint rest = Ok (Zlength payload, n, payload)
       else rest = payload).
Proof. exact src_serialize_reads_back. Qed.
Print Assumptions C09_src_serialize_reads_back.

(* ---- where the message walks call the helpers: in the model's walks over a message (Encode.emit_field / Len.len_field, the
        loop bodies of Message.dump and Message.__len__, about which Properties/C09.v speaks) a field whose value is not a
        list / dict is either skipped by both, or written by the translated _serialize_single and sized by the translated
        _len_single on the same arguments ---- *)
Theorem C09_src_field_singular : forall enc_msg sc f sel v fuel,
  singular v ->
  (src_fuel_single (msg_bytes enc_msg) (fnum f) (fty f) (fwraps f) v <= fuel)%nat ->
  (emit_field enc_msg sc f sel v = Ok [] /\ len_field enc_msg sc f sel v = Ok 0) \/
  exists se,
    emit_field enc_msg sc f sel v = src__serialize_single (msg_bytes enc_msg) fuel (fnum f) (fty f) v se (fwraps f) /\
    len_field enc_msg sc f sel v = src__len_single (msg_bytes enc_msg) (fnum f) (fty f) v se (fwraps f).
Proof. exact src_field_singular. Qed.
Print Assumptions C09_src_field_singular.

(* ---- with the stated fuel no translated loop runs out of fuel (given that bytes(value) of the delegated arm does
        not: it is a model function, Encode.msg_bytes, which has no out-of-fuel outcome of its own) ---- *)
Theorem C09_src_serialize_fuel_unreachable : forall msg fuel num t v se w,
  msg_no_fuel msg -> (src_fuel_single msg num t w v <= fuel)%nat ->
  src__serialize_single msg fuel num t v se w <> Err EFuel.
Proof. exact src_serialize_fuel_ok. Qed.
Print Assumptions C09_src_serialize_fuel_unreachable.

(* ---- non-vacuity: concrete values meet the fuel hypotheses and the side conditions, the translated source computes
        the expected bytes and sizes on every arm, and the fuel hypothesis is not idle ---- *)
Definition ex_msg : option ptype -> pv -> result (list byte) := msg_bytes (fun _ => Ok [x08; x01]).

Example C09_src_ex_fuel :
  (src_fuel_single ex_msg 1 TSInt64 None (PInt (-3)) <= 66)%nat /\
  (src_fuel_single ex_msg 16 TString None (PStr [x61; x62]) <= 66)%nat /\
  (src_fuel_value (PInt 300) <= 12)%nat.
Proof. vm_compute. repeat split; lia. Qed.
Example C09_src_ex_in_range :
  0 <= 16 < 2 ^ 61 /\ int64_or_not_int (PInt (-3)) /\ int64_or_not_int (PStr [x61]) /\
  (forall b, preprocess_with ex_msg TString None (PStr [x61; x62]) = Ok b -> Zlength b < 2 ^ 64) /\
  msg_no_fuel no_msg.
Proof.
  split; [split; [discriminate | reflexivity]|].
  split; [split; [discriminate | reflexivity]|].
  split; [exact I|].
  split.
  - intros b H. change (preprocess_with ex_msg TString None (PStr [x61; x62])) with (@Ok (list byte) [x61; x62]) in H.
    injection H as <-. reflexivity.
  - intros w v. discriminate.
Qed.
Example C09_src_ex_varint :
  src__serialize_single ex_msg 66 1 TSInt64 (PInt (-3)) false None = Ok [x08; x05] /\
  src__len_single ex_msg 1 TSInt64 (PInt (-3)) false None = Ok 2 /\
  src__serialize_single ex_msg 66 2 TBool (PBool true) false None = Ok [x10; x01] /\
  src__len_single ex_msg 2 TBool (PBool true) false None = Ok 2.
Proof. vm_compute. repeat split; reflexivity. Qed.
Example C09_src_ex_fixed :
  src__serialize_single ex_msg 66 3 TFixed32 (PInt 258) false None = Ok [x1d; x02; x01; x00; x00] /\
  src__len_single ex_msg 3 TFixed32 (PInt 258) false None = Ok 5 /\
  src__serialize_single ex_msg 66 3 TSFixed64 (PInt (-1)) false None = Ok [x19; xff; xff; xff; xff; xff; xff; xff; xff] /\
  src__len_single ex_msg 3 TSFixed64 (PInt (-1)) false None = Ok 9.
Proof. vm_compute. repeat split; reflexivity. Qed.
Example C09_src_ex_len_delim :
  src__serialize_single ex_msg 66 16 TString (PStr [x61; x62]) false None = Ok [x82; x01; x02; x61; x62] /\
  src__len_single ex_msg 16 TString (PStr [x61; x62]) false None = Ok 5 /\
  src__serialize_single ex_msg 66 4 TBytes (PBytes []) false None = Ok [] /\
  src__len_single ex_msg 4 TBytes (PBytes []) false None = Ok 0 /\
  src__serialize_single ex_msg 66 4 TBytes (PBytes []) true None = Ok [x22; x00] /\
  src__len_single ex_msg 4 TBytes (PBytes []) true None = Ok 2 /\
  src__serialize_single ex_msg 66 5 TMessage PNone false (Some TInt32) = Ok [x2a; x00] /\
  src__len_single ex_msg 5 TMessage PNone false (Some TInt32) = Ok 2 /\
  src__serialize_single ex_msg 66 5 TMessage (PMsg (Obj 0 [] false [] [])) false None = Ok [x2a; x02; x08; x01] /\
  src__len_single ex_msg 5 TMessage (PMsg (Obj 0 [] false [] [])) false None = Ok 4.
Proof. vm_compute. repeat split; reflexivity. Qed.
Example C09_src_ex_errors :
  src__serialize_single ex_msg 66 1 TInt32 (PStr [x61]) false None = Err EType /\
  src__len_single ex_msg 1 TInt32 (PStr [x61]) false None = Err EType /\
  src__serialize_single ex_msg 66 1 TFixed32 (PInt (-1)) false None = Err EStruct /\
  src__len_single ex_msg 1 TFixed32 (PInt (-1)) false None = Err EStruct /\
  src__serialize_single ex_msg 66 1 TString (PBytes [x61]) false None = Err EAttribute /\
  src__len_single ex_msg 1 TString (PBytes [x61]) false None = Err EAttribute /\
  src__serialize_single ex_msg 66 1 TInt64 (PInt (- 2 ^ 63 - 1)) false None = Err EValue /\
  src__len_single ex_msg 1 TInt64 (PInt (- 2 ^ 63 - 1)) false None = Err EValue.
Proof. vm_compute. repeat split; reflexivity. Qed.
Example C09_src_ex_reads_back :
  src_wire_type TSInt64 = Some 0 /\ src_wire_type TFloat = Some 5 /\ src_wire_type TDouble = Some 1 /\
  src_wire_type TMap = Some 2 /\
  load_varint [x82; x01; x02; x61; x62] = Ok (16 * 8 + 2, [x82; x01], [x02; x61; x62]) /\
  load_varint [x02; x61; x62] = Ok (2, [x02], [x61; x62]).
Proof. vm_compute. repeat split; reflexivity. Qed.
Example C09_src_ex_singular : singular (PInt 7) /\ singular (PMsg (Obj 0 [] false [] [])) /\ singular PNone.
Proof. repeat split. Qed.
Example C09_src_ex_fuel_needed :
  src__serialize_single ex_msg 1 1 TInt32 (PInt 300) false None = Err EFuel /\
  src__preprocess_single ex_msg 1 TInt32 None (PInt 300) = Err EFuel.
Proof. vm_compute. split; reflexivity. Qed.
