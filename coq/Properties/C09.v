(* C09 — len(m) equals the encoded size and dump() writes exactly bytes(m).
   [enc_obj] mirrors Message.dump/__bytes__ (Model/Encode.v), [len_obj] mirrors
   Message.__len__ and its helpers as SEPARATE definitions (Model/Len.v), [dump] is
   dump(stream, delimit).  None of the statements has a hypothesis on the schema or on
   the object state: unknown fields, empty-but-present optional / oneof / nested members
   and out-of-range values are all covered.
   ILL-TYPED values (a float in an int field, a str / list in a bytes field) are covered by the
   statements only as far as the MODEL goes: the model raises EType on both walks, the code does
   not always (M(a=-0.5) with an int32 field: len(m) = 11 while bytes(m) raises TypeError;
   M(b="abc") with a bytes field: len(m) = 5 while bytes(m) raises) - found by the source
   translation of the helpers (Model/C09SrcLib.v).  Such values are outside the property's
   quantifier ("values as in C01": of the declared type) and outside what the tie generates, so
   for the code the theorems speak about well-typed (in- or out-of-range) values. *)
From BP Require Import Base.Prelude Model.Types Model.Varint Model.Object Model.Encode Model.Len.
From BP Require Import Proofs.LenP Proofs.LenP2 Model.Decode Model.History Model.C07Ops.

Theorem C09_len : forall sc o bs, enc_obj sc o = Ok bs -> len_obj sc o = Ok (Zlength bs).
Proof. exact len_of_bytes. Qed.
Print Assumptions C09_len.

(* where bytes() raises, len() raises the same kind of error, and conversely *)
Theorem C09_len_err : forall sc o e, enc_obj sc o = Err e <-> len_obj sc o = Err e.
Proof. exact len_fails_iff_bytes_fails. Qed.
Print Assumptions C09_len_err.

Theorem C09_two_walks_agree : forall sc o,
  match enc_obj sc o, len_obj sc o with
  | Ok b, Ok n => n = Zlength b
  | Err a, Err b => a = b
  | _, _ => False
  end.
Proof. exact len_matches_bytes. Qed.
Print Assumptions C09_two_walks_agree.

Theorem C09_dump : forall sc o, dump sc o false = enc_obj sc o.
Proof. exact dump_plain. Qed.
Print Assumptions C09_dump.

Theorem C09_dump_delimited : forall sc o bs, enc_obj sc o = Ok bs ->
  dump sc o true = (do p <- encode_varint (Zlength bs); Ok (p ++ bs)).
Proof. exact dump_delimited. Qed.
Print Assumptions C09_dump_delimited.

(* ... and that prefix is the varint load_varint reads back as exactly the length *)
Theorem C09_dump_delimited_prefix : forall sc o bs, enc_obj sc o = Ok bs -> Zlength bs < 2 ^ 64 ->
  exists p, encode_varint (Zlength bs) = Ok p /\ dump sc o true = Ok (p ++ bs) /\
            load_varint (p ++ bs) = Ok (Zlength bs, p, bs).
Proof. exact dump_delimited_canonical. Qed.
Print Assumptions C09_dump_delimited_prefix.

Theorem C09_dump_err : forall sc o d e, enc_obj sc o = Err e -> dump sc o d = Err e.
Proof. exact dump_fails_iff_bytes_fails. Qed.
Print Assumptions C09_dump_err.

(* ---- the same in the other direction and as sizes (Proofs/LenP2.v) ---- *)
(* len() returns only when bytes() does, and what it returns is a size *)
Theorem C09_len_ok_inv : forall sc o n, len_obj sc o = Ok n -> exists bs, enc_obj sc o = Ok bs /\ n = Zlength bs.
Proof. exact len_ok_bytes_ok. Qed.
Print Assumptions C09_len_ok_inv.

Theorem C09_len_nonneg : forall sc o n, len_obj sc o = Ok n -> 0 <= n.
Proof. exact len_nonneg. Qed.
Print Assumptions C09_len_nonneg.

(* whatever dump() wrote is bytes(m), preceded (delimited form only) by the varint of its length: nothing else can come out *)
Theorem C09_dump_ok_inv : forall sc o d out, dump sc o d = Ok out ->
  exists bs, enc_obj sc o = Ok bs /\
    if d then exists p, encode_varint (Zlength bs) = Ok p /\ out = p ++ bs else out = bs.
Proof. exact dump_ok_inv. Qed.
Print Assumptions C09_dump_ok_inv.

(* ... and dump() raises only when bytes() raises or, delimited, when the length does not fit a varint *)
Theorem C09_dump_err_inv : forall sc o d e, dump sc o d = Err e ->
  enc_obj sc o = Err e \/ (d = true /\ exists bs, enc_obj sc o = Ok bs /\ encode_varint (Zlength bs) = Err e).
Proof. exact dump_err_inv. Qed.
Print Assumptions C09_dump_err_inv.

Theorem C09_dump_delimited_total : forall sc o bs, enc_obj sc o = Ok bs -> Zlength bs < 2 ^ 64 -> exists out, dump sc o true = Ok out.
Proof. exact dump_delimited_total. Qed.
Print Assumptions C09_dump_delimited_total.

(* the delimited dump is size_varint(len(m)) + len(m) bytes long *)
Theorem C09_dump_delimited_size : forall sc o out, dump sc o true = Ok out ->
  exists n k, len_obj sc o = Ok n /\ size_varint n = Ok k /\ Zlength out = k + n.
Proof. exact dump_delimited_size. Qed.
Print Assumptions C09_dump_delimited_size.

(* after ANY history of operations (constructor, setattr, nested assignment, parse into the same object, from_dict,
   copies, observers: Model/C07Ops.v) len() is the size of what bytes() returns at that moment *)
Theorem C09_len_after_history : forall sc c ops o, run7 sc (new sc c) ops = Ok o ->
  match enc_obj sc o, len_obj sc o with
  | Ok b, Ok n => n = Zlength b
  | Err a, Err b => a = b
  | _, _ => False
  end.
Proof. exact len_after_history. Qed.
Print Assumptions C09_len_after_history.

(* ---- non-vacuity: a message with a set-but-empty optional string, an empty-but-present
        nested message, a selected default-valued oneof member and unknown fields ---- *)
Definition ex_schema : schema :=
  mkS (builtin_classes ++
       [mkC [mkF [x73] 1 TString None None None true (HOptional PyStr) 0;
             mkF [x6d] 2 TMessage None None None false (HPlain (PyMsg 11)) 0;
             mkF [x75] 3 TInt32 None (Some 0%nat) None false (HPlain PyInt) 0;
             mkF [x72] 4 TSInt64 None None None false (HList PyInt) 0] 1]) [].
Definition ex_obj : obj :=
  Obj 11 [PStr []; PMsg (Obj 11 [PNone; PPlaceholder; PPlaceholder; PPlaceholder] true [] [None]);
          PInt 0; PList [PInt (-1); PInt 300]] true [xf8; x01; x05] [Some 2%nat].
Example C09_nonvacuous :
  enc_obj ex_schema ex_obj = Ok [x0a; x00; x12; x00; x18; x00; x22; x03; x01; xd8; x04; xf8; x01; x05]
  /\ len_obj ex_schema ex_obj = Ok 14
  /\ dump ex_schema ex_obj true = Ok [x0e; x0a; x00; x12; x00; x18; x00; x22; x03; x01; xd8; x04; xf8; x01; x05].
Proof. vm_compute. repeat split. Qed.

(* ================================================================================================================
   GAP CLOSING (clause-by-clause table: header of Proofs/C09GapA.v).
   ================================================================================================================ *)
From BP Require Import Model.WellFormed Model.C01Def Model.C08Step Model.C09GapDefs Model.C01Reach Model.C01Parse.
From BP Require Import Spec.Varint Proofs.C09GapA.

(* (3a) the bound 2^64 of C09_dump_delimited_total and the second disjunct of C09_dump_err_inv are not needed:
        dump_varint accepts every non-negative int, so the length never makes a delimited dump fail *)
Theorem C09_length_never_rejected : forall (bs : list byte), exists p, encode_varint (Zlength bs) = Ok p.
Proof. exact (@length_never_rejected byte). Qed.
Print Assumptions C09_length_never_rejected.

Theorem C09_dump_delimited_always : forall sc o bs, enc_obj sc o = Ok bs ->
  exists p, encode_varint (Zlength bs) = Ok p /\ dump sc o true = Ok (p ++ bs).
Proof. exact dump_delimited_always. Qed.
Print Assumptions C09_dump_delimited_always.

(* dump (either form) raises e EXACTLY when bytes() raises e; it returns exactly when bytes() returns *)
Theorem C09_dump_err_iff : forall sc o d e, dump sc o d = Err e <-> enc_obj sc o = Err e.
Proof. exact dump_err_iff. Qed.
Print Assumptions C09_dump_err_iff.

Theorem C09_dump_ok_iff : forall sc o d, (exists out, dump sc o d = Ok out) <-> (exists bs, enc_obj sc o = Ok bs).
Proof. exact dump_ok_iff. Qed.
Print Assumptions C09_dump_ok_iff.

(* (3b) "the varint encoding of that length": the prefix is THE canonical varint of the specification (Spec/Varint.v),
        at most 10 bytes, and no other byte string is a canonical varint of that length *)
Theorem C09_dump_delimited_spec : forall sc o bs, enc_obj sc o = Ok bs -> Zlength bs < 2 ^ 64 ->
  exists p, canonical (Zlength bs) p /\ (length p <= 10)%nat /\ dump sc o true = Ok (p ++ bs) /\
            (forall q, canonical (Zlength bs) q -> q = p).
Proof. exact dump_delimited_spec. Qed.
Print Assumptions C09_dump_delimited_spec.

(* (3c) "exactly": what a delimited dump wrote determines bytes(m) - across schemas and objects *)
Theorem C09_frame_determines_bytes : forall sc o sc' o' out, Zlength out < 2 ^ 64 ->
  dump sc o true = Ok out -> dump sc' o' true = Ok out -> enc_obj sc o = enc_obj sc' o'.
Proof. exact frame_determines_bytes. Qed.
Print Assumptions C09_frame_determines_bytes.

(* the frame is at least one byte longer than bytes(m), and len(m) is its size minus the prefix *)
Theorem C09_frame_size_exact : forall sc o out, dump sc o true = Ok out ->
  exists bs p, enc_obj sc o = Ok bs /\ encode_varint (Zlength bs) = Ok p /\
               Zlength out = Zlength p + Zlength bs /\ 1 <= Zlength p /\ len_obj sc o = Ok (Zlength out - Zlength p).
Proof. exact frame_size_exact. Qed.
Print Assumptions C09_frame_size_exact.

(* (4) SerializeToString is bytes() and the plain dump *)
Theorem C09_serialize : forall sc o,
  serialize_to_string sc o = enc_obj sc o /\ serialize_to_string sc o = dump sc o false.
Proof. exact serialize_agrees. Qed.
Print Assumptions C09_serialize.

Theorem C09_serialize_len : forall sc o bs, serialize_to_string sc o = Ok bs -> len_obj sc o = Ok (Zlength bs).
Proof. exact serialize_len. Qed.
Print Assumptions C09_serialize_len.

(* (1a) on the values of the quantifier ("as in C01") everything RETURNS and is related as the text says *)
Theorem C09_value_ok_total : forall sc m, c01_schema_ok sc = true -> c01_value_ok sc m = true ->
  exists bs p, enc_obj sc m = Ok bs /\ len_obj sc m = Ok (Zlength bs) /\ serialize_to_string sc m = Ok bs /\
    dump sc m false = Ok bs /\ encode_varint (Zlength bs) = Ok p /\ dump sc m true = Ok (p ++ bs).
Proof. exact value_ok_total. Qed.
Print Assumptions C09_value_ok_total.

(* ... and so for every object a history of public-API operations produces (C01_reachable_value_ok_parse) *)
Theorem C09_reachable_total : forall sc c ops m,
  c01_schema_ok sc = true -> hist_ok op_value_ok_p sc (new sc c) ops = true ->
  C07Ops.run7 sc (new sc c) ops = Ok m ->
  exists bs p, enc_obj sc m = Ok bs /\ len_obj sc m = Ok (Zlength bs) /\ serialize_to_string sc m = Ok bs /\
    dump sc m false = Ok bs /\ encode_varint (Zlength bs) = Ok p /\ dump sc m true = Ok (p ++ bs).
Proof. exact reachable_total. Qed.
Print Assumptions C09_reachable_total.

(* (6) "including messages carrying unknown fields": c01_value_ok excludes them, so: a C01 value with ANY unknown bytes *)
Theorem C09_value_ok_unknown_total : forall sc m, c01_schema_ok sc = true -> c01_value_ok sc (clear_unk m) = true ->
  exists body p, enc_obj sc (clear_unk m) = Ok body /\
    enc_obj sc m = Ok (body ++ ounk m) /\
    len_obj sc m = Ok (Zlength body + Zlength (ounk m)) /\
    dump sc m false = Ok (body ++ ounk m) /\
    encode_varint (Zlength body + Zlength (ounk m)) = Ok p /\
    dump sc m true = Ok (p ++ body ++ ounk m).
Proof. exact value_ok_unknown_total. Qed.
Print Assumptions C09_value_ok_unknown_total.

(* (7) composition with the C01 round trip: the decoded message has the same len and the same delimited frame *)
Theorem C09_len_roundtrip : forall sc m, c01_schema_ok sc = true -> c01_value_ok sc m = true ->
  len_obj sc (norm_obj sc m) = len_obj sc m /\
  forall bs, enc_obj sc m = Ok bs -> Zlength bs < 2 ^ 64 ->
    exists m', parse sc (ocls m) bs = Ok m' /\ len_obj sc m' = Ok (Zlength bs) /\ dump sc m' true = dump sc m true.
Proof. exact len_roundtrip. Qed.
Print Assumptions C09_len_roundtrip.

(* ---- non-vacuity of the new hypotheses ---- *)
Example C09_gap_nonvacuous :
  c01_schema_ok ex_schema = true /\ c01_value_ok ex_schema (clear_unk ex_obj) = true /\
  c01_value_ok ex_schema ex_obj = false /\ ounk ex_obj = [xf8; x01; x05] /\
  dump ex_schema (clear_unk ex_obj) true = Ok [x0b; x0a; x00; x12; x00; x18; x00; x22; x03; x01; xd8; x04] /\
  serialize_to_string ex_schema ex_obj = enc_obj ex_schema ex_obj.
Proof. vm_compute. repeat split. Qed.

Definition exg_hist9 : list C07Ops.op7 :=
  [C07Ops.OConstruct [(3%nat, PList [PInt (-1); PInt 300])];
   C07Ops.OBase (History.OSet [] 0 (PStr [])); C07Ops.OBase (History.OSet [] 2 (PInt 0))].
Example C09_reachable_nonvacuous :
  hist_ok op_value_ok_p ex_schema (new ex_schema 11) exg_hist9 = true /\
  match C07Ops.run7 ex_schema (new ex_schema 11) exg_hist9 with
  | Ok m => enc_obj ex_schema m = Ok [x0a; x00; x18; x00; x22; x03; x01; xd8; x04] /\ len_obj ex_schema m = Ok 9
  | Err _ => False
  end.
Proof. vm_compute. repeat split. Qed.

(* ---- (1b) ILL-TYPED VALUES: the exact decidable condition under which the model's TypeError / AttributeError arms
        are unreachable (Proofs/C09GapB.v).  [leaf_typed t v]: v has the Python type the arm of _preprocess_single for
        proto type t operates on (int / bool for the varint types, str for string, bytes for bytes; the struct.pack and
        message arms raise no typing error of their own in the model).  [msg_type_safe msg]: bytes(value) of the
        TYPE_MESSAGE arm raises no typing error. ---- *)
From BP Require Import Proofs.C09GapB.

(* exactness at the level of one value, both walks: a typing error comes out IFF the value is not leaf_typed *)
Theorem C09_preprocess_type_err_iff : forall msg t w v, msg_type_safe msg ->
  ((exists e, type_err e = true /\ preprocess_with msg t w v = Err e) <-> leaf_typed t v = false) /\
  ((exists e, type_err e = true /\ len_preprocessed_with msg t w v = Err e) <-> leaf_typed t v = false).
Proof. exact preprocess_type_err_iff. Qed.
Print Assumptions C09_preprocess_type_err_iff.

(* the same for _serialize_single / _len_single: key and length prefix add no typing error *)
Theorem C09_single_type_err_iff : forall msg num t v se w, msg_type_safe msg ->
  ((exists e, type_err e = true /\ serialize_with msg num t v se w = Err e) <-> leaf_typed t v = false) /\
  ((exists e, type_err e = true /\ len_single_with msg num t v se w = Err e) <-> leaf_typed t v = false).
Proof. exact single_type_err_iff. Qed.
Print Assumptions C09_single_type_err_iff.

(* an ill-typed value makes BOTH model walks raise the same typing error, with no hypothesis on msg: this is exactly the
   set of inputs on which the model's two walks agree while the code's do not (header of this file) *)
Theorem C09_single_untyped_raises : forall msg num t v se w, leaf_typed t v = false ->
  exists e, type_err e = true /\ serialize_with msg num t v se w = Err e /\ len_single_with msg num t v se w = Err e.
Proof. exact single_untyped_raises. Qed.
Print Assumptions C09_single_untyped_raises.

(* the two inputs of the header, in the model: a float in an int32 field, a str in a bytes field (the CODE returns
   len = 11 / len = 5 there while bytes raises: outside the quantifier, not a theorem about the code) *)
Definition ex_ill_schema : schema :=
  mkS (builtin_classes ++
       [mkC [mkF [x61] 1 TInt32 None None None false (HPlain PyInt) 0;
             mkF [x62] 2 TBytes None None None false (HPlain PyBytes) 0] 0]) [].
Theorem C09_ill_typed_model_raises :
  exists sc o o', enc_obj sc o = Err EType /\ len_obj sc o = Err EType /\
                  enc_obj sc o' = Err EType /\ len_obj sc o' = Err EType.
Proof.
  exists ex_ill_schema, (Obj 11 [PFloat 13826050856027422720; PPlaceholder] false [] []),
         (Obj 11 [PPlaceholder; PStr [x61; x62; x63]] false [] []).
  vm_compute. repeat split.
Qed.
Print Assumptions C09_ill_typed_model_raises.

Example C09_typed_nonvacuous :
  leaf_typed TInt32 (PInt (-1)) = true /\ leaf_typed TInt32 (PBool true) = true /\ leaf_typed TInt32 (PFloat 0) = false /\
  leaf_typed TBytes (PStr [x61]) = false /\ leaf_typed TString (PStr [x61]) = true /\ leaf_typed TString (PBytes []) = false /\
  leaf_typed TSInt64 (PInt (2 ^ 80)) = true /\
  (* out of range but well typed: ValueError-free here, struct.error for fixed widths - not a typing error *)
  serialize_with no_msg 1 TFixed32 (PInt (-1)) false None = Err EStruct /\ type_err EStruct = false /\
  (* a nested-message interpretation that raises no typing error *)
  msg_type_safe (fun _ _ => Ok []).
Proof. repeat split; try (vm_compute; reflexivity). intros w v e H. discriminate. Qed.
