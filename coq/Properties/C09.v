(* C09 — len(m) equals the encoded size and dump() writes exactly bytes(m).
   [enc_obj] mirrors Message.dump/__bytes__ (Model/Encode.v), [len_obj] mirrors
   Message.__len__ and its helpers as SEPARATE definitions (Model/Len.v), [dump] is
   dump(stream, delimit).  None of the statements has a hypothesis on the schema or on
   the object state: unknown fields, empty-but-present optional / oneof / nested members
   and out-of-range values are all covered.
   ILL-TYPED values (a float in an int field, a str / list in a bytes field) are covered by the
   statements only as far as the MODEL goes: the model raises EType on both walks, the code does
   not always (M(a=-0.5) with an int32 field: len(m) = 11 while bytes(m) raises TypeError;
   M(b="abc") with a bytes field: len(m) = 5 while bytes(m) raises) - found by the source
   translation of the helpers (Model/C09SrcLib.v).  Such values are outside the property's
   quantifier ("values as in C01": of the declared type) and outside what the tie generates, so
   for the code the theorems speak about well-typed (in- or out-of-range) values. *)
From BP Require Import Base.Prelude Model.Types Model.Varint Model.Object Model.Encode Model.Len.
From BP Require Import Proofs.LenP Proofs.LenP2 Model.Decode Model.History Model.C07Ops.

Theorem C09_len : forall sc o bs, enc_obj sc o = Ok bs -> len_obj sc o = Ok (Zlength bs).
Proof. exact len_of_bytes. Qed.
Print Assumptions C09_len.

(* where bytes() raises, len() raises the same kind of error, and conversely *)
Theorem C09_len_err : forall sc o e, enc_obj sc o = Err e <-> len_obj sc o = Err e.
Proof. exact len_fails_iff_bytes_fails. Qed.
Print Assumptions C09_len_err.

Theorem C09_two_walks_agree : forall sc o,
  match enc_obj sc o, len_obj sc o with
  | Ok b, Ok n => n = Zlength b
  | Err a, Err b => a = b
  | _, _ => False
  end.
Proof. exact len_matches_bytes. Qed.
Print Assumptions C09_two_walks_agree.

Theorem C09_dump : forall sc o, dump sc o false = enc_obj sc o.
Proof. exact dump_plain. Qed.
Print Assumptions C09_dump.

Theorem C09_dump_delimited : forall sc o bs, enc_obj sc o = Ok bs ->
  dump sc o true = (do p <- encode_varint (Zlength bs); Ok (p ++ bs)).
Proof. exact dump_delimited. Qed.
Print Assumptions C09_dump_delimited.

(* ... and that prefix is the varint load_varint reads back as exactly the length *)
Theorem C09_dump_delimited_prefix : forall sc o bs, enc_obj sc o = Ok bs -> Zlength bs < 2 ^ 64 ->
  exists p, encode_varint (Zlength bs) = Ok p /\ dump sc o true = Ok (p ++ bs) /\
            load_varint (p ++ bs) = Ok (Zlength bs, p, bs).
Proof. exact dump_delimited_canonical. Qed.
Print Assumptions C09_dump_delimited_prefix.

Theorem C09_dump_err : forall sc o d e, enc_obj sc o = Err e -> dump sc o d = Err e.
Proof. exact dump_fails_iff_bytes_fails. Qed.
Print Assumptions C09_dump_err.

(* ---- the same in the other direction and as sizes (Proofs/LenP2.v) ---- *)
(* len() returns only when bytes() does, and what it returns is a size *)
Theorem C09_len_ok_inv : forall sc o n, len_obj sc o = Ok n -> exists bs, enc_obj sc o = Ok bs /\ n = Zlength bs.
Proof. exact len_ok_bytes_ok. Qed.
Print Assumptions C09_len_ok_inv.

Theorem C09_len_nonneg : forall sc o n, len_obj sc o = Ok n -> 0 <= n.
Proof. exact len_nonneg. Qed.
Print Assumptions C09_len_nonneg.

(* whatever dump() wrote is bytes(m), preceded (delimited form only) by the varint of its length: nothing else can come out *)
Theorem C09_dump_ok_inv : forall sc o d out, dump sc o d = Ok out ->
  exists bs, enc_obj sc o = Ok bs /\
    if d then exists p, encode_varint (Zlength bs) = Ok p /\ out = p ++ bs else out = bs.
Proof. exact dump_ok_inv. Qed.
Print Assumptions C09_dump_ok_inv.

(* ... and dump() raises only when bytes() raises or, delimited, when the length does not fit a varint *)
Theorem C09_dump_err_inv : forall sc o d e, dump sc o d = Err e ->
  enc_obj sc o = Err e \/ (d = true /\ exists bs, enc_obj sc o = Ok bs /\ encode_varint (Zlength bs) = Err e).
Proof. exact dump_err_inv. Qed.
Print Assumptions C09_dump_err_inv.

Theorem C09_dump_delimited_total : forall sc o bs, enc_obj sc o = Ok bs -> Zlength bs < 2 ^ 64 -> exists out, dump sc o true = Ok out.
Proof. exact dump_delimited_total. Qed.
Print Assumptions C09_dump_delimited_total.

(* the delimited dump is size_varint(len(m)) + len(m) bytes long *)
Theorem C09_dump_delimited_size : forall sc o out, dump sc o true = Ok out ->
  exists n k, len_obj sc o = Ok n /\ size_varint n = Ok k /\ Zlength out = k + n.
Proof. exact dump_delimited_size. Qed.
Print Assumptions C09_dump_delimited_size.

(* after ANY history of operations (constructor, setattr, nested assignment, parse into the same object, from_dict,
   copies, observers: Model/C07Ops.v) len() is the size of what bytes() returns at that moment *)
Theorem C09_len_after_history : forall sc c ops o, run7 sc (new sc c) ops = Ok o ->
  match enc_obj sc o, len_obj sc o with
  | Ok b, Ok n => n = Zlength b
  | Err a, Err b => a = b
  | _, _ => False
  end.
Proof. exact len_after_history. Qed.
Print Assumptions C09_len_after_history.

(* ---- non-vacuity: a message with a set-but-empty optional string, an empty-but-present
        nested message, a selected default-valued oneof member and unknown fields ---- *)
Definition ex_schema : schema :=
  mkS (builtin_classes ++
       [mkC [mkF [x73] 1 TString None None None true (HOptional PyStr) 0;
             mkF [x6d] 2 TMessage None None None false (HPlain (PyMsg 11)) 0;
             mkF [x75] 3 TInt32 None (Some 0%nat) None false (HPlain PyInt) 0;
             mkF [x72] 4 TSInt64 None None None false (HList PyInt) 0] 1]) [].
Definition ex_obj : obj :=
  Obj 11 [PStr []; PMsg (Obj 11 [PNone; PPlaceholder; PPlaceholder; PPlaceholder] true [] [None]);
          PInt 0; PList [PInt (-1); PInt 300]] true [xf8; x01; x05] [Some 2%nat].
Example C09_nonvacuous :
  enc_obj ex_schema ex_obj = Ok [x0a; x00; x12; x00; x18; x00; x22; x03; x01; xd8; x04; xf8; x01; x05]
  /\ len_obj ex_schema ex_obj = Ok 14
  /\ dump ex_schema ex_obj true = Ok [x0e; x0a; x00; x12; x00; x18; x00; x22; x03; x01; xd8; x04; xf8; x01; x05].
Proof. vm_compute. repeat split. Qed.
