(* C10 — Delimited streams read back intact; truncation never yields a partial message.

   Models: [dump sc m true] = m.dump(stream, SIZE_DELIMITED) (Model/Len.v: the prefix comes from the separate
   __len__ walk), [load_delimited sc c s] = Cls().load(stream, SIZE_DELIMITED) (Model/Decode.v: prefix varint,
   read/size accounting, the size == 0 case, the three size errors), [parse sc c bs] = Cls().parse(bs),
   [dump_stream] / [loads] / [parse_each] = several of them on one stream (Model/C10Stream.v).
   A stream is the list of unread bytes.  The framing / truncation theorems of the first four sections have no
   hypothesis on the schema, on the class the reader uses or on the bytes that follow a frame; their only side
   condition is that a stream is shorter than 2^64 bytes (a longer length does not fit the 10-byte varint
   load_varint accepts).
   The last section ("the round trip, end to end") composes them with the binary round trip C01 and the schema
   evolution C08, under exactly their decidable side conditions (c01_schema_ok, c01_value_ok, masks_ok) and the size
   bound per message (msg_small, Model/C10Rt.v): C10_stream_roundtrip (the premise [good] of C10_stream_rt_eq
   discharged), C10_stream_older_reader, C10_truncate_roundtrip.  [norm_obj] (Model/C01Def.v) is the closed form of
   the decoded object, [whole_frames sc ms k] (Model/C10Rt.v) the number of frames wholly within the first k bytes.
   The section "GAP CLOSING" at the end (table of the property text against the theorems: top of Proofs/C10GapA.v) adds: the
   reference reader of one frame / of a stream and the exact equivalence with load (C10_load_ref_frame, C10_load_total_spec,
   C10_ref_frames_stream), uniqueness (C10_frame_unique, C10_stream_unique), the canonical prefix = len(m) (C10_dump_canonical),
   the stream position between calls (C10_loads_positions), faults other than a cut (C10_loads_fault, C10_stream_fault_roundtrip),
   the value hypotheses discharged for public-API histories (C10_stream_roundtrip_reachable, C10_older_reader_reachable),
   written messages carrying unknown fields at any depth (C10_stream_roundtrip_unknown, with a _refuted witness for its side
   condition) and the composition with C17's acceptance criterion (C10_load_accept_iff).
   This file holds only statements; each proof is one [exact] of a lemma from Proofs/C10*P.v / C10Gap*.v. *)
From BP Require Import Base.Prelude Model.Types Model.Varint Model.Object Model.Eq Model.Encode Model.Len Model.Decode.
From BP Require Import Model.C10Stream Spec.Varint.
From BP Require Import Proofs.C10FrameP Proofs.C10StreamP Proofs.C10TotalP.
From BP Require Import Model.WellFormed Model.C10Rt.
From BP Require Model.C01Def Model.C08Step Proofs.C08EvoDef.
From BP Require Proofs.C10RtGenP Proofs.C10RtP Proofs.C10RtOldP Proofs.C10RtCutP.

(* ---------------------------------------------------------------------------------------------
   one frame
   --------------------------------------------------------------------------------------------- *)

(* What dump(stream, SIZE_DELIMITED) writes is varint(|bytes(m)|) ++ bytes(m) (C09), and a reader of ANY schema
   and class — the writer's, an older one, an unrelated one — consumes exactly that frame, whatever follows it,
   and returns what it returns from parse(bytes(m)); it raises iff parse(bytes(m)) raises. *)
Theorem C10_framing : forall scW scR m F,
  dump scW m true = Ok F -> Zlength F < 2 ^ 64 ->
  exists pre p, enc_obj scW m = Ok p /\ encode_varint (Zlength p) = Ok pre /\ F = pre ++ p /\
    forall c rest,
      match parse scR c p with
      | Ok m' => load_delimited scR c (F ++ rest) = Ok (m', rest)
      | Err _ => exists e', load_delimited scR c (F ++ rest) = Err e'
      end.
Proof. exact dump_frame_load. Qed.
Print Assumptions C10_framing.

(* The same for an arbitrary payload and any legal length prefix (padded varints included): the payload may hold
   unknown fields, groups, anything parse accepts; byte accounting counts every parsed record. *)
Theorem C10_frame_ok : forall sc c pre p rest m,
  VarintRep (Zlength p) pre -> parse sc c p = Ok m ->
  load_delimited sc c (pre ++ p ++ rest) = Ok (m, rest).
Proof. exact frame_load_ok. Qed.
Print Assumptions C10_frame_ok.

Theorem C10_frame_err : forall sc c pre p rest e,
  VarintRep (Zlength p) pre -> parse sc c p = Err e ->
  exists e', load_delimited sc c (pre ++ p ++ rest) = Err e'.
Proof. exact frame_load_err. Qed.
Print Assumptions C10_frame_err.

Theorem C10_frame_iff : forall sc c pre p rest m r',
  VarintRep (Zlength p) pre -> load_delimited sc c (pre ++ p ++ rest) = Ok (m, r') ->
  r' = rest /\ parse sc c p = Ok m.
Proof. exact frame_load_inv. Qed.
Print Assumptions C10_frame_iff.

(* On ANY stream: a delimited load that returns has read one varint n, then EXACTLY n bytes, and returns what
   parse returns on those n bytes alone. *)
Theorem C10_frame_exact : forall sc c s m s',
  load_delimited sc c s = Ok (m, s') ->
  exists pre p, load_varint s = Ok (Zlength p, pre, p ++ s') /\ parse sc c p = Ok m.
Proof. exact frame_load_exact. Qed.
Print Assumptions C10_frame_exact.

Theorem C10_load_consumes_exactly : forall sc c s m s',
  load_delimited sc c s = Ok (m, s') ->
  exists n pre, load_varint s = Ok (n, pre, skipn (length pre) s) /\ 0 <= n /\
                Zlength s - Zlength s' = Zlength pre + n.
Proof. exact load_consumes_exactly. Qed.
Print Assumptions C10_load_consumes_exactly.

(* the empty message: its frame is the byte 00 and nothing after it is touched (former defect F2a) *)
Theorem C10_empty_frame : forall sc c rest,
  load_delimited sc c (x00 :: rest) = Ok (sow_true (new sc c), rest).
Proof. exact empty_frame. Qed.
Print Assumptions C10_empty_frame.

(* ---------------------------------------------------------------------------------------------
   the three size errors
   --------------------------------------------------------------------------------------------- *)

(* under-run: fewer bytes on the stream than announced *)
Theorem C10_underrun : forall sc c pre t n,
  VarintRep n pre -> Zlength t < n -> exists e, load_delimited sc c (pre ++ t) = Err e.
Proof. exact load_underrun. Qed.
Print Assumptions C10_underrun.

(* over-run: the complete records [a] of the payload stop short of the announced size and the next record
   [rec] crosses it: ValueError, whatever follows *)
Theorem C10_overrun : forall sc c pre n a rec rest m,
  VarintRep n pre -> parse sc c a = Ok m -> one_record rec ->
  Zlength a < n -> n < Zlength a + Zlength rec ->
  load_delimited sc c (pre ++ a ++ rec ++ rest) = Err EValue.
Proof. exact frame_overrun. Qed.
Print Assumptions C10_overrun.

(* any strict prefix of a frame (cut inside the length varint or inside the payload): the load raises *)
Theorem C10_frame_cut : forall sc c pre p t x,
  VarintRep (Zlength p) pre -> pre ++ p = t ++ x -> x <> [] ->
  exists e, load_delimited sc c t = Err e.
Proof. exact frame_cut_err. Qed.
Print Assumptions C10_frame_cut.

(* a load that returned does not depend on what follows the bytes it consumed *)
Theorem C10_load_prefix_stable : forall sc c t m r more,
  load_delimited sc c t = Ok (m, r) -> load_delimited sc c (t ++ more) = Ok (m, r ++ more).
Proof. exact load_prefix_stable. Qed.
Print Assumptions C10_load_prefix_stable.

(* ---------------------------------------------------------------------------------------------
   streams
   --------------------------------------------------------------------------------------------- *)

(* Any list of messages of mixed classes, written by schema scW and read by schema scR with classes cs (the same,
   older or different ones): the successive loads return exactly parse(bytes(m_i)) for each frame in turn, stop at
   the first payload the reader's parse rejects, and otherwise leave exactly what followed the stream. *)
Theorem C10_stream_frames : forall scW scR ms cs stream rest,
  dump_stream scW ms = Ok stream -> Zlength stream < 2 ^ 64 -> length cs = length ms ->
  exists r, loads scR cs (stream ++ rest) = (fst (parse_each scW scR cs ms), r) /\
            (if snd (parse_each scW scR cs ms) then r = Ok rest else exists e, r = Err e).
Proof. exact stream_frames. Qed.
Print Assumptions C10_stream_frames.

Theorem C10_stream_rt : forall scW scR ms cs stream rest ms',
  dump_stream scW ms = Ok stream -> Zlength stream < 2 ^ 64 -> length cs = length ms ->
  Forall2 (fun cm m' => returns_parse scW scR (fst cm) (snd cm) m') (combine cs ms) ms' ->
  loads scR cs (stream ++ rest) = (ms', Ok rest).
Proof. exact stream_roundtrip. Qed.
Print Assumptions C10_stream_rt.

(* With the binary round trip (C01, proved elsewhere) as an explicit premise for the messages [good] holds of:
   the sequence comes back == the sequence written, and the stream is consumed exactly. *)
Theorem C10_stream_rt_eq : forall sc (good : obj -> Prop),
  (forall m bs, good m -> enc_obj sc m = Ok bs ->
     exists m', parse sc (ocls m) bs = Ok m' /\ obj_eq sc m m' = true) ->
  forall ms stream rest,
  Forall good ms -> dump_stream sc ms = Ok stream -> Zlength stream < 2 ^ 64 ->
  exists ms', loads sc (map ocls ms) (stream ++ rest) = (ms', Ok rest) /\
              Forall2 (fun m m' => obj_eq sc m m' = true) ms ms'.
Proof. exact stream_roundtrip_eq. Qed.
Print Assumptions C10_stream_rt_eq.

(* ---------------------------------------------------------------------------------------------
   truncation
   --------------------------------------------------------------------------------------------- *)

(* ANY stream, ANY classes, ANY cut point: the messages the cut stream returns are exactly the messages the uncut
   stream returns at those positions — never a shortened or otherwise different message. *)
Theorem C10_cut_prefix : forall sc cs s k,
  exists j, fst (loads sc cs (firstn k s)) = firstn j (fst (loads sc cs s)).
Proof. exact loads_cut. Qed.
Print Assumptions C10_cut_prefix.

(* A stream written by dump and cut anywhere before its end: the run of loads ends in an exception. *)
Theorem C10_truncate : forall scW scR ms cs stream k,
  dump_stream scW ms = Ok stream -> Zlength stream < 2 ^ 64 ->
  (length ms <= length cs)%nat -> (k < length stream)%nat ->
  exists j e, loads scR cs (firstn k stream) = (firstn j (fst (loads scR cs stream)), Err e).
Proof. exact stream_truncate. Qed.
Print Assumptions C10_truncate.

(* ... and the loads that return are exactly those of the frames that lie wholly before the cut: with the cut
   inside frame number |ms1|, the |ms1| earlier messages come back and the next load raises. *)
Theorem C10_truncate_count : forall scW scR ms1 m ms2 cs pre_s F stream k,
  dump_stream scW ms1 = Ok pre_s -> dump scW m true = Ok F ->
  dump_stream scW (ms1 ++ m :: ms2) = Ok stream -> Zlength stream < 2 ^ 64 ->
  (length ms1 < length cs)%nat ->
  (length pre_s <= k < length pre_s + length F)%nat ->
  snd (parse_each scW scR (firstn (length ms1) cs) ms1) = true ->
  exists e, loads scR cs (firstn k stream) = (fst (parse_each scW scR (firstn (length ms1) cs) ms1), Err e).
Proof. exact stream_truncate_count. Qed.
Print Assumptions C10_truncate_count.

(* ---------------------------------------------------------------------------------------------
   every [Err] above is a Python exception: the model's fuel marker EFuel never comes out of
   load(stream, SIZE_DELIMITED), of parse, or of a run of loads
   --------------------------------------------------------------------------------------------- *)
Theorem C10_load_raises : forall sc c s e, load_delimited sc c s = Err e -> e <> EFuel.
Proof. exact load_delimited_raises. Qed.
Print Assumptions C10_load_raises.

Theorem C10_parse_raises : forall sc c bs e, parse sc c bs = Err e -> e <> EFuel.
Proof. exact parse_raises. Qed.
Print Assumptions C10_parse_raises.

Theorem C10_loads_raises : forall sc cs s l e, loads sc cs s = (l, Err e) -> e <> EFuel.
Proof. exact loads_raises. Qed.
Print Assumptions C10_loads_raises.

(* ---------------------------------------------------------------------------------------------
   non-vacuity: class A {x: int32 = 1; s: optional string = 2}, the field-less class E, the older
   reader Old {x = 1}.  Stream: an EMPTY message, a message with a set-but-empty optional string
   (prefix 04, former defect F1), a message carrying unknown fields incl. a group (former defect F2b).
   --------------------------------------------------------------------------------------------- *)
Definition ex_sc : schema :=
  mkS (builtin_classes ++
       [mkC [mkF [x78] 1 TInt32 None None None false (HPlain PyInt) 0;
             mkF [x73] 2 TString None None None true (HOptional PyStr) 0] 0;
        mkC [] 0;
        mkC [mkF [x78] 1 TInt32 None None None false (HPlain PyInt) 0] 0]) [].
Definition mE : obj := Obj 12 [] false [] [].
Definition mA : obj := Obj 11 [PInt 5; PStr []] true [] [].
Definition mU : obj := Obj 11 [PInt 1; PNone] true [x9a; x03; x01; xff; x4b; x08; x05; x4c] [].
Definition ex_stream : list byte :=
  [x00; x04; x08; x05; x12; x00; x0a; x08; x01; x9a; x03; x01; xff; x4b; x08; x05; x4c].

Example C10_ex_dump : dump_stream ex_sc [mE; mA; mU] = Ok ex_stream /\ Zlength ex_stream < 2 ^ 64.
Proof. vm_compute. split; reflexivity. Qed.

(* hypotheses of C10_framing / C10_stream_frames / C10_stream_rt, writer's classes *)
Example C10_ex_same :
  loads ex_sc [12; 11; 11]%nat ex_stream =
  ([Obj 12 [] true [] []; mA; mU], Ok []) /\
  parse_each ex_sc ex_sc [12; 11; 11]%nat [mE; mA; mU] = ([Obj 12 [] true [] []; mA; mU], true) /\
  dump ex_sc mA true = Ok [x04; x08; x05; x12; x00].
Proof. vm_compute. repeat split. Qed.

(* reader older than writer: Old does not know field 2 nor the fields mU carries as unknown *)
Example C10_ex_older :
  loads ex_sc [12; 13; 13]%nat ex_stream =
  ([Obj 12 [] true [] []; Obj 13 [PInt 5] true [x12; x00] [];
    Obj 13 [PInt 1] true [x9a; x03; x01; xff; x4b; x08; x05; x4c] []], Ok []) /\
  snd (parse_each ex_sc ex_sc [12; 13; 13]%nat [mE; mA; mU]) = true.
Proof. vm_compute. repeat split. Qed.

(* every cut point of the example stream: the number of messages returned, and how the run ends *)
Example C10_ex_cuts :
  map (fun k => let '(l, r) := loads ex_sc [12; 11; 11]%nat (firstn k ex_stream) in (length l, r)) (seq 0 18) =
  [(0, Err EEof); (1, Err EEof); (1, Err EValue); (1, Err EEof); (1, Err EValue); (1, Err EEof);
   (2, Err EEof); (2, Err EValue); (2, Err EEof); (2, Err EValue); (2, Err EEof); (2, Err EEof);
   (2, Err EEof); (2, Err EValue); (2, Err EEof); (2, Err EEof); (2, Err EEof); (3, Ok [])]%nat.
Proof. vm_compute. reflexivity. Qed.

(* hypotheses of C10_frame_ok / C10_frame_iff / C10_frame_exact with a PADDED prefix (84 00 = 4) *)
Example C10_ex_frame :
  VarintRep (Zlength [x08; x05; x12; x00]) [x84; x00] /\
  parse ex_sc 11 [x08; x05; x12; x00] = Ok mA /\
  load_delimited ex_sc 11 ([x84; x00] ++ [x08; x05; x12; x00] ++ [xff]) = Ok (mA, [xff]).
Proof. split; [repeat split; cbn; lia | vm_compute; split; reflexivity]. Qed.

(* hypotheses of C10_frame_err: a payload the reader rejects (string field holding invalid UTF-8) *)
Example C10_ex_frame_err :
  VarintRep (Zlength [x12; x01; xff]) [x03] /\ parse ex_sc 11 [x12; x01; xff] = Err EUnicode /\
  load_delimited ex_sc 11 ([x03] ++ [x12; x01; xff] ++ [x00]) = Err EUnicode.
Proof. split; [repeat split; cbn; lia | vm_compute; split; reflexivity]. Qed.

(* hypotheses of C10_underrun and C10_overrun: the prefix says 5 / 3, the payload has records of 2 + 2 bytes *)
Example C10_ex_size_errors :
  VarintRep 5 [x05] /\ Zlength [x08; x05; x12; x00] < 5 /\
  load_delimited ex_sc 11 ([x05] ++ [x08; x05; x12; x00]) = Err EValue /\
  VarintRep 3 [x03] /\ parse ex_sc 11 [x08; x05] = Ok (Obj 11 [PInt 5; PNone] true [] []) /\
  one_record [x12; x00] /\ Zlength [x08; x05] < 3 < Zlength [x08; x05] + Zlength [x12; x00] /\
  load_delimited ex_sc 11 ([x03] ++ [x08; x05] ++ [x12; x00] ++ [x07]) = Err EValue.
Proof.
  split; [repeat split; cbn; lia|]. split; [cbn; lia|]. split; [vm_compute; reflexivity|].
  split; [repeat split; cbn; lia|]. split; [vm_compute; reflexivity|].
  split; [exists 18, [x12], [x00], (mkP 2 2 0 [] [x12; x00]); vm_compute; split; reflexivity|].
  split; [cbn; lia | vm_compute; reflexivity].
Qed.

(* hypotheses of C10_frame_cut and C10_truncate(_count): cut inside the prefix-less part and inside the payload *)
Example C10_ex_cut :
  VarintRep (Zlength [x08; x05; x12; x00]) [x04] /\
  [x04] ++ [x08; x05; x12; x00] = [x04; x08; x05] ++ [x12; x00] /\
  load_delimited ex_sc 11 [x04; x08; x05] = Err EValue /\
  dump_stream ex_sc [mE] = Ok [x00] /\ dump ex_sc mA true = Ok [x04; x08; x05; x12; x00] /\
  snd (parse_each ex_sc ex_sc (firstn 1 [12; 11; 11]%nat) [mE]) = true /\
  loads ex_sc [12; 11; 11]%nat (firstn 3 ex_stream) = ([Obj 12 [] true [] []], Err EEof).
Proof. split; [repeat split; cbn; lia | vm_compute; repeat split]. Qed.

(* the premise of C10_stream_rt_eq is satisfiable for a non-trivial [good] *)
Example C10_ex_rt_premise :
  forall m bs, (m = mA \/ m = mU \/ m = Obj 12 [] true [] []) -> enc_obj ex_sc m = Ok bs ->
  exists m', parse ex_sc (ocls m) bs = Ok m' /\ obj_eq ex_sc m m' = true.
Proof.
  intros m bs [-> | [-> | ->]] E; vm_compute in E; injection E as <-; eexists; split; vm_compute; reflexivity.
Qed.

(* =============================================================================================
   the round trip, end to end (C10 composed with C01 and C08)
   Side conditions, all decidable (booleans evaluated by vm_compute in the Example below):
     C01Def.c01_schema_ok sc   wf_schema + the first classes ARE the bundled ones + map-Entry classes annotated like the map
     C01Def.c01_value_ok sc m  in_range + oneof members clean + _group_current sane + no unknown bytes + dict keys distinct
     deep nan_free (PMsg m)    no NaN directly inside a list / as a map value (K7 of C01: == is not NaN-aware there);
                               needed for the == conclusions only
     msg_small sc m            bytes(m) exists and is shorter than 2^64 bytes (C01's size bound, per message)
     masks_ok sn masks         the deleted fields leave the bundled classes and the map-Entry classes alone (C08)
   No bound on the number of messages, their classes, nesting depth or sizes below 2^64; [rest] is ANY continuation.
   ============================================================================================= *)

(* (1) The stream round trip.  The writer does not raise; the successive loads with the writers' classes return EXACTLY
   the decoded forms norm_obj sc m, in order, and leave exactly [rest]; each returned message is == the written one with
   either operand on the left, has the same bytes and the same which_one_of for every group; writing the returned
   messages again gives the same stream.  Empty messages (frame 00) and mixed classes included. *)
Theorem C10_stream_roundtrip : forall sc ms rest,
  C01Def.c01_schema_ok sc = true ->
  Forall (fun m => C01Def.c01_value_ok sc m = true /\ C01Def.deep C01Def.nan_free (PMsg m) = true) ms ->
  Forall (fun m => msg_small sc m = true) ms ->
  exists stream,
    dump_stream sc ms = Ok stream /\
    loads sc (map ocls ms) (stream ++ rest) = (map (C01Def.norm_obj sc) ms, Ok rest) /\
    Forall (fun m => obj_eq sc m (C01Def.norm_obj sc m) = true /\ obj_eq sc (C01Def.norm_obj sc m) m = true /\
                     enc_obj sc (C01Def.norm_obj sc m) = enc_obj sc m /\
                     (forall g, which_one_of (C01Def.norm_obj sc m) g = which_one_of m g)) ms /\
    dump_stream sc (map (C01Def.norm_obj sc) ms) = Ok stream.
Proof. exact C10RtP.stream_roundtrip_c01. Qed.
Print Assumptions C10_stream_roundtrip.

(* ... without the NaN condition: everything but == ([same_message], Model/C10Rt.v, states == under nan_free per message,
   and adds: same class, same delimited frame, and the attribute observers of C01 under sow_ok) *)
Theorem C10_stream_decoded : forall sc ms rest,
  C01Def.c01_schema_ok sc = true ->
  Forall (fun m => C01Def.c01_value_ok sc m = true) ms -> Forall (fun m => msg_small sc m = true) ms ->
  exists stream,
    dump_stream sc ms = Ok stream /\
    loads sc (map ocls ms) (stream ++ rest) = (map (C01Def.norm_obj sc) ms, Ok rest) /\
    Forall (fun m => same_message sc m (C01Def.norm_obj sc m)) ms /\
    dump_stream sc (map (C01Def.norm_obj sc) ms) = Ok stream.
Proof. exact C10RtP.stream_decoded. Qed.
Print Assumptions C10_stream_decoded.

(* the NaN condition of the == conclusions is needed (K7 of C01 at stream level): for an empty message followed by a message
   with a NaN inside a repeated double everything else holds — exact frames, norm_obj, the same stream again — but == fails
   in both operand orders *)
Theorem C10_stream_eq_nan_refuted :
  exists sc ms stream,
    C01Def.c01_schema_ok sc = true /\ forallb (fun m => C01Def.c01_value_ok sc m && msg_small sc m) ms = true /\
    dump_stream sc ms = Ok stream /\
    loads sc (map ocls ms) stream = (map (C01Def.norm_obj sc) ms, Ok []) /\
    dump_stream sc (map (C01Def.norm_obj sc) ms) = Ok stream /\
    forallb (fun m => obj_eq sc m (C01Def.norm_obj sc m)) ms = false /\
    forallb (fun m => obj_eq sc (C01Def.norm_obj sc m) m) ms = false.
Proof. exact C10RtP.stream_eq_nan_refuted. Qed.
Print Assumptions C10_stream_eq_nan_refuted.

(* the size bound per message follows from the bound on the whole stream that the theorems above this section use *)
Theorem C10_small_of_stream : forall sc ms stream,
  dump_stream sc ms = Ok stream -> Zlength stream < 2 ^ 64 -> Forall (fun m => msg_small sc m = true) ms.
Proof. exact C10RtP.small_of_stream. Qed.
Print Assumptions C10_small_of_stream.

(* (2) Reader older than writer.  The stream written with the newer schema sn is read with the classes of
   drop_fields masks sn (ANY subset of the fields of ANY user class deleted, at every nesting depth).  No load raises and
   the run leaves exactly [rest]; for each message ([older_view], Model/C10Rt.v): the load returns what the older class
   parses from bytes(m), of the same class number, and consumes exactly the frame of m whatever follows it; the older
   writer re-encodes it to as many bytes, which the newer class parses to norm_obj sn m.  At stream level: the older
   writer's stream for the messages it read has the length of the original, and the newer classes read it back, whatever
   follows it, as exactly [norm_obj sn m | m in ms] — the messages (1) returns, == the written ones ([same_message]). *)
Theorem C10_stream_older_reader : forall sn masks ms rest,
  C01Def.c01_schema_ok sn = true -> C08EvoDef.masks_ok sn masks = true ->
  Forall (fun m => C01Def.c01_value_ok sn m = true) ms -> Forall (fun m => msg_small sn m = true) ms ->
  exists stream mos stream2,
    dump_stream sn ms = Ok stream /\
    Forall2 (older_view sn masks) ms mos /\
    loads (C08Step.drop_fields masks sn) (map ocls ms) (stream ++ rest) = (mos, Ok rest) /\
    dump_stream (C08Step.drop_fields masks sn) mos = Ok stream2 /\ length stream2 = length stream /\
    (forall rest', loads sn (map ocls ms) (stream2 ++ rest') = (map (C01Def.norm_obj sn) ms, Ok rest')) /\
    Forall (fun m => same_message sn m (C01Def.norm_obj sn m)) ms.
Proof. exact C10RtOldP.stream_older_reader. Qed.
Print Assumptions C10_stream_older_reader.

(* (3) Truncation, headline form.  The stream of (1) cut after ANY number k of bytes (k beyond the end: no cut): the loads
   return exactly the decoded forms of the first [whole_frames sc ms k] messages — those whose frames lie wholly before
   the cut — each == the written one; then, when something was cut off, the next load raises a Python exception (never
   the model's fuel marker) and strictly fewer than all messages came back; otherwise all came back and nothing is left.
   A shortened or otherwise different message is never returned. *)
Theorem C10_truncate_roundtrip : forall sc ms stream k,
  C01Def.c01_schema_ok sc = true ->
  Forall (fun m => C01Def.c01_value_ok sc m = true /\ C01Def.deep C01Def.nan_free (PMsg m) = true) ms ->
  Forall (fun m => msg_small sc m = true) ms ->
  dump_stream sc ms = Ok stream ->
  exists r,
    loads sc (map ocls ms) (firstn k stream) = (map (C01Def.norm_obj sc) (firstn (whole_frames sc ms k) ms), r) /\
    (if (k <? length stream)%nat
     then (exists e, r = Err e /\ e <> EFuel) /\ (whole_frames sc ms k < length ms)%nat
     else r = Ok [] /\ whole_frames sc ms k = length ms) /\
    Forall (fun m => obj_eq sc m (C01Def.norm_obj sc m) = true /\ obj_eq sc (C01Def.norm_obj sc m) m = true /\
                     enc_obj sc (C01Def.norm_obj sc m) = enc_obj sc m /\
                     (forall g, which_one_of (C01Def.norm_obj sc m) g = which_one_of m g))
           (firstn (whole_frames sc ms k) ms).
Proof. exact C10RtCutP.stream_truncate_roundtrip. Qed.
Print Assumptions C10_truncate_roundtrip.

(* what whole_frames counts: a cut inside the stream falls into the frame of exactly one message, and the whole frames
   are those of the messages before it *)
Theorem C10_whole_frames : forall sc ms stream k,
  Forall (fun m => msg_small sc m = true) ms ->
  dump_stream sc ms = Ok stream -> (k < length stream)%nat ->
  exists ms1 m ms2 pre_s F,
    ms = ms1 ++ m :: ms2 /\ dump_stream sc ms1 = Ok pre_s /\ dump sc m true = Ok F /\
    (length pre_s <= k < length pre_s + length F)%nat /\ whole_frames sc ms k = length ms1.
Proof. exact C10RtCutP.whole_frames_spec. Qed.
Print Assumptions C10_whole_frames.

(* (3) for a reader older than the writer: the cut stream gives exactly the first whole_frames of the messages the
   older reader returns from the uncut stream (each an [older_view] of the written one), then raises *)
Theorem C10_truncate_older_reader : forall sn masks ms stream k,
  C01Def.c01_schema_ok sn = true -> C08EvoDef.masks_ok sn masks = true ->
  Forall (fun m => C01Def.c01_value_ok sn m = true) ms -> Forall (fun m => msg_small sn m = true) ms ->
  dump_stream sn ms = Ok stream ->
  exists mos r,
    Forall2 (older_view sn masks) ms mos /\
    loads (C08Step.drop_fields masks sn) (map ocls ms) (firstn k stream) = (firstn (whole_frames sn ms k) mos, r) /\
    (if (k <? length stream)%nat
     then (exists e, r = Err e /\ e <> EFuel) /\ (whole_frames sn ms k < length ms)%nat
     else r = Ok [] /\ whole_frames sn ms k = length ms).
Proof. exact C10RtCutP.stream_older_truncate. Qed.
Print Assumptions C10_truncate_older_reader.

(* (3) for ANY reader schema / classes that parse every payload (the generic form both of the above instantiate) *)
Theorem C10_truncate_any_reader : forall scW scR ms cs stream k l,
  Forall (fun m => msg_small scW m = true) ms ->
  dump_stream scW ms = Ok stream -> length cs = length ms ->
  parse_each scW scR cs ms = (l, true) ->
  exists r, loads scR cs (firstn k stream) = (firstn (whole_frames scW ms k) l, r) /\
            (if (k <? length stream)%nat
             then (exists e, r = Err e /\ e <> EFuel) /\ (whole_frames scW ms k < length ms)%nat
             else r = Ok [] /\ whole_frames scW ms k = length ms).
Proof. exact C10RtCutP.stream_cut_total. Qed.
Print Assumptions C10_truncate_any_reader.

(* ---------------------------------------------------------------------------------------------
   non-vacuity of the round-trip section: class 11 {x: int32 = 1; s: optional string = 2; n: message(11) = 3;
   oneof 0 {u1: string = 4; u2: sint64 = 5}; r: repeated double = 6} (recursive), the field-less class 12.
   Three messages of the two classes, the middle one EMPTY (frame 00, flag down before / up after the round trip):
   a nested message with a set-but-empty optional string and a negative int32, a selected oneof member, a packed list;
   a message whose selected oneof member holds its default "" and whose serialized_on_wire flag is down.
   The older reader loses x, s, u1 and r (a oneof member deleted while its sibling is kept), in the nested message too.
   --------------------------------------------------------------------------------------------- *)
Definition rt_sc : schema :=
  mkS (builtin_classes ++
       [mkC [mkF [x78] 1 TInt32 None None None false (HPlain PyInt) 0;
             mkF [x73] 2 TString None None None true (HOptional PyStr) 0;
             mkF [x6e] 3 TMessage None None None false (HPlain (PyMsg 11)) 0;
             mkF [x75; x31] 4 TString None (Some 0%nat) None false (HPlain PyStr) 0;
             mkF [x75; x32] 5 TSInt64 None (Some 0%nat) None false (HPlain PyInt) 0;
             mkF [x72] 6 TDouble None None None false (HList PyFloat) 0] 1;
        mkC [] 0]) [].
Definition rt_inner : obj :=
  Obj 11 [PInt (-1); PStr []; PPlaceholder; PPlaceholder; PPlaceholder; PPlaceholder] true [] [None].
Definition rt_m1 : obj :=
  Obj 11 [PInt 150; PNone; PMsg rt_inner; PPlaceholder; PInt (-2); PList [PFloat 4609434218613702656]] true [] [Some 4%nat].
Definition rt_m2 : obj := Obj 12 [] false [] [].
Definition rt_m3 : obj :=
  Obj 11 [PPlaceholder; PStr [x68; x69]; PPlaceholder; PStr []; PPlaceholder; PPlaceholder] false [] [Some 3%nat].
Definition rt_ms : list obj := [rt_m1; rt_m2; rt_m3].
Definition rt_masks : list (list bool) :=
  [[]; []; []; []; []; []; []; []; []; []; []; [false; false; true; false; true; false]].
Definition rt_stream : list byte :=
  [x1e; x08; x96; x01; x1a; x0d; x08; xff; xff; xff; xff; xff; xff; xff; xff; xff; x01; x12; x00; x28; x03; x32; x08;
   x00; x00; x00; x00; x00; x00; xf8; x3f;
   x00;
   x06; x12; x02; x68; x69; x22; x00].

(* hypotheses of C10_stream_roundtrip / C10_stream_decoded / C10_truncate_roundtrip, and what they conclude here *)
Example C10_ex_roundtrip :
  C01Def.c01_schema_ok rt_sc = true /\
  forallb (fun m => C01Def.c01_value_ok rt_sc m && C01Def.deep C01Def.nan_free (PMsg m) && msg_small rt_sc m) rt_ms = true /\
  map ocls rt_ms = [11; 12; 11]%nat /\
  dump_stream rt_sc rt_ms = Ok rt_stream /\
  loads rt_sc (map ocls rt_ms) (rt_stream ++ [xff]) = (map (C01Def.norm_obj rt_sc) rt_ms, Ok [xff]) /\
  map (C01Def.norm_obj rt_sc) rt_ms <> rt_ms /\
  forallb (fun m => obj_eq rt_sc m (C01Def.norm_obj rt_sc m) && obj_eq rt_sc (C01Def.norm_obj rt_sc m) m) rt_ms = true.
Proof. vm_compute. repeat split; try reflexivity. discriminate. Qed.

(* hypotheses of C10_small_of_stream, C10_whole_frames (with C10_ex_truncate below) and C10_truncate_any_reader *)
Example C10_ex_small_any :
  dump_stream rt_sc rt_ms = Ok rt_stream /\ Zlength rt_stream < 2 ^ 64 /\
  length (map ocls rt_ms) = length rt_ms /\
  parse_each rt_sc rt_sc (map ocls rt_ms) rt_ms = (map (C01Def.norm_obj rt_sc) rt_ms, true) /\
  (17 < length rt_stream)%nat /\ whole_frames rt_sc rt_ms 17 = 0%nat /\ whole_frames rt_sc rt_ms 33 = 2%nat.
Proof. vm_compute. repeat split; reflexivity || lia || (repeat constructor). Qed.

Example C10_ex_roundtrip_hyps :
  Forall (fun m => C01Def.c01_value_ok rt_sc m = true /\ C01Def.deep C01Def.nan_free (PMsg m) = true) rt_ms /\
  Forall (fun m => msg_small rt_sc m = true) rt_ms.
Proof. split; repeat constructor. Qed.

(* hypotheses of C10_stream_older_reader / C10_truncate_older_reader: the older reader keeps the deleted fields as
   unknown bytes at both nesting levels, the older writer's stream differs from the original and has its length *)
Definition rt_old : schema := C08Step.drop_fields rt_masks rt_sc.
Definition rt_mos : list obj := Eval vm_compute in fst (loads rt_old (map ocls rt_ms) rt_stream).
Definition rt_stream2 : list byte :=
  Eval vm_compute in match dump_stream rt_old rt_mos with Ok s => s | Err _ => [] end.
Example C10_ex_older_reader :
  C08EvoDef.masks_ok rt_sc rt_masks = true /\
  loads rt_old (map ocls rt_ms) (rt_stream ++ [xff]) = (rt_mos, Ok [xff]) /\
  map (fun mo => length (ounk mo)) rt_mos = [13; 0; 6]%nat /\
  dump_stream rt_old rt_mos = Ok rt_stream2 /\ rt_stream2 <> rt_stream /\ length rt_stream2 = length rt_stream /\
  loads rt_sc (map ocls rt_ms) (rt_stream2 ++ [xff]) = (map (C01Def.norm_obj rt_sc) rt_ms, Ok [xff]).
Proof. vm_compute. repeat split; try reflexivity. discriminate. Qed.

(* every cut point of the example stream: whole_frames, and how the run ends (same and older reader) *)
Definition rt_end (r : result (list byte)) : nat := match r with Ok [] => 0 | Ok _ => 1 | Err _ => 2 end.
Example C10_ex_truncate :
  length rt_stream = 39%nat /\
  map (fun k => (whole_frames rt_sc rt_ms k, rt_end (snd (loads rt_sc (map ocls rt_ms) (firstn k rt_stream))),
                 rt_end (snd (loads rt_old (map ocls rt_ms) (firstn k rt_stream))))) (seq 0 41) =
  map (fun k => ((if k <? 31 then 0 else if k <? 32 then 1 else if k <? 39 then 2 else 3)%nat,
                 (if k <? 39 then 2 else 0)%nat, (if k <? 39 then 2 else 0)%nat)) (seq 0 41) /\
  map (fun k => fst (loads rt_sc (map ocls rt_ms) (firstn k rt_stream))) (seq 0 41) =
  map (fun k => map (C01Def.norm_obj rt_sc) (firstn (whole_frames rt_sc rt_ms k) rt_ms)) (seq 0 41) /\
  map (fun k => fst (loads rt_old (map ocls rt_ms) (firstn k rt_stream))) (seq 0 41) =
  map (fun k => firstn (whole_frames rt_sc rt_ms k) rt_mos) (seq 0 41).
Proof. vm_compute. repeat split; reflexivity. Qed.

(* =============================================================================================
   GAP CLOSING (Proofs/C10GapA.v — clause-by-clause table of the property text against the theorems above —,
   Proofs/C10GapB.v; new definitions in Model/C10GapDefs.v).  Nothing above is changed.
   ============================================================================================= *)
From BP Require Import Model.C10GapDefs Proofs.C10GapA Proofs.C10GapB.
From BP Require Model.C07Ops Model.History Model.C01Reach Model.C01Parse Model.C14Pickle Model.C14UDef.
From BP Require Model.C17Typed Model.C17Nested.

(* ---- "the framing is the varint length prefix the reference implementation reads and writes" ----
   [ref_frame] (Model/C10GapDefs.v) is the reference reader of one frame: one varint n of at most ten bytes, then exactly
   n bytes; it knows no schema.  A delimited load returns (m, s') EXACTLY when the reference reader splits the stream
   into (payload, s') and parse(payload) returns m: any stream, any schema, any class, both directions. *)
Theorem C10_load_ref_frame : forall sc c s m s',
  load_delimited sc c s = Ok (m, s') <-> exists p, ref_frame s = Ok (p, s') /\ parse sc c p = Ok m.
Proof. exact load_ref_frame. Qed.
Print Assumptions C10_load_ref_frame.

(* the same without the reference reader: C10_frame_ok and C10_frame_exact as one equivalence *)
Theorem C10_load_iff : forall sc c s m s',
  load_delimited sc c s = Ok (m, s') <->
  exists pre p, s = pre ++ p ++ s' /\ VarintRep (Zlength p) pre /\ parse sc c p = Ok m.
Proof. exact load_iff. Qed.
Print Assumptions C10_load_iff.

(* every outcome of one load on ANY stream, decided by the length varint, the number of bytes behind it and parse on
   exactly the announced bytes: a bad / cut prefix raises the varint's own exception; fewer bytes than announced raise;
   otherwise the load returns what parse returns on the n bytes and leaves the rest, or raises when parse does *)
Theorem C10_load_total_spec : forall sc c s,
  (forall e, load_varint s = Err e -> load_delimited sc c s = Err e) /\
  (forall n pre r, load_varint s = Ok (n, pre, r) -> Zlength r < n -> exists e, load_delimited sc c s = Err e) /\
  (forall n pre r, load_varint s = Ok (n, pre, r) -> n <= Zlength r ->
     0 <= n /\
     match parse sc c (firstn (Z.to_nat n) r) with
     | Ok m => load_delimited sc c s = Ok (m, skipn (Z.to_nat n) r)
     | Err _ => exists e, load_delimited sc c s = Err e
     end).
Proof. exact load_total_spec. Qed.
Print Assumptions C10_load_total_spec.

(* a byte string has at most one reading as (length prefix ++ payload ++ rest), padded prefixes included *)
Theorem C10_frame_unique : forall pre p r pre' p' r',
  VarintRep (Zlength p) pre -> VarintRep (Zlength p') pre' ->
  pre ++ p ++ r = pre' ++ p' ++ r' -> pre = pre' /\ p = p' /\ r = r'.
Proof. exact frame_unique. Qed.
Print Assumptions C10_frame_unique.

(* what dump writes: the CANONICAL (shortest) varint of len(m) (C09's __len__), then bytes(m); the reference reader takes
   exactly bytes(m) off the front whatever follows *)
Theorem C10_dump_canonical : forall sc m F,
  dump sc m true = Ok F -> Zlength F < 2 ^ 64 ->
  exists pre p, F = pre ++ p /\ enc_obj sc m = Ok p /\ len_obj sc m = Ok (Zlength p) /\
                canonical (Zlength p) pre /\ VarintRep (Zlength p) pre /\
                forall rest, ref_frame (F ++ rest) = Ok (p, rest).
Proof. exact dump_canonical. Qed.
Print Assumptions C10_dump_canonical.

(* the frame is a function of the payload and determines it (any two schemas / messages) *)
Theorem C10_frame_of_payload : forall sc sc' m m' F F',
  dump sc m true = Ok F -> dump sc' m' true = Ok F' -> Zlength F < 2 ^ 64 -> Zlength F' < 2 ^ 64 ->
  (F = F' <-> enc_obj sc m = enc_obj sc' m').
Proof. exact frame_of_payload. Qed.
Print Assumptions C10_frame_of_payload.

(* the reference reader run over a written stream returns exactly the payloads bytes(m_i), in order, nothing left *)
Theorem C10_ref_frames_stream : forall sc ms stream,
  Forall (fun m => msg_small sc m = true) ms -> dump_stream sc ms = Ok stream ->
  exists ps, Forall2 (fun m p => enc_obj sc m = Ok p) ms ps /\ ref_frames (S (length stream)) stream = Ok ps.
Proof. exact ref_frames_stream. Qed.
Print Assumptions C10_ref_frames_stream.

(* "the same sequence": a stream determines the number of messages written and the bytes of each *)
Theorem C10_stream_unique : forall sc sc' ms ms' stream,
  Forall (fun m => msg_small sc m = true) ms -> Forall (fun m => msg_small sc' m = true) ms' ->
  dump_stream sc ms = Ok stream -> dump_stream sc' ms' = Ok stream ->
  Forall2 (fun m m' => enc_obj sc m = enc_obj sc' m') ms ms'.
Proof. exact stream_unique. Qed.
Print Assumptions C10_stream_unique.

(* which streams a load ACCEPTS: composition with C17's acceptance criterion (valid: Model/C17Nested.v) *)
Theorem C10_load_accept_iff : forall sc,
  wf_schema sc = true -> C17Typed.has_builtins sc -> C17Typed.entries_agree sc = true ->
  forall c s, (exists m s', load_delimited sc c s = Ok (m, s')) <->
              (exists p s', ref_frame s = Ok (p, s') /\ C17Nested.valid sc c p).
Proof. exact load_accept_iff. Qed.
Print Assumptions C10_load_accept_iff.

(* ---- "including empty messages": exactness ---- *)
Theorem C10_empty_frame_iff : forall sc m, dump sc m true = Ok [x00] <-> enc_obj sc m = Ok [].
Proof. exact empty_frame_iff. Qed.
Print Assumptions C10_empty_frame_iff.

Theorem C10_empty_first_byte : forall sc m F rest,
  dump sc m true = Ok (x00 :: F) -> Zlength (x00 :: F) < 2 ^ 64 ->
  F = [] /\ enc_obj sc m = Ok [] /\ forall c, load_delimited sc c (x00 :: F ++ rest) = Ok (sow_true (new sc c), rest).
Proof. exact empty_first_byte. Qed.
Print Assumptions C10_empty_first_byte.

(* ---- "each call consuming exactly its own message": the stream position BETWEEN the calls ----
   after the first j loads exactly the frames of the remaining messages (and what followed the stream) are unread, and the
   remaining loads read exactly those *)
Theorem C10_loads_positions : forall scW scR ms cs stream rest l j,
  Forall (fun m => msg_small scW m = true) ms ->
  dump_stream scW ms = Ok stream -> length cs = length ms ->
  parse_each scW scR cs ms = (l, true) ->
  exists done todo,
    dump_stream scW (firstn j ms) = Ok done /\ dump_stream scW (skipn j ms) = Ok todo /\ stream = done ++ todo /\
    loads scR (firstn j cs) (stream ++ rest) = (firstn j l, Ok (todo ++ rest)) /\
    loads scR (skipn j cs) (todo ++ rest) = (skipn j l, Ok rest).
Proof. exact loads_positions. Qed.
Print Assumptions C10_loads_positions.

(* ---- faults other than a cut ("fault_sequences"): two streams that agree on their first k bytes — one of them cut,
   overwritten or followed by garbage from byte k on — return the same messages for every frame read inside the k bytes ---- *)
Theorem C10_loads_fault : forall sc cs k s1 s2,
  agree_upto k s1 s2 ->
  let l := fst (loads sc cs (firstn k s1)) in
  firstn (length l) (fst (loads sc cs s1)) = l /\ firstn (length l) (fst (loads sc cs s2)) = l.
Proof. exact loads_fault. Qed.
Print Assumptions C10_loads_fault.

Theorem C10_stream_fault_any_reader : forall scW scR ms cs stream k l s2,
  Forall (fun m => msg_small scW m = true) ms ->
  dump_stream scW ms = Ok stream -> length cs = length ms ->
  parse_each scW scR cs ms = (l, true) -> agree_upto k stream s2 ->
  exists more, fst (loads scR cs s2) = firstn (whole_frames scW ms k) l ++ more.
Proof. exact stream_fault_any_reader. Qed.
Print Assumptions C10_stream_fault_any_reader.

(* a written stream damaged in ANY way from byte k on: the messages whose frames lie wholly before k come back first, each
   the decoded form of the written one ([same_message]: ==, same bytes, ...) *)
Theorem C10_stream_fault_roundtrip : forall sc ms stream k s2,
  C01Def.c01_schema_ok sc = true ->
  Forall (fun m => C01Def.c01_value_ok sc m = true) ms -> Forall (fun m => msg_small sc m = true) ms ->
  dump_stream sc ms = Ok stream -> agree_upto k stream s2 ->
  exists more, fst (loads sc (map ocls ms) s2) = map (C01Def.norm_obj sc) (firstn (whole_frames sc ms k) ms) ++ more /\
               Forall (fun m => same_message sc m (C01Def.norm_obj sc m)) (firstn (whole_frames sc ms k) ms).
Proof. exact stream_fault_roundtrip. Qed.
Print Assumptions C10_stream_fault_roundtrip.

(* "never a silently shortened message", as bytes: whatever a cut run returns re-encodes to the bytes / frame written *)
Theorem C10_returned_same_bytes : forall sc ms stream k,
  C01Def.c01_schema_ok sc = true ->
  Forall (fun m => C01Def.c01_value_ok sc m = true) ms -> Forall (fun m => msg_small sc m = true) ms ->
  dump_stream sc ms = Ok stream ->
  exists j, (j <= length ms)%nat /\
    Forall2 (fun m m' => enc_obj sc m' = enc_obj sc m /\ dump sc m' true = dump sc m true)
            (firstn j ms) (fst (loads sc (map ocls ms) (firstn k stream))).
Proof. exact returned_same_bytes. Qed.
Print Assumptions C10_returned_same_bytes.

Theorem C10_whole_frames_mono : forall sc ms k k', (k <= k')%nat -> (whole_frames sc ms k <= whole_frames sc ms k')%nat.
Proof. exact whole_frames_mono. Qed.
Print Assumptions C10_whole_frames_mono.

Theorem C10_whole_frames_le : forall sc ms k, (whole_frames sc ms k <= length ms)%nat.
Proof. exact whole_frames_le. Qed.
Print Assumptions C10_whole_frames_le.

(* ---- the value hypotheses discharged for what the public API produces (C01's reachability theorems) ----
   [reached sc (c, ops) m]: m is what the history ops produces from a fresh instance of class c, and the history meets the
   decidable operation-level conditions of C01 (hist_ok op_reach_ok_p).  For ANY sequence of such objects: the round trip,
   the attribute observers (obs_top), the same stream again, and the truncation statement at every cut point. *)
Theorem C10_stream_roundtrip_reachable : forall sc hs ms rest,
  C01Def.c01_schema_ok sc = true -> Forall2 (reached sc) hs ms -> Forall (fun m => msg_small sc m = true) ms ->
  exists stream,
    dump_stream sc ms = Ok stream /\
    loads sc (map ocls ms) (stream ++ rest) = (map (C01Def.norm_obj sc) ms, Ok rest) /\
    Forall (fun m => same_message sc m (C01Def.norm_obj sc m) /\ C01Def.obs_top sc m (C01Def.norm_obj sc m) = true) ms /\
    dump_stream sc (map (C01Def.norm_obj sc) ms) = Ok stream /\
    forall k, exists r,
      loads sc (map ocls ms) (firstn k stream) = (map (C01Def.norm_obj sc) (firstn (whole_frames sc ms k) ms), r) /\
      cut_end stream k (whole_frames sc ms k) (length ms) r.
Proof. exact stream_roundtrip_reachable. Qed.
Print Assumptions C10_stream_roundtrip_reachable.

Theorem C10_older_reader_reachable : forall sn masks hs ms rest,
  C01Def.c01_schema_ok sn = true -> C08EvoDef.masks_ok sn masks = true ->
  Forall2 (reached sn) hs ms -> Forall (fun m => msg_small sn m = true) ms ->
  exists stream mos stream2,
    dump_stream sn ms = Ok stream /\
    Forall2 (older_view sn masks) ms mos /\
    loads (C08Step.drop_fields masks sn) (map ocls ms) (stream ++ rest) = (mos, Ok rest) /\
    dump_stream (C08Step.drop_fields masks sn) mos = Ok stream2 /\ length stream2 = length stream /\
    (forall rest', loads sn (map ocls ms) (stream2 ++ rest') = (map (C01Def.norm_obj sn) ms, Ok rest')) /\
    forall k, exists r,
      loads (C08Step.drop_fields masks sn) (map ocls ms) (firstn k stream) = (firstn (whole_frames sn ms k) mos, r) /\
      cut_end stream k (whole_frames sn ms k) (length ms) r.
Proof. exact older_reader_reachable. Qed.
Print Assumptions C10_older_reader_reachable.

(* ---- "messages with unknown fields", end to end: the WRITTEN messages carry _unknown_fields, at any nesting depth ----
   c14u_value_ok (Model/C14UDef.v) is c01_value_ok with "no unknown bytes" replaced, at every depth, by "the unknown bytes are
   complete records the class keeps verbatim" (what Message.parse leaves there); normu_obj is norm_obj keeping them.
   [unk_view]: same bytes and frame, same _unknown_fields, class, which_one_of, == both ways (NaN-free). *)
Theorem C10_stream_roundtrip_unknown : forall sc ms rest,
  C01Def.c01_schema_ok sc = true ->
  Forall (fun m => C14UDef.c14u_value_ok sc m = true) ms -> Forall (fun m => msg_small sc m = true) ms ->
  exists stream,
    dump_stream sc ms = Ok stream /\
    loads sc (map ocls ms) (stream ++ rest) = (map (C14UDef.normu_obj sc) ms, Ok rest) /\
    Forall (fun m => unk_view sc m (C14UDef.normu_obj sc m)) ms /\
    dump_stream sc (map (C14UDef.normu_obj sc) ms) = Ok stream /\
    forall k, exists r,
      loads sc (map ocls ms) (firstn k stream) = (map (C14UDef.normu_obj sc) (firstn (whole_frames sc ms k) ms), r) /\
      cut_end stream k (whole_frames sc ms k) (length ms) r.
Proof. exact stream_roundtrip_unknown. Qed.
Print Assumptions C10_stream_roundtrip_unknown.

(* the condition on the unknown bytes is needed (inside the model: parse never leaves such bytes): _unknown_fields holding a
   record of a DECLARED field are read back into the field — a different message *)
Theorem C10_stream_unknown_needs_records_refuted :
  exists sc m stream m',
    C01Def.c01_schema_ok sc = true /\ C01Def.c01_value_ok sc (C08Step.clear_unk m) = true /\ msg_small sc m = true /\
    C14Pickle.unk_records_ok sc m = false /\ C14UDef.c14u_value_ok sc m = false /\
    dump_stream sc [m] = Ok stream /\ loads sc [ocls m] stream = ([m'], Ok []) /\
    ounk m' = [] /\ obj_eq sc m m' = false /\ obj_eq sc m' m = false /\ enc_obj sc m' <> enc_obj sc m.
Proof. exact stream_unknown_needs_records_refuted. Qed.
Print Assumptions C10_stream_unknown_needs_records_refuted.

(* ---------------------------------------------------------------------------------------------
   non-vacuity of the gap-closing section
   --------------------------------------------------------------------------------------------- *)
(* C10_load_ref_frame / _load_iff / _load_total_spec / _frame_unique / _ref_frames_stream / _dump_canonical: the reference
   reader on the example stream of the first section (an empty frame, a frame with a set-but-empty optional string, a frame
   with unknown fields incl. a group), a padded prefix, an under-run and a cut prefix *)
Example C10_ex_ref_frame :
  ref_frame ex_stream = Ok ([], tl ex_stream) /\
  ref_frames (S (length ex_stream)) ex_stream =
    Ok [[]; [x08; x05; x12; x00]; [x08; x01; x9a; x03; x01; xff; x4b; x08; x05; x4c]] /\
  Forall (fun m => msg_small ex_sc m = true) [mE; mA; mU] /\
  ref_frame ([x84; x00] ++ [x08; x05; x12; x00] ++ [xff]) = Ok ([x08; x05; x12; x00], [xff]) /\
  load_varint [x05; x08; x05; x12; x00] = Ok (5, [x05], [x08; x05; x12; x00]) /\ ref_frame [x05; x08; x05; x12; x00] = Err EEof /\
  load_varint [x84] = Err EEof /\ load_delimited ex_sc 11 [x84] = Err EEof /\
  load_varint [x03; x12; x01; xff; x00] = Ok (3, [x03], [x12; x01; xff; x00]) /\
  (exists pre p, dump ex_sc mA true = Ok (pre ++ p) /\ pre = [x04] /\ canonical (Zlength p) pre /\ len_obj ex_sc mA = Ok 4).
Proof.
  split; [vm_compute; reflexivity|]. split; [vm_compute; reflexivity|]. split; [repeat constructor|].
  split; [vm_compute; reflexivity|]. split; [vm_compute; reflexivity|]. split; [vm_compute; reflexivity|].
  split; [vm_compute; reflexivity|]. split; [vm_compute; reflexivity|]. split; [vm_compute; reflexivity|].
  exists [x04], [x08; x05; x12; x00]. split; [vm_compute; reflexivity|]. split; [reflexivity|].
  split; [|vm_compute; reflexivity]. split; [cbn; lia|]. split; [reflexivity | left; reflexivity].
Qed.

(* C10_stream_unique / C10_frame_of_payload: two different objects (flag down / flag up) with the same bytes give the same stream *)
Example C10_ex_unique :
  dump_stream ex_sc [mE; mA] = dump_stream ex_sc [Obj 12 [] true [] []; mA] /\ mE <> Obj 12 [] true [] [] /\
  dump ex_sc mE true = Ok [x00] /\ enc_obj ex_sc mE = Ok [] /\ dump ex_sc mA true <> dump ex_sc mU true.
Proof. vm_compute. repeat split; try reflexivity; discriminate. Qed.

(* C10_load_accept_iff: its schema hypotheses hold of the round-trip schema *)
Example C10_ex_accept : wf_schema rt_sc = true /\ C17Typed.has_builtins rt_sc /\ C17Typed.entries_agree rt_sc = true.
Proof. split; [vm_compute; reflexivity|]. split; [eexists; reflexivity | vm_compute; reflexivity]. Qed.

(* C10_loads_positions on the round-trip stream: after one load the frames of the two remaining messages are unread *)
Example C10_ex_positions :
  loads rt_sc (firstn 1 (map ocls rt_ms)) (rt_stream ++ [xff]) =
    (firstn 1 (map (C01Def.norm_obj rt_sc) rt_ms), Ok (skipn 31 rt_stream ++ [xff])) /\
  dump_stream rt_sc (skipn 1 rt_ms) = Ok (skipn 31 rt_stream).
Proof. vm_compute. split; reflexivity. Qed.

(* C10_loads_fault / C10_stream_fault_*: the round-trip stream with everything from byte 33 on overwritten (the third frame's
   payload becomes an unterminated varint): the first two messages come back unchanged, the third load raises *)
Definition rt_damaged : list byte := firstn 33 rt_stream ++ [xff; xff; xff; xff; xff; xff].
Example C10_ex_fault :
  agree_upto 33 rt_stream rt_damaged /\ rt_damaged <> rt_stream /\ length rt_damaged = length rt_stream /\
  whole_frames rt_sc rt_ms 33 = 2%nat /\
  loads rt_sc (map ocls rt_ms) rt_damaged = (map (C01Def.norm_obj rt_sc) (firstn 2 rt_ms), Err EEof).
Proof. vm_compute. repeat split; try reflexivity. discriminate. Qed.

(* C10_stream_roundtrip_reachable / C10_older_reader_reachable: three histories over the two classes — constructor + setattr of a
   oneof member + a lazy read; the EMPTY history (an untouched instance, frame 00); a parse into a fresh instance followed by
   an assignment through a lazily created sub-message *)
Definition g_h1 : nat * list C07Ops.op7 :=
  (11%nat, [C07Ops.OConstruct [(0%nat, PInt 150)]; C07Ops.OBase (History.OSet [] 4 (PInt (-2))); C07Ops.OBase (History.OGet [] 1)]).
Definition g_h2 : nat * list C07Ops.op7 := (12%nat, []).
Definition g_h3 : nat * list C07Ops.op7 :=
  (11%nat, [C07Ops.OBase (History.OParse [x12; x02; x68; x69]); C07Ops.OBase (History.OSet [2%nat] 0 (PInt (-1)))]).
Definition g_m1 : obj := Obj 11 [PInt 150; PNone; PPlaceholder; PPlaceholder; PInt (-2); PPlaceholder] true [] [Some 4%nat].
Definition g_m3 : obj :=
  Obj 11 [PPlaceholder; PStr [x68; x69];
          PMsg (Obj 11 [PInt (-1); PNone; PPlaceholder; PPlaceholder; PPlaceholder; PPlaceholder] true [] [None]);
          PPlaceholder; PPlaceholder; PPlaceholder] true [] [None].
Example C10_ex_reached :
  Forall2 (reached rt_sc) [g_h1; g_h2; g_h3] [g_m1; rt_m2; g_m3] /\
  Forall (fun m => msg_small rt_sc m = true) [g_m1; rt_m2; g_m3] /\
  C08EvoDef.masks_ok rt_sc rt_masks = true /\
  dump_stream rt_sc [g_m1; rt_m2; g_m3] =
    Ok [x05; x08; x96; x01; x28; x03; x00; x11; x12; x02; x68; x69; x1a; x0b; x08; xff; xff; xff; xff; xff; xff; xff; xff; xff; x01].
Proof.
  split; [repeat constructor; vm_compute; reflexivity|]. split; [repeat constructor|]. split; vm_compute; reflexivity.
Qed.

(* C10_stream_roundtrip_unknown: the first message carries unknown bytes at the top level (a group) AND inside its nested
   message (a padded-tag record); c01_value_ok rejects it, c14u_value_ok accepts it; both sets of unknown bytes come back *)
Definition g_u1 : obj :=
  Obj 11 [PInt 150; PNone;
          PMsg (Obj 11 [PInt (-1); PStr []; PPlaceholder; PPlaceholder; PPlaceholder; PPlaceholder] true [x9a; x03; x01; xff] [None]);
          PPlaceholder; PInt (-2); PList [PFloat 4609434218613702656]] true [x4b; x08; x05; x4c] [Some 4%nat].
Example C10_ex_unknown :
  C01Def.c01_value_ok rt_sc g_u1 = false /\
  forallb (fun m => C14UDef.c14u_value_ok rt_sc m && msg_small rt_sc m) [g_u1; rt_m2] = true /\
  (exists stream, dump_stream rt_sc [g_u1; rt_m2] = Ok stream /\ length stream = 40%nat /\
     loads rt_sc [11; 12]%nat (stream ++ [xff]) = ([g_u1; Obj 12 [] true [] []], Ok [xff]) /\
     loads rt_sc [11; 12]%nat (firstn 39 stream) = ([g_u1], Err EEof) /\
     loads rt_sc [11; 12]%nat (firstn 38 stream) = ([], Err EEof)) /\
  C14UDef.normu_obj rt_sc g_u1 = g_u1.
Proof.
  split; [vm_compute; reflexivity|]. split; [vm_compute; reflexivity|]. split; [|vm_compute; reflexivity].
  eexists. split; [vm_compute; reflexivity|]. vm_compute. repeat split; reflexivity.
Qed.

(* the two Forall hypotheses of C10_stream_roundtrip_unknown as stated *)
Example C10_ex_unknown_hyps :
  Forall (fun m => C14UDef.c14u_value_ok rt_sc m = true) [g_u1; rt_m2] /\ Forall (fun m => msg_small rt_sc m = true) [g_u1; rt_m2].
Proof. split; repeat constructor. Qed.

(* ---- the end of the stream (Proofs/C10GapC.v): after the last message a further load raises EOFError — it never returns a
   phantom empty message —, for any reader that parses every payload and any further classes ---- *)
From BP Require Import Proofs.C10GapC.
Theorem C10_load_at_end : forall sc c, load_delimited sc c [] = Err EEof.
Proof. exact load_at_end. Qed.
Print Assumptions C10_load_at_end.

Theorem C10_loads_past_end : forall scW scR ms cs stream l c cs',
  Forall (fun m => msg_small scW m = true) ms ->
  dump_stream scW ms = Ok stream -> length cs = length ms ->
  parse_each scW scR cs ms = (l, true) ->
  loads scR (cs ++ c :: cs') stream = (l, Err EEof).
Proof. exact loads_past_end. Qed.
Print Assumptions C10_loads_past_end.

Example C10_ex_past_end :
  loads rt_sc (map ocls rt_ms ++ [12%nat]) rt_stream = (map (C01Def.norm_obj rt_sc) rt_ms, Err EEof) /\
  loads rt_sc (map ocls rt_ms ++ [12%nat]) (rt_stream ++ [x00]) =
    (map (C01Def.norm_obj rt_sc) rt_ms ++ [Obj 12 [] true [] []], Ok []).
Proof. vm_compute. split; reflexivity. Qed.
