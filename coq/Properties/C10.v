(* C10 — Delimited streams read back intact; truncation never yields a partial message.

   Models: [dump sc m true] = m.dump(stream, SIZE_DELIMITED) (Model/Len.v: the prefix comes from the separate
   __len__ walk), [load_delimited sc c s] = Cls().load(stream, SIZE_DELIMITED) (Model/Decode.v: prefix varint,
   read/size accounting, the size == 0 case, the three size errors), [parse sc c bs] = Cls().parse(bs),
   [dump_stream] / [loads] / [parse_each] = several of them on one stream (Model/C10Stream.v).
   A stream is the list of unread bytes.  No theorem below has a hypothesis on the schema, on the class the reader
   uses or on the bytes that follow a frame; the only side condition is that a stream is shorter than 2^64 bytes
   (a longer length does not fit the 10-byte varint load_varint accepts).
   This file holds only statements; each proof is one [exact] of a lemma from Proofs/C10*P.v. *)
From BP Require Import Base.Prelude Model.Types Model.Varint Model.Object Model.Eq Model.Encode Model.Len Model.Decode.
From BP Require Import Model.C10Stream Spec.Varint.
From BP Require Import Proofs.C10FrameP Proofs.C10StreamP Proofs.C10TotalP.

(* ---------------------------------------------------------------------------------------------
   one frame
   --------------------------------------------------------------------------------------------- *)

(* What dump(stream, SIZE_DELIMITED) writes is varint(|bytes(m)|) ++ bytes(m) (C09), and a reader of ANY schema
   and class — the writer's, an older one, an unrelated one — consumes exactly that frame, whatever follows it,
   and returns what it returns from parse(bytes(m)); it raises iff parse(bytes(m)) raises. *)
Theorem C10_framing : forall scW scR m F,
  dump scW m true = Ok F -> Zlength F < 2 ^ 64 ->
  exists pre p, enc_obj scW m = Ok p /\ encode_varint (Zlength p) = Ok pre /\ F = pre ++ p /\
    forall c rest,
      match parse scR c p with
      | Ok m' => load_delimited scR c (F ++ rest) = Ok (m', rest)
      | Err _ => exists e', load_delimited scR c (F ++ rest) = Err e'
      end.
Proof. exact dump_frame_load. Qed.
Print Assumptions C10_framing.

(* The same for an arbitrary payload and any legal length prefix (padded varints included): the payload may hold
   unknown fields, groups, anything parse accepts; byte accounting counts every parsed record. *)
Theorem C10_frame_ok : forall sc c pre p rest m,
  VarintRep (Zlength p) pre -> parse sc c p = Ok m ->
  load_delimited sc c (pre ++ p ++ rest) = Ok (m, rest).
Proof. exact frame_load_ok. Qed.
Print Assumptions C10_frame_ok.

Theorem C10_frame_err : forall sc c pre p rest e,
  VarintRep (Zlength p) pre -> parse sc c p = Err e ->
  exists e', load_delimited sc c (pre ++ p ++ rest) = Err e'.
Proof. exact frame_load_err. Qed.
Print Assumptions C10_frame_err.

Theorem C10_frame_iff : forall sc c pre p rest m r',
  VarintRep (Zlength p) pre -> load_delimited sc c (pre ++ p ++ rest) = Ok (m, r') ->
  r' = rest /\ parse sc c p = Ok m.
Proof. exact frame_load_inv. Qed.
Print Assumptions C10_frame_iff.

(* On ANY stream: a delimited load that returns has read one varint n, then EXACTLY n bytes, and returns what
   parse returns on those n bytes alone. *)
Theorem C10_frame_exact : forall sc c s m s',
  load_delimited sc c s = Ok (m, s') ->
  exists pre p, load_varint s = Ok (Zlength p, pre, p ++ s') /\ parse sc c p = Ok m.
Proof. exact frame_load_exact. Qed.
Print Assumptions C10_frame_exact.

Theorem C10_load_consumes_exactly : forall sc c s m s',
  load_delimited sc c s = Ok (m, s') ->
  exists n pre, load_varint s = Ok (n, pre, skipn (length pre) s) /\ 0 <= n /\
                Zlength s - Zlength s' = Zlength pre + n.
Proof. exact load_consumes_exactly. Qed.
Print Assumptions C10_load_consumes_exactly.

(* the empty message: its frame is the byte 00 and nothing after it is touched (former defect F2a) *)
Theorem C10_empty_frame : forall sc c rest,
  load_delimited sc c (x00 :: rest) = Ok (sow_true (new sc c), rest).
Proof. exact empty_frame. Qed.
Print Assumptions C10_empty_frame.

(* ---------------------------------------------------------------------------------------------
   the three size errors
   --------------------------------------------------------------------------------------------- *)

(* under-run: fewer bytes on the stream than announced *)
Theorem C10_underrun : forall sc c pre t n,
  VarintRep n pre -> Zlength t < n -> exists e, load_delimited sc c (pre ++ t) = Err e.
Proof. exact load_underrun. Qed.
Print Assumptions C10_underrun.

(* over-run: the complete records [a] of the payload stop short of the announced size and the next record
   [rec] crosses it: ValueError, whatever follows *)
Theorem C10_overrun : forall sc c pre n a rec rest m,
  VarintRep n pre -> parse sc c a = Ok m -> one_record rec ->
  Zlength a < n -> n < Zlength a + Zlength rec ->
  load_delimited sc c (pre ++ a ++ rec ++ rest) = Err EValue.
Proof. exact frame_overrun. Qed.
Print Assumptions C10_overrun.

(* any strict prefix of a frame (cut inside the length varint or inside the payload): the load raises *)
Theorem C10_frame_cut : forall sc c pre p t x,
  VarintRep (Zlength p) pre -> pre ++ p = t ++ x -> x <> [] ->
  exists e, load_delimited sc c t = Err e.
Proof. exact frame_cut_err. Qed.
Print Assumptions C10_frame_cut.

(* a load that returned does not depend on what follows the bytes it consumed *)
Theorem C10_load_prefix_stable : forall sc c t m r more,
  load_delimited sc c t = Ok (m, r) -> load_delimited sc c (t ++ more) = Ok (m, r ++ more).
Proof. exact load_prefix_stable. Qed.
Print Assumptions C10_load_prefix_stable.

(* ---------------------------------------------------------------------------------------------
   streams
   --------------------------------------------------------------------------------------------- *)

(* Any list of messages of mixed classes, written by schema scW and read by schema scR with classes cs (the same,
   older or different ones): the successive loads return exactly parse(bytes(m_i)) for each frame in turn, stop at
   the first payload the reader's parse rejects, and otherwise leave exactly what followed the stream. *)
Theorem C10_stream_frames : forall scW scR ms cs stream rest,
  dump_stream scW ms = Ok stream -> Zlength stream < 2 ^ 64 -> length cs = length ms ->
  exists r, loads scR cs (stream ++ rest) = (fst (parse_each scW scR cs ms), r) /\
            (if snd (parse_each scW scR cs ms) then r = Ok rest else exists e, r = Err e).
Proof. exact stream_frames. Qed.
Print Assumptions C10_stream_frames.

Theorem C10_stream_rt : forall scW scR ms cs stream rest ms',
  dump_stream scW ms = Ok stream -> Zlength stream < 2 ^ 64 -> length cs = length ms ->
  Forall2 (fun cm m' => returns_parse scW scR (fst cm) (snd cm) m') (combine cs ms) ms' ->
  loads scR cs (stream ++ rest) = (ms', Ok rest).
Proof. exact stream_roundtrip. Qed.
Print Assumptions C10_stream_rt.

(* With the binary round trip (C01, proved elsewhere) as an explicit premise for the messages [good] holds of:
   the sequence comes back == the sequence written, and the stream is consumed exactly. *)
Theorem C10_stream_rt_eq : forall sc (good : obj -> Prop),
  (forall m bs, good m -> enc_obj sc m = Ok bs ->
     exists m', parse sc (ocls m) bs = Ok m' /\ obj_eq sc m m' = true) ->
  forall ms stream rest,
  Forall good ms -> dump_stream sc ms = Ok stream -> Zlength stream < 2 ^ 64 ->
  exists ms', loads sc (map ocls ms) (stream ++ rest) = (ms', Ok rest) /\
              Forall2 (fun m m' => obj_eq sc m m' = true) ms ms'.
Proof. exact stream_roundtrip_eq. Qed.
Print Assumptions C10_stream_rt_eq.

(* ---------------------------------------------------------------------------------------------
   truncation
   --------------------------------------------------------------------------------------------- *)

(* ANY stream, ANY classes, ANY cut point: the messages the cut stream returns are exactly the messages the uncut
   stream returns at those positions — never a shortened or otherwise different message. *)
Theorem C10_cut_prefix : forall sc cs s k,
  exists j, fst (loads sc cs (firstn k s)) = firstn j (fst (loads sc cs s)).
Proof. exact loads_cut. Qed.
Print Assumptions C10_cut_prefix.

(* A stream written by dump and cut anywhere before its end: the run of loads ends in an exception. *)
Theorem C10_truncate : forall scW scR ms cs stream k,
  dump_stream scW ms = Ok stream -> Zlength stream < 2 ^ 64 ->
  (length ms <= length cs)%nat -> (k < length stream)%nat ->
  exists j e, loads scR cs (firstn k stream) = (firstn j (fst (loads scR cs stream)), Err e).
Proof. exact stream_truncate. Qed.
Print Assumptions C10_truncate.

(* ... and the loads that return are exactly those of the frames that lie wholly before the cut: with the cut
   inside frame number |ms1|, the |ms1| earlier messages come back and the next load raises. *)
Theorem C10_truncate_count : forall scW scR ms1 m ms2 cs pre_s F stream k,
  dump_stream scW ms1 = Ok pre_s -> dump scW m true = Ok F ->
  dump_stream scW (ms1 ++ m :: ms2) = Ok stream -> Zlength stream < 2 ^ 64 ->
  (length ms1 < length cs)%nat ->
  (length pre_s <= k < length pre_s + length F)%nat ->
  snd (parse_each scW scR (firstn (length ms1) cs) ms1) = true ->
  exists e, loads scR cs (firstn k stream) = (fst (parse_each scW scR (firstn (length ms1) cs) ms1), Err e).
Proof. exact stream_truncate_count. Qed.
Print Assumptions C10_truncate_count.

(* ---------------------------------------------------------------------------------------------
   every [Err] above is a Python exception: the model's fuel marker EFuel never comes out of
   load(stream, SIZE_DELIMITED), of parse, or of a run of loads
   --------------------------------------------------------------------------------------------- *)
Theorem C10_load_raises : forall sc c s e, load_delimited sc c s = Err e -> e <> EFuel.
Proof. exact load_delimited_raises. Qed.
Print Assumptions C10_load_raises.

Theorem C10_parse_raises : forall sc c bs e, parse sc c bs = Err e -> e <> EFuel.
Proof. exact parse_raises. Qed.
Print Assumptions C10_parse_raises.

Theorem C10_loads_raises : forall sc cs s l e, loads sc cs s = (l, Err e) -> e <> EFuel.
Proof. exact loads_raises. Qed.
Print Assumptions C10_loads_raises.

(* ---------------------------------------------------------------------------------------------
   non-vacuity: class A {x: int32 = 1; s: optional string = 2}, the field-less class E, the older
   reader Old {x = 1}.  Stream: an EMPTY message, a message with a set-but-empty optional string
   (prefix 04, former defect F1), a message carrying unknown fields incl. a group (former defect F2b).
   --------------------------------------------------------------------------------------------- *)
Definition ex_sc : schema :=
  mkS (builtin_classes ++
       [mkC [mkF [x78] 1 TInt32 None None None false (HPlain PyInt) 0;
             mkF [x73] 2 TString None None None true (HOptional PyStr) 0] 0;
        mkC [] 0;
        mkC [mkF [x78] 1 TInt32 None None None false (HPlain PyInt) 0] 0]) [].
Definition mE : obj := Obj 12 [] false [] [].
Definition mA : obj := Obj 11 [PInt 5; PStr []] true [] [].
Definition mU : obj := Obj 11 [PInt 1; PNone] true [x9a; x03; x01; xff; x4b; x08; x05; x4c] [].
Definition ex_stream : list byte :=
  [x00; x04; x08; x05; x12; x00; x0a; x08; x01; x9a; x03; x01; xff; x4b; x08; x05; x4c].

Example C10_ex_dump : dump_stream ex_sc [mE; mA; mU] = Ok ex_stream /\ Zlength ex_stream < 2 ^ 64.
Proof. vm_compute. split; reflexivity. Qed.

(* hypotheses of C10_framing / C10_stream_frames / C10_stream_rt, writer's classes *)
Example C10_ex_same :
  loads ex_sc [12; 11; 11]%nat ex_stream =
  ([Obj 12 [] true [] []; mA; mU], Ok []) /\
  parse_each ex_sc ex_sc [12; 11; 11]%nat [mE; mA; mU] = ([Obj 12 [] true [] []; mA; mU], true) /\
  dump ex_sc mA true = Ok [x04; x08; x05; x12; x00].
Proof. vm_compute. repeat split. Qed.

(* reader older than writer: Old does not know field 2 nor the fields mU carries as unknown *)
Example C10_ex_older :
  loads ex_sc [12; 13; 13]%nat ex_stream =
  ([Obj 12 [] true [] []; Obj 13 [PInt 5] true [x12; x00] [];
    Obj 13 [PInt 1] true [x9a; x03; x01; xff; x4b; x08; x05; x4c] []], Ok []) /\
  snd (parse_each ex_sc ex_sc [12; 13; 13]%nat [mE; mA; mU]) = true.
Proof. vm_compute. repeat split. Qed.

(* every cut point of the example stream: the number of messages returned, and how the run ends *)
Example C10_ex_cuts :
  map (fun k => let '(l, r) := loads ex_sc [12; 11; 11]%nat (firstn k ex_stream) in (length l, r)) (seq 0 18) =
  [(0, Err EEof); (1, Err EEof); (1, Err EValue); (1, Err EEof); (1, Err EValue); (1, Err EEof);
   (2, Err EEof); (2, Err EValue); (2, Err EEof); (2, Err EValue); (2, Err EEof); (2, Err EEof);
   (2, Err EEof); (2, Err EValue); (2, Err EEof); (2, Err EEof); (2, Err EEof); (3, Ok [])]%nat.
Proof. vm_compute. reflexivity. Qed.

(* hypotheses of C10_frame_ok / C10_frame_iff / C10_frame_exact with a PADDED prefix (84 00 = 4) *)
Example C10_ex_frame :
  VarintRep (Zlength [x08; x05; x12; x00]) [x84; x00] /\
  parse ex_sc 11 [x08; x05; x12; x00] = Ok mA /\
  load_delimited ex_sc 11 ([x84; x00] ++ [x08; x05; x12; x00] ++ [xff]) = Ok (mA, [xff]).
Proof. split; [repeat split; cbn; lia | vm_compute; split; reflexivity]. Qed.

(* hypotheses of C10_frame_err: a payload the reader rejects (string field holding invalid UTF-8) *)
Example C10_ex_frame_err :
  VarintRep (Zlength [x12; x01; xff]) [x03] /\ parse ex_sc 11 [x12; x01; xff] = Err EUnicode /\
  load_delimited ex_sc 11 ([x03] ++ [x12; x01; xff] ++ [x00]) = Err EUnicode.
Proof. split; [repeat split; cbn; lia | vm_compute; split; reflexivity]. Qed.

(* hypotheses of C10_underrun and C10_overrun: the prefix says 5 / 3, the payload has records of 2 + 2 bytes *)
Example C10_ex_size_errors :
  VarintRep 5 [x05] /\ Zlength [x08; x05; x12; x00] < 5 /\
  load_delimited ex_sc 11 ([x05] ++ [x08; x05; x12; x00]) = Err EValue /\
  VarintRep 3 [x03] /\ parse ex_sc 11 [x08; x05] = Ok (Obj 11 [PInt 5; PNone] true [] []) /\
  one_record [x12; x00] /\ Zlength [x08; x05] < 3 < Zlength [x08; x05] + Zlength [x12; x00] /\
  load_delimited ex_sc 11 ([x03] ++ [x08; x05] ++ [x12; x00] ++ [x07]) = Err EValue.
Proof.
  split; [repeat split; cbn; lia|]. split; [cbn; lia|]. split; [vm_compute; reflexivity|].
  split; [repeat split; cbn; lia|]. split; [vm_compute; reflexivity|].
  split; [exists 18, [x12], [x00], (mkP 2 2 0 [] [x12; x00]); vm_compute; split; reflexivity|].
  split; [cbn; lia | vm_compute; reflexivity].
Qed.

(* hypotheses of C10_frame_cut and C10_truncate(_count): cut inside the prefix-less part and inside the payload *)
Example C10_ex_cut :
  VarintRep (Zlength [x08; x05; x12; x00]) [x04] /\
  [x04] ++ [x08; x05; x12; x00] = [x04; x08; x05] ++ [x12; x00] /\
  load_delimited ex_sc 11 [x04; x08; x05] = Err EValue /\
  dump_stream ex_sc [mE] = Ok [x00] /\ dump ex_sc mA true = Ok [x04; x08; x05; x12; x00] /\
  snd (parse_each ex_sc ex_sc (firstn 1 [12; 11; 11]%nat) [mE]) = true /\
  loads ex_sc [12; 11; 11]%nat (firstn 3 ex_stream) = ([Obj 12 [] true [] []], Err EEof).
Proof. split; [repeat split; cbn; lia | vm_compute; repeat split]. Qed.

(* the premise of C10_stream_rt_eq is satisfiable for a non-trivial [good] *)
Example C10_ex_rt_premise :
  forall m bs, (m = mA \/ m = mU \/ m = Obj 12 [] true [] []) -> enc_obj ex_sc m = Ok bs ->
  exists m', parse ex_sc (ocls m) bs = Ok m' /\ obj_eq ex_sc m m' = true.
Proof.
  intros m bs [-> | [-> | ->]] E; vm_compute in E; injection E as <-; eexists; split; vm_compute; reflexivity.
Qed.
