(* C16 - source-translation tie, zig-zag part.  gen/C16Src.v src_zigzag / src_unzigzag are the two expressions that
   harness/gen_c16_src.py lifts MECHANICALLY out of the `in (TYPE_SINT32, TYPE_SINT64)` branches of _preprocess_single
   (`return encode_varint(<expr>)`) and Message._postprocess_single (`value = <expr>`): they are the model's
   zigzag / unzigzag (Model/Scalar.v) and cannot raise, so C16_zigzag_spec / _inverse / _range of Properties/C16.v are
   theorems about the translated expressions.  NOT covered: that the enclosing dispatch reaches these branches exactly
   for sint32 / sint64 fields (that stays with the sampled correspondence).
   Built only by the "source tie" stage of harness/props/c16.py; a failure here is recorded, never a violation. *)
From BP Require Import Base.Prelude Model.Types Model.Scalar Spec.Varint Model.C16SrcLib gen.C16Src.
From BP Require Import Proofs.ScalarP Proofs.C16SrcZigzag.

Theorem C16_src_zigzag_is_model : forall v, src_zigzag v = Ok (zigzag v).
Proof. exact src_zigzag_is_model. Qed.
Print Assumptions C16_src_zigzag_is_model.

Theorem C16_src_unzigzag_is_model : forall v, src_unzigzag v = Ok (unzigzag v).
Proof. exact src_unzigzag_is_model. Qed.
Print Assumptions C16_src_unzigzag_is_model.

Theorem C16_src_zigzag_spec : forall v, src_zigzag v = Ok (zigzag_spec v).
Proof. exact src_zigzag_spec. Qed.
Print Assumptions C16_src_zigzag_spec.

Theorem C16_src_zigzag_inverse : forall v, bind (src_zigzag v) src_unzigzag = Ok v.
Proof. exact src_zigzag_inverse. Qed.
Print Assumptions C16_src_zigzag_inverse.

Example C16_src_ex_zigzag : src_zigzag (-3) = Ok 5 /\ src_unzigzag 5 = Ok (-3) /\ src_zigzag 2 = Ok 4.
Proof. vm_compute. repeat split; reflexivity. Qed.
