(* gen_tables.py failed: module 'betterproto' has no attribute 'WIRE_START_GROUP' *)
Definition translation_failed : False := I.
