(* C18: from one generated class as the PLUGIN model describes it (Model/Typing.v: a list of field descriptors and the
   options) to the class descriptor the RUNTIME model works on (Model/Object.v [cdesc]).  The runtime never sees the
   annotation TEXT: Message._type_hints evaluates it (typing.get_type_hints) and _get_field_default_gen / _cls_for /
   _postprocess_single classify the RESULT - [rt_hint] applied to Typing's denotation of the text.  Everything else in
   [fdesc] comes from FieldMetadata ([rt_meta] of Typing.field_meta).  Definitions only. *)
From BP Require Import Base.Prelude Model.Types Model.Object Model.C18Beh.
From BP Require Model.Typing.
Module Ty := BP.Model.Typing.

(* how names in annotations resolve: int, str, datetime, builtins.int, "Inner", "_pkg__.Other" ... *)
Definition env : Type := Ty.str -> option pyty.

(* the classification of a resolved annotation: Optional[X] / List[X] / Dict[K, V] / X *)
Definition rt_hint (E : env) (s : Ty.sty) : option hint :=
  match s with
  | [Ty.AName n] => option_map HPlain (E n)
  | [Ty.AName n; Ty.ANone] => option_map HOptional (E n)
  | [Ty.AList [Ty.AName n]] => option_map HList (E n)
  | [Ty.ADict [Ty.AName k] [Ty.AName v]] =>
      match E k, E v with Some a, Some b => Some (HDict a b) | _, _ => None end
  | _ => None
  end.

(* the value of a betterproto.TYPE_ constant back to the proto type *)
Definition ptype_of_name (s : Ty.str) : option ptype := find (fun t => Ty.str_eqb (Ty.ptype_name t) s) all_ptypes.

Fixpoint index_of (g : Ty.str) (l : list Ty.str) : option nat :=
  match l with
  | [] => None
  | x :: r => if Ty.str_eqb g x then Some O else option_map S (index_of g r)
  end.

(* FieldMetadata as the runtime model holds it; [groups]: the oneof names of the class in order *)
Definition rt_meta (groups : list Ty.str) (m : Ty.fmeta)
  : option (ptype * option (ptype * ptype) * option nat * option ptype) :=
  match ptype_of_name (Ty.m_proto_type m) with
  | None => None
  | Some ty =>
    match (match Ty.m_map_types m with
           | None => Some None
           | Some (k, v) => match ptype_of_name k, ptype_of_name v with Some a, Some b => Some (Some (a, b)) | _, _ => None end
           end) with
    | None => None
    | Some mp =>
      match (match Ty.m_group m with None => Some None | Some g => option_map Some (index_of g groups) end) with
      | None => None
      | Some gi =>
        match (match Ty.m_wraps m with None => Some None | Some w => option_map Some (ptype_of_name w) end) with
        | None => None
        | Some wr => Some (ty, mp, gi, wr)
        end
      end
    end
  end.

Definition rt_field (E : env) (groups : list Ty.str) (entry : nat) (o : Ty.options) (fd : Ty.fdesc) : option fdesc :=
  match Ty.annotation_str (Ty.o_compiler o) (Ty.o_pydantic o) fd with
  | None => None
  | Some text =>
    match Ty.denote text with
    | None => None
    | Some s =>
      match rt_hint E s with
      | None => None
      | Some h =>
        match rt_meta groups (Ty.field_meta o fd) with
        | None => None
        | Some (ty, mp, gi, wr) =>
            Some (mkF (Ty.fd_name fd) (Ty.m_number (Ty.field_meta o fd)) ty mp gi wr (Ty.m_optional (Ty.field_meta o fd)) h entry)
        end
      end
    end
  end.

(* [entry i]: index of the synthetic Entry class of the field at position i (map fields) *)
Fixpoint rt_fields (E : env) (groups : list Ty.str) (entry : nat -> nat) (o : Ty.options) (i : nat) (fds : list Ty.fdesc)
  : option (list fdesc) :=
  match fds with
  | [] => Some []
  | fd :: r =>
      match rt_field E groups (entry i) o fd, rt_fields E groups entry o (S i) r with
      | Some f, Some fs => Some (f :: fs)
      | _, _ => None
      end
  end.

Definition rt_class (E : env) (groups : list Ty.str) (entry : nat -> nat) (o : Ty.options) (fds : list Ty.fdesc) : option cdesc :=
  option_map (fun fs => mkC fs (length groups)) (rt_fields E groups entry o O fds).

(* the class table: bundled / other classes before and after (they carry no oneof), the generated classes between *)
Definition rt_classes (E : env) (o : Ty.options) (cls : list (list Ty.str * (nat -> nat) * list Ty.fdesc)) : option (list cdesc) :=
  (fix go (l : list (list Ty.str * (nat -> nat) * list Ty.fdesc)) : option (list cdesc) :=
     match l with
     | [] => Some []
     | (gs, en, fds) :: r =>
         match rt_class E gs en o fds, go r with Some cd, Some cds => Some (cd :: cds) | _, _ => None end
     end) cls.

Definition no_groups (cd : cdesc) : bool := forallb (fun f => match fgroup f with None => true | Some _ => false end) (cfields cd).

Definition rt_schema (E : env) (o : Ty.options) (pre post : list cdesc) (ens : list edesc)
           (cls : list (list Ty.str * (nat -> nat) * list Ty.fdesc)) : option schema :=
  option_map (fun cds => mkS (pre ++ cds ++ post) ens) (rt_classes E o cls).

(* side conditions on a field descriptor (decidable; cf. C18_field_annotation / C18_type_pydantic_same) *)
Definition member_plain (fd : Ty.fdesc) : bool :=
  match Ty.fd_label fd, Ty.ft_ref (Ty.fd_type fd) with
  | Ty.LOneof _, Some (Ty.RWrapper _) => false
  | _, _ => true
  end.

From Coq Require Import Strings.String.
Local Open Scope string_scope.
(* ---- example: message Inner { oneof pick { int32 a = 1; string b = 2; Leaf m = 3; } } as the plugin sees it ---- *)
Definition ex_env : env := fun n =>
  if Ty.str_eqb n (Ty.B "int") then Some PyInt
  else if Ty.str_eqb n (Ty.B "str") then Some PyStr
  else if Ty.str_eqb n (Ty.B "Leaf") then Some (PyMsg 11)
  else None.
Definition ex_inner_fds : list Ty.fdesc :=
  [ {| Ty.fd_name := Ty.B "a"; Ty.fd_number := 1; Ty.fd_type := {| Ty.ft_type := TInt32; Ty.ft_ref := None |};
       Ty.fd_label := Ty.LOneof (Ty.B "pick"); Ty.fd_builtins := false |};
    {| Ty.fd_name := Ty.B "b"; Ty.fd_number := 2; Ty.fd_type := {| Ty.ft_type := TString; Ty.ft_ref := None |};
       Ty.fd_label := Ty.LOneof (Ty.B "pick"); Ty.fd_builtins := false |};
    {| Ty.fd_name := Ty.B "m"; Ty.fd_number := 3; Ty.fd_type := {| Ty.ft_type := TMessage; Ty.ft_ref := Some (Ty.RLocal (Ty.B "Leaf")) |};
       Ty.fd_label := Ty.LOneof (Ty.B "pick"); Ty.fd_builtins := false |} ].
Definition ex_inner_cls : list Ty.str * (nat -> nat) * list Ty.fdesc := ([Ty.B "pick"], fun _ => O, ex_inner_fds).
