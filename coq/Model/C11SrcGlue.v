(* Glue between the vocabulary of the C11 source translation (Model/C11SrcLib.v: dicts with string keys, opaque
   objects) and the hand-written model Model/Grpc.v (record kw of three option Z, Z = identity of the object).
   Used only in the STATEMENTS of Properties/C11Src.v; nothing here is emitted by the translator.  No proofs. *)
From BP Require Import Base.Prelude Model.Grpc Model.C11SrcLib.

(* the three keyword-only names of grpclib.client.Channel.request besides the positional ones *)
Definition key_timeout : list byte := [x74; x69; x6d; x65; x6f; x75; x74].
Definition key_deadline : list byte := [x64; x65; x61; x64; x6c; x69; x6e; x65].
Definition key_metadata : list byte := [x6d; x65; x74; x61; x64; x61; x74; x61].

Definition request_keyword (k : list byte) : bool :=
  bytes_eqb k key_timeout || bytes_eqb k key_deadline || bytes_eqb k key_metadata.

(* channel.request(route, cardinality, request_type, reply_type, **d): what the keyword-only arguments
   timeout / deadline / metadata (each with default None) of grpclib's Channel.request receive from the mapping d.
   A key that is not one of the three is a TypeError (None here); an absent key leaves the default None. *)
Definition kw_of_dict (d : list (list byte * option Z)) : option kw :=
  if forallb request_keyword (py_dict_keys d)
  then let get k := match py_dict_get d k with Some v => v | None => None end in
       Some (Kw (get key_timeout) (get key_deadline) (get key_metadata))
  else None.
