(* L1: schemas as the runtime sees them (FieldMetadata + the classification the
   type hints give) and Python object state of a Message. Mirrors
   dataclass_field defaults, Message.__post_init__, __getattribute__,
   __setattr__, _get_field_default(_gen), _betterproto.cls_by_field. *)
From BP Require Import Base.Prelude Model.Types.
From BP Require gen.Tables.

(* what the resolved type hint of a field is, as far as the code looks at it *)
Inductive pyty :=
| PyInt | PyFloat | PyBool | PyStr | PyBytes
| PyEnum (e : nat)          (* subclass of betterproto.Enum, index into the schema's enum table *)
| PyMsg (c : nat)           (* subclass of Message, index into the schema's class table *)
| PyDatetime | PyTimedelta.

Inductive hint :=
| HPlain (t : pyty)
| HOptional (t : pyty)      (* Optional[t]: proto3 optional, or a wrapper type *)
| HList (t : pyty)
| HDict (k v : pyty).

Record fdesc := mkF {
  fname : list byte;
  fnum : Z;                          (* meta.number *)
  fty : ptype;                       (* meta.proto_type *)
  fmap : option (ptype * ptype);     (* meta.map_types *)
  fgroup : option nat;               (* meta.group, as an index *)
  fwraps : option ptype;             (* meta.wraps *)
  fopt : bool;                       (* meta.optional *)
  fhint : hint;
  fentry : nat }.                    (* map fields: index of the synthetic Entry class
                                        (_betterproto.cls_by_field[name]); 0 otherwise *)

Record cdesc := mkC { cfields : list fdesc; cngroups : nat }.
Record edesc := mkE { emembers : list (list byte * Z) }.      (* name, number; declaration order *)
Record schema := mkS { classes : list cdesc; enums : list edesc }.

Definition empty_class : cdesc := mkC [] 0.
Definition get_class (S : schema) (c : nat) : cdesc := nth c (classes S) empty_class.

(* ---- classes betterproto itself brings: every schema's class table starts with them ----
   index 0 Timestamp, 1 Duration (field layout regenerated from the bundled library),
   2.. the wrapper messages of _get_wrapper, one `value = 1` field each. *)
Definition plain_pyty (t : ptype) : pyty :=
  match t with
  | TBool => PyBool | TFloat | TDouble => PyFloat | TString => PyStr | TBytes => PyBytes
  | _ => PyInt
  end.
Definition plain_field (name : list byte) (num : Z) (t : ptype) : fdesc :=
  mkF name num t None None None false (HPlain (plain_pyty t)) 0.
Definition class_of_layout (l : list (list byte * Z * ptype)) : cdesc :=
  mkC (map (fun '(n, k, t) => plain_field n k t) l) 0.
Definition wrapper_types : list ptype :=
  [TBool; TBytes; TDouble; TFloat; TInt32; TInt64; TString; TUInt32; TUInt64].
Definition value_name : list byte := [x76; x61; x6c; x75; x65].
Definition wrapper_class (t : ptype) : cdesc :=
  match Tables.wrapper_value_type t with
  | Some vt => mkC [plain_field value_name 1 vt] 0
  | None => empty_class
  end.
Definition builtin_classes : list cdesc :=
  class_of_layout Tables.timestamp_fields :: class_of_layout Tables.duration_fields
  :: map wrapper_class wrapper_types.
Definition timestamp_cls : nat := 0.
Definition duration_cls : nat := 1.
Definition wrapper_cls (t : ptype) : option nat :=
  (fix go (i : nat) (l : list ptype) : option nat :=
     match l with
     | [] => None
     | t' :: r => if ptype_eqb t t' then Some i else go (Datatypes.S i) r
     end) 2%nat wrapper_types.

(* ---- Python values ---- *)
Inductive pv :=
| PPlaceholder                       (* betterproto.PLACEHOLDER *)
| PNone
| PInt (z : Z)                       (* int, and enum members / open enum values (int subclass) *)
| PBool (b : bool)
| PFloat (bits : Z)                  (* float as its IEEE-754 binary64 pattern, 0 <= bits < 2^64 *)
| PStr (utf8 : list byte)            (* str without lone surrogates, as UTF-8 *)
| PBytes (b : list byte)
| PDatetime (us : Z)                 (* aware datetime as microseconds since the epoch *)
| PTimedelta (us : Z)
| PList (l : list pv)
| PDict (l : list (pv * pv))         (* insertion ordered, keys unique *)
| PMsg (o : obj)
with obj :=
| Obj (cls : nat) (raw : list pv) (sow : bool) (unk : list byte) (cur : list (option nat)).
(* raw: attribute per field in declaration order; sow: _serialized_on_wire;
   unk: _unknown_fields; cur: _group_current (group index -> field index) *)

Definition ocls (o : obj) := let 'Obj c _ _ _ _ := o in c.
Definition oraw (o : obj) := let 'Obj _ r _ _ _ := o in r.
Definition osow (o : obj) := let 'Obj _ _ s _ _ := o in s.
Definition ounk (o : obj) := let 'Obj _ _ _ u _ := o in u.
Definition ocur (o : obj) := let 'Obj _ _ _ _ g := o in g.

(* dataclass_field: default=None if optional else PLACEHOLDER; __post_init__ on no arguments *)
Definition new (S : schema) (c : nat) : obj :=
  let cd := get_class S c in
  Obj c (map (fun f => if fopt f then PNone else PPlaceholder) (cfields cd)) false []
      (repeat None (cngroups cd)).

(* _get_field_default: default_gen[field]() *)
Definition default_of (S : schema) (f : fdesc) : pv :=
  match fhint f with
  | HOptional _ => PNone
  | HList _ => PList []
  | HDict _ _ => PDict []
  | HPlain t =>
      match t with
      | PyInt | PyEnum _ => PInt 0
      | PyFloat => PFloat 0
      | PyBool => PBool false
      | PyStr => PStr []
      | PyBytes => PBytes []
      | PyDatetime => PDatetime 0
      | PyTimedelta => PTimedelta 0
      | PyMsg c => PMsg (new S c)
      end
  end.

(* ---- small list helpers ---- *)
Fixpoint set_nth {A} (i : nat) (x : A) (l : list A) : list A :=
  match l, i with
  | [], _ => []
  | _ :: r, O => x :: r
  | y :: r, S i' => y :: set_nth i' x r
  end.

Definition opt_nat_eqb (a b : option nat) : bool :=
  match a, b with
  | Some x, Some y => Nat.eqb x y
  | None, None => true
  | _, _ => false
  end.

(* is field i the one its group currently selects?  (None for ungrouped fields) *)
Definition group_selects (cur : list (option nat)) (f : fdesc) (i : nat) : option bool :=
  match fgroup f with
  | None => None
  | Some g => Some (opt_nat_eqb (nth g cur None) (Some i))
  end.

(* ---- __getattribute__(name) for a field: AttributeError for an unselected
        oneof member, otherwise the value, materialising (and storing) the
        default when the raw attribute is PLACEHOLDER. Returns the new state. ---- *)
Definition getattr (S : schema) (o : obj) (i : nat) : obj * result pv :=
  let 'Obj c raw sow unk cur := o in
  match nth_error (cfields (get_class S c)) i with
  | None => (o, Err EAttribute)
  | Some f =>
      match group_selects cur f i with
      | Some false => (o, Err EAttribute)
      | _ =>
          match nth i raw PPlaceholder with
          | PPlaceholder =>
              let d := default_of S f in
              (Obj c (set_nth i d raw) sow unk cur, Ok d)     (* object.__setattr__: flags untouched *)
          | v => (o, Ok v)
          end
      end
  end.

(* the value getattr would return, without the write-back *)
Definition read (S : schema) (o : obj) (i : nat) : result pv := snd (getattr S o i).

(* a message class without any field: `not value._betterproto.meta_by_field_name` *)
Definition fieldless (S : schema) (v : pv) : bool :=
  match v with
  | PMsg o => match cfields (get_class S (ocls o)) with [] => true | _ => false end
  | _ => false
  end.

Definition mark_sow (v : pv) : pv :=
  match v with PMsg (Obj c r _ u g) => PMsg (Obj c r true u g) | _ => v end.

(* ---- __setattr__(field i, v) after __post_init__ ----
     (a field-less message value gets its own flag raised;) self._serialized_on_wire = True;
     if the field is in a group: the group now selects it and every other member is reset to PLACEHOLDER *)
Definition setattr (S : schema) (o : obj) (i : nat) (v : pv) : obj :=
  let 'Obj c raw sow unk cur := o in
  let fs := cfields (get_class S c) in
  let v := if fieldless S v then mark_sow v else v in
  match nth_error fs i with
  | None => o
  | Some f =>
      match fgroup f with
      | None => Obj c (set_nth i v raw) true unk cur
      | Some g =>
          let raw' :=
            (fix go (j : nat) (fs : list fdesc) (raw : list pv) : list pv :=
               match fs, raw with
               | f' :: fs', x :: raw' =>
                   (if opt_nat_eqb (fgroup f') (Some g) && negb (Nat.eqb j i) then PPlaceholder else x)
                   :: go (Datatypes.S j) fs' raw'
               | _, _ => raw
               end) O fs raw in
          Obj c (set_nth i v raw') true unk (set_nth g (Some i) cur)
      end
  end.

(* ---- Cls(kwargs): dataclass __init__ assigns through __setattr__ BEFORE
        _group_current exists (so no sibling reset happens), then __post_init__
        derives the selection: the last field in declaration order that is not a
        sentinel wins its group; sow = some field is not a sentinel; unknown = b"". ---- *)
Definition is_sentinel (f : fdesc) (v : pv) : bool :=
  match v with
  | PPlaceholder => true
  | PNone => fopt f
  | _ => false
  end.

Definition post_init (S : schema) (c : nat) (raw : list pv) : obj :=
  let cd := get_class S c in
  let fs := cfields cd in
  let cur :=
    (fix go (j : nat) (fs : list fdesc) (raw : list pv) (cur : list (option nat)) : list (option nat) :=
       match fs, raw with
       | f :: fs', v :: raw' =>
           let cur' := match fgroup f with
                       | Some g => if is_sentinel f v then cur else set_nth g (Some j) cur
                       | None => cur
                       end in
           go (Datatypes.S j) fs' raw' cur'
       | _, _ => cur
       end) O fs raw (repeat None (cngroups cd)) in
  let all_sentinel :=
    (fix go (fs : list fdesc) (raw : list pv) : bool :=
       match fs, raw with
       | f :: fs', v :: raw' => is_sentinel f v && go fs' raw'
       | _, _ => true
       end) fs raw in
  Obj c raw (negb all_sentinel) [] cur.

(* kwargs as (field index, value); unmentioned fields keep the dataclass default *)
Definition construct (S : schema) (c : nat) (kw : list (nat * pv)) : obj :=
  let raw0 := oraw (new S c) in
  let raw := fold_left (fun r '(i, v) => set_nth i (if fieldless S v then mark_sow v else v) r) kw raw0 in
  post_init S c raw.

(* which_one_of(message, group) -> field index *)
Definition which_one_of (o : obj) (g : nat) : option nat := nth g (ocur o) None.
