(* C05, descriptor side — the REFERENCE-SIDE reading of a FileDescriptorSet as a JSON schema (Spec/JsonMap.v [jschema]):
   what the descriptor pool of google.protobuf holds for the SAME descriptor set D the plugin compiles.

     [jschema_of_descriptor D]
       * one JSON class per MESSAGE of a generated package (google.protobuf itself is not generated, map-entry types are not
         classes), in the order [schema_of_table] numbers the message classes of the plugin's class table: packages in order
         of first appearance, inside a package its files in request order, inside a file declaration preorder ([gen_msgs]);
         JSON class c is therefore runtime class c + NB (NB = 11 bundled classes: Timestamp, Duration, nine wrappers) - the
         offset of [js_matches].  The synthetic map-Entry classes that follow the message classes in the runtime schema have
         no JSON class: a map field is ONE field of cardinality [MapOf key] whose kind is the kind of the entry's value;
       * per field: the PROTO name (fd_name), protoc's default json_name ([protoc_json_name] of it: descriptor.cc ToJsonName;
         the descriptor model of Spec/Descriptor.v has no json_name option, i.e. no `[json_name = "..."]`), the kind read off
         descriptor.proto's type number and the fully-qualified type name (wrappers / Timestamp / Duration by NAME, messages
         and enums through the symbol table [resolve D], numbered by their position in [gen_msgs] / [gen_enums]), the
         cardinality (map / repeated / explicit presence: proto3 optional, member of a real oneof, message-typed /
         implicit otherwise), and the oneof id numbered as [schema_of_table] numbers groups (names of the real oneofs of
         the message in order of first appearance among its fields);
       * one enum table per ENUM of a generated package, in the order of the class table, with the PROTO value names.

     [json_names_ok enum_member_name D]  the decidable NAME-level condition under which betterproto's JSON names are protoc's:
       (a) every field's proto name is json_name_safe                       [NOT guaranteed by protoc: known finding K3]
       (b) the json names of the fields of a message are pairwise distinct  [guaranteed by protoc for proto3 files:
                                                                             "The default JSON name of field X conflicts with Y"]
       (c) the value names of an enum are pairwise distinct                 [guaranteed by protoc]
       (d) no enum value name starts with "__"                              [NOT guaranteed: `__X = 1;` is a legal identifier;
                                                                             EnumType.__new__ skips dunder names]
       (e) the plugin leaves every enum value name as it is: enum_member_name v (flattened enum name) = v
                                                                            [NOT guaranteed: pythonize_enum_member_name strips
                                                                             the enum's own name as a prefix, `COLOR_RED` of
                                                                             `enum Color` becomes the member `RED`, and JSON
                                                                             carries member names - see C05_generated_enum_prefix_refuted]
   No proofs here. *)
From BP Require Import Base.Prelude Model.Types Spec.Descriptor Model.Object Model.WellFormed.
From BP Require Import Model.C03Bridge.
From BP Require Spec.JsonMap Model.Casing Model.Enum.
From BP Require Proofs.C05Casing Proofs.C05MsgDef.
From Coq Require String.
Import String.StringSyntax.

Module JM := Spec.JsonMap.

(* ---- the messages / enums of the generated packages, in class-table order ---- *)
Definition pkg_msgs (D : descriptor) (pkg : str) : list (list str * msg_d) :=
  filter (fun pm => negb (md_map_entry (snd pm))) (flat_map file_msgs (files_of D pkg)).
Definition pkg_enums (D : descriptor) (pkg : str) : list (list str * enum_d) :=
  flat_map file_enums (files_of D pkg).

Definition gen_msgs (D : descriptor) : list (str * (list str * msg_d)) :=
  flat_map (fun pkg => map (fun pm => (pkg, pm)) (pkg_msgs D pkg)) (output_packages D).
Definition gen_enums (D : descriptor) : list (str * (list str * enum_d)) :=
  flat_map (fun pkg => map (fun pe => (pkg, pe)) (pkg_enums D pkg)) (output_packages D).

(* ---- positions ---- *)
Fixpoint path_eqb (a b : list str) : bool :=
  match a, b with
  | [], [] => true
  | x :: a', y :: b' => str_eqb x y && path_eqb a' b'
  | _, _ => false
  end.

Fixpoint find_index {A} (P : A -> bool) (l : list A) : option nat :=
  match l with
  | [] => None
  | x :: r => if P x then Some O else option_map Datatypes.S (find_index P r)
  end.

Definition at_path {A} (pkg : str) (p : list str) (e : str * (list str * A)) : bool :=
  str_eqb (fst e) pkg && path_eqb (fst (snd e)) p.
Definition msg_index (D : descriptor) (pkg : str) (p : list str) : option nat := find_index (at_path pkg p) (gen_msgs D).
Definition enum_index (D : descriptor) (pkg : str) (p : list str) : option nat := find_index (at_path pkg p) (gen_enums D).
Definition or0 (o : option nat) : nat := match o with Some n => n | None => O end.

(* ---- kinds ---- *)
(* descriptor.proto's scalar types *)
Definition skind_of_dtype (t : Z) : option JM.skind :=
  if t =? T_DOUBLE then Some JM.KDouble else if t =? T_FLOAT then Some JM.KFloat
  else if t =? T_INT64 then Some JM.KInt64 else if t =? T_UINT64 then Some JM.KUInt64
  else if t =? T_INT32 then Some JM.KInt32 else if t =? T_FIXED64 then Some JM.KFixed64
  else if t =? T_FIXED32 then Some JM.KFixed32 else if t =? T_BOOL then Some JM.KBool
  else if t =? T_STRING then Some JM.KString else if t =? T_BYTES then Some JM.KBytes
  else if t =? T_UINT32 then Some JM.KUInt32 else if t =? T_SFIXED32 then Some JM.KSFixed32
  else if t =? T_SFIXED64 then Some JM.KSFixed64 else if t =? T_SINT32 then Some JM.KSInt32
  else if t =? T_SINT64 then Some JM.KSInt64 else None.

(* wrappers.proto: the scalar kind of the `value` field of each wrapper message (written from wrappers.proto) *)
Definition wrapper_skinds : list (str * JM.skind) := Eval vm_compute in
  [(bs_ ".google.protobuf.DoubleValue"%string, JM.KDouble); (bs_ ".google.protobuf.FloatValue"%string, JM.KFloat);
   (bs_ ".google.protobuf.Int64Value"%string, JM.KInt64); (bs_ ".google.protobuf.UInt64Value"%string, JM.KUInt64);
   (bs_ ".google.protobuf.Int32Value"%string, JM.KInt32); (bs_ ".google.protobuf.UInt32Value"%string, JM.KUInt32);
   (bs_ ".google.protobuf.BoolValue"%string, JM.KBool); (bs_ ".google.protobuf.StringValue"%string, JM.KString);
   (bs_ ".google.protobuf.BytesValue"%string, JM.KBytes)].

(* the kind of ONE value of field [f] *)
Definition desc_kind (D : descriptor) (f : field_d) : JM.jkind :=
  match skind_of_dtype (fd_type f) with
  | Some k => JM.JScalar k
  | None =>
      match lookup (fd_type_name f) wrapper_skinds with
      | Some k => JM.JWrapper k
      | None =>
          if str_eqb (fd_type_name f) wkt_duration then JM.JDuration
          else if str_eqb (fd_type_name f) wkt_timestamp then JM.JTimestamp
          else match resolve D (fd_type_name f) with
               | Some (SymMsg pkg p _) => JM.JMsg (or0 (msg_index D pkg p))
               | Some (SymEnum pkg p _) => JM.JEnum (or0 (enum_index D pkg p))
               | None => JM.JScalar JM.KInt32          (* excluded by protoc_wf: type names resolve *)
               end
      end
  end.

(* ---- one field of message [m] (path [p], package [pkg]) ---- *)
(* the field whose type is the type of one value: the entry's field 2 for a map *)
Definition value_field (pkg : str) (p : list str) (m : msg_d) (f : field_d) : field_d :=
  match spec_map_entry pkg p m f with
  | Some e => match field_numbered 2 e with Some v => v | None => f end
  | None => f
  end.

Definition key_skind (e : msg_d) : JM.skind :=
  match field_numbered 1 e with
  | Some k => match skind_of_dtype (fd_type k) with Some s => s | None => JM.KInt32 end
  | None => JM.KInt32
  end.

Definition desc_card (pkg : str) (p : list str) (m : msg_d) (f : field_d) : JM.jcard :=
  match spec_map_entry pkg p m f with
  | Some e => JM.MapOf (key_skind e)
  | None =>
      if fd_label f =? L_REPEATED then JM.Repeated
      else if fd_proto3_optional f || real_oneof f || (fd_type f =? T_MESSAGE) then JM.Explicit
      else JM.Implicit
  end.

(* the real oneof a field is a member of (a map field is in none; a proto3-optional field's synthetic oneof is not one) *)
Definition desc_group (pkg : str) (p : list str) (m : msg_d) (f : field_d) : option str :=
  match spec_map_entry pkg p m f with
  | Some _ => None
  | None => match spec_group m f with Some g => g | None => None end
  end.
Definition desc_group_names (pkg : str) (p : list str) (m : msg_d) : list str :=
  dedup (flat_map (fun f => match desc_group pkg p m f with Some g => [g] | None => [] end) (md_fields m)).
Definition desc_oneof (pkg : str) (p : list str) (m : msg_d) (f : field_d) : option nat :=
  match desc_group pkg p m f with
  | Some g => index_of g (desc_group_names pkg p m)
  | None => None
  end.

Definition jfield_of_desc (D : descriptor) (pkg : str) (p : list str) (m : msg_d) (f : field_d) : JM.jfield :=
  JM.mkJF (fd_name f) (JM.protoc_json_name (fd_name f))
          (desc_kind D (value_field pkg p m f)) (desc_card pkg p m f) (desc_oneof pkg p m f).

Definition jclass_of_desc (D : descriptor) (e : str * (list str * msg_d)) : list JM.jfield :=
  map (jfield_of_desc D (fst e) (fst (snd e)) (snd (snd e))) (md_fields (snd (snd e))).

Definition jschema_of_descriptor (D : descriptor) : JM.jschema :=
  JM.mkJS (map (jclass_of_desc D) (gen_msgs D))
          (map (fun e => ed_values (snd (snd e))) (gen_enums D)).

(* ---- the name-level side condition ---- *)
Definition msg_json_names_ok (m : msg_d) : bool :=
  forallb (fun f => C05Casing.json_name_safe (fd_name f)) (md_fields m)
  && C05MsgDef.nodup_bytes (map (fun f => JM.protoc_json_name (fd_name f)) (md_fields m)).

Definition enum_json_names_ok (enum_member_name : str -> str -> str) (p : list str) (e : enum_d) : bool :=
  C05MsgDef.enum_ok (ed_values e)
  && forallb (fun nv => str_eqb (enum_member_name (fst nv) (flat p)) (fst nv)) (ed_values e).

Definition json_names_ok (enum_member_name : str -> str -> str) (D : descriptor) : bool :=
  forallb (fun e => msg_json_names_ok (snd (snd e))) (gen_msgs D)
  && forallb (fun e => enum_json_names_ok enum_member_name (fst (snd e)) (snd (snd e))) (gen_enums D).

(* ---- canonical value of a jschema, for the executable comparison with the schema the harness derives from
        google.protobuf's own descriptor pool (json_name included) ---- *)
Definition skind_tag (k : JM.skind) : Z := C05MsgDef.skind_tag k.
Definition cv_jkind (k : JM.jkind) : cv :=
  match k with
  | JM.JScalar s => CL [CZ 0; CZ (skind_tag s)]
  | JM.JEnum e => CL [CZ 1; CZ (Z.of_nat e)]
  | JM.JMsg c => CL [CZ 2; CZ (Z.of_nat c)]
  | JM.JTimestamp => CL [CZ 3]
  | JM.JDuration => CL [CZ 4]
  | JM.JWrapper s => CL [CZ 5; CZ (skind_tag s)]
  end.
Definition cv_jcard (c : JM.jcard) : cv :=
  match c with
  | JM.Implicit => CL [CZ 0]
  | JM.Explicit => CL [CZ 1]
  | JM.Repeated => CL [CZ 2]
  | JM.MapOf k => CL [CZ 3; CZ (skind_tag k)]
  end.
Definition cv_jfield (f : JM.jfield) : cv :=
  CL [CB (JM.jf_name f); CB (JM.jf_json f); cv_jkind (JM.jf_kind f); cv_jcard (JM.jf_card f);
      copt (fun n => CZ (Z.of_nat n)) (JM.jf_oneof f)].
Definition cv_jschema (js : JM.jschema) : cv :=
  CL [CL (map (fun c => CL (map cv_jfield c)) (JM.jclasses js));
      CL (map (fun e => CL (map (fun nv => CL [CB (fst nv); CZ (snd nv)]) e)) (JM.jenums js))].
