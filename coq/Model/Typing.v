(* L1 mirror of
     src/betterproto/plugin/typing_compiler.py   (the three TypingCompiler classes, import bookkeeping)
     src/betterproto/plugin/parser.py:79-127     (option parsing, compiler selection)
     src/betterproto/plugin/models.py            (FieldCompiler.py_type / annotation / betterproto_field_args /
                                                  get_field_string, OneOf / PydanticOneOf / MapEntry compilers)
     src/betterproto/compile/importing.py:64-89  (unwrapping of well-known types, pydantic lib path)
     src/betterproto/templates/template.py.j2    (the annotation sites and what they do to compiler output)
   plus a denotation [denote : str -> option sty] for the annotation grammar these printers emit.
   Strings are [list byte]; the Python string operations are written out ([fmt310] is `type[1:-1]` guarded by
   `startswith('''')`, [strip_dq] is `.strip('''')`).  No proofs here: Proofs/TypingP.v.
   Data read from the live plugin (scalar py types, wrapper table, TYPE_* constants, template site kinds, the
   pydantic enum bound) comes from gen/C18Tables.v, regenerated on every run by harness/gen_c18.py. *)
From Coq Require Import Strings.String DecimalString.
From BP Require Import Base.Prelude Model.Types.
From BP Require Export gen.C18Tables.

Definition str := list byte.
Definition B (s : string) : str := list_byte_of_string s.
Definition dq : byte := x22.
Definition str_eqb (a b : str) : bool := bytes_eqb a b.

Fixpoint join (sep : str) (l : list str) : str :=
  match l with
  | [] => []
  | a :: r => match r with [] => a | _ :: _ => a ++ sep ++ join sep r end
  end.

(* ------------------------------------------------------------------------------------------
   typing_compiler.py
   ------------------------------------------------------------------------------------------ *)
Inductive compiler := CDirect | CRoot | C310.

(* NoTyping310TypingCompiler._fmt:  type[1:-1] if type.startswith('''') else type *)
Definition fmt310 (t : str) : str :=
  match t with
  | b :: r => if Byte.eqb b dq then removelast r else t
  | [] => t
  end.

Definition c_optional (c : compiler) (t : str) : str :=
  match c with
  | CDirect => B "Optional[" ++ t ++ B "]"
  | CRoot => B "typing.Optional[" ++ t ++ B "]"
  | C310 => dq :: fmt310 t ++ B " | None" ++ [dq]
  end.

Definition c_list (c : compiler) (t : str) : str :=
  match c with
  | CDirect => B "List[" ++ t ++ B "]"
  | CRoot => B "typing.List[" ++ t ++ B "]"
  | C310 => dq :: B "list[" ++ fmt310 t ++ B "]" ++ [dq]
  end.

(* NB: the 3.10 compiler formats the value but not the key *)
Definition c_dict (c : compiler) (k v : str) : str :=
  match c with
  | CDirect => B "Dict[" ++ k ++ B ", " ++ v ++ B "]"
  | CRoot => B "typing.Dict[" ++ k ++ B ", " ++ v ++ B "]"
  | C310 => dq :: B "dict[" ++ k ++ B ", " ++ fmt310 v ++ B "]" ++ [dq]
  end.

Definition c_union (c : compiler) (ts : list str) : str :=
  match c with
  | CDirect => B "Union[" ++ join (B ", ") ts ++ B "]"
  | CRoot => B "typing.Union[" ++ join (B ", ") ts ++ B "]"
  | C310 => dq :: join (B " | ") (map fmt310 ts) ++ [dq]
  end.

(* NB: the 3.10 compiler does not format the argument of the three iterator forms *)
Definition c_iterable (c : compiler) (t : str) : str :=
  match c with
  | CDirect => B "Iterable[" ++ t ++ B "]"
  | CRoot => B "typing.Iterable[" ++ t ++ B "]"
  | C310 => dq :: B "Iterable[" ++ t ++ B "]" ++ [dq]
  end.

Definition c_async_iterable (c : compiler) (t : str) : str :=
  match c with
  | CDirect => B "AsyncIterable[" ++ t ++ B "]"
  | CRoot => B "typing.AsyncIterable[" ++ t ++ B "]"
  | C310 => dq :: B "AsyncIterable[" ++ t ++ B "]" ++ [dq]
  end.

Definition c_async_iterator (c : compiler) (t : str) : str :=
  match c with
  | CDirect => B "AsyncIterator[" ++ t ++ B "]"
  | CRoot => B "typing.AsyncIterator[" ++ t ++ B "]"
  | C310 => dq :: B "AsyncIterator[" ++ t ++ B "]" ++ [dq]
  end.

(* import bookkeeping: what one call records, as (module, name); the root compiler only sets a flag,
   rendered as (typing, '''') *)
Inductive op := OOptional | OList | ODict | OUnion | OIterable | OAsyncIterable | OAsyncIterator.
Definition imp := (str * str)%type.

Definition op_typing_name (o : op) : str :=
  match o with
  | OOptional => B "Optional" | OList => B "List" | ODict => B "Dict" | OUnion => B "Union"
  | OIterable => B "Iterable" | OAsyncIterable => B "AsyncIterable" | OAsyncIterator => B "AsyncIterator"
  end.

Definition c_adds (c : compiler) (o : op) : list imp :=
  match c with
  | CDirect => [(B "typing", op_typing_name o)]
  | CRoot => [(B "typing", [])]
  | C310 => match o with
            | OIterable | OAsyncIterable | OAsyncIterator => [(B "collections.abc", op_typing_name o)]
            | _ => []
            end
  end.

(* sorted(set_of_names): byte-lexicographic insertion sort without duplicates *)
Fixpoint str_ltb (a b : str) : bool :=
  match a, b with
  | [], [] => false
  | [], _ :: _ => true
  | _ :: _, [] => false
  | x :: a', y :: b' => if N.ltb (Byte.to_N x) (Byte.to_N y) then true
                        else if N.ltb (Byte.to_N y) (Byte.to_N x) then false else str_ltb a' b'
  end.

Fixpoint insert_sorted (x : str) (l : list str) : list str :=
  match l with
  | [] => [x]
  | y :: r => if str_eqb x y then l else if str_ltb x y then x :: l else y :: insert_sorted x r
  end.
Definition sort_names (l : list str) : list str := fold_right insert_sorted [] l.

Fixpoint dedup (l : list str) : list str :=
  match l with
  | [] => []
  | x :: r => x :: filter (fun y => negb (str_eqb x y)) (dedup r)
  end.

(* TypingCompiler.import_lines over the state reached after the recorded calls *)
Definition import_lines (c : compiler) (adds : list imp) : list str :=
  match c with
  | CRoot => match adds with [] => [] | _ :: _ => [B "import typing"] end
  | _ => flat_map (fun m =>
            (B "from " ++ m ++ B " import (")
            :: map (fun n => B "    " ++ n ++ B ",")
                   (sort_names (map snd (filter (fun p => str_eqb (fst p) m) adds)))
            ++ [B ")"])
          (dedup (map fst adds))
  end.

(* ------------------------------------------------------------------------------------------
   the type AST the plugin builds through those calls, and its printers
   ------------------------------------------------------------------------------------------ *)
Inductive ty :=
| TName (n : str)                 (* a bare name: int, datetime, builtins.int, grpclib.const.Handler, Req *)
| TRef (n : str)                  (* a quoted forward reference: ''Foo'', ''_pkg__.Foo'' *)
| TOptional (t : ty)
| TList (t : ty)
| TDict (k v : ty)
| TUnion (ts : list ty)
| TIterable (t : ty)
| TAsyncIterable (t : ty)
| TAsyncIterator (t : ty).

Fixpoint print (c : compiler) (t : ty) : str :=
  match t with
  | TName n => n
  | TRef n => dq :: n ++ [dq]
  | TOptional a => c_optional c (print c a)
  | TList a => c_list c (print c a)
  | TDict k v => c_dict c (print c k) (print c v)
  | TUnion ts => c_union c (map (print c) ts)
  | TIterable a => c_iterable c (print c a)
  | TAsyncIterable a => c_async_iterable c (print c a)
  | TAsyncIterator a => c_async_iterator c (print c a)
  end.

(* the calls made while building [t], in Python's evaluation order (arguments first) *)
Fixpoint ty_adds (c : compiler) (t : ty) : list imp :=
  match t with
  | TName _ | TRef _ => []
  | TOptional a => ty_adds c a ++ c_adds c OOptional
  | TList a => ty_adds c a ++ c_adds c OList
  | TDict k v => ty_adds c k ++ ty_adds c v ++ c_adds c ODict
  | TUnion ts => flat_map (ty_adds c) ts ++ c_adds c OUnion
  | TIterable a => ty_adds c a ++ c_adds c OIterable
  | TAsyncIterable a => ty_adds c a ++ c_adds c OAsyncIterable
  | TAsyncIterator a => ty_adds c a ++ c_adds c OAsyncIterator
  end.

(* ------------------------------------------------------------------------------------------
   semantic types: a type is the list of its union alternatives (singleton = not a union), so
   Optional[X] = X | None and nested unions are flat by construction, as in Python's typing
   ------------------------------------------------------------------------------------------ *)
Inductive aty :=
| ANone
| AName (n : str)
| AList (elt : list aty)
| ADict (k v : list aty)
| AIterable (a : list aty)
| AAsyncIterable (a : list aty)
| AAsyncIterator (a : list aty).
Definition sty := list aty.

Fixpoint sem (t : ty) : sty :=
  match t with
  | TName n | TRef n => [AName n]
  | TOptional a => sem a ++ [ANone]
  | TList a => [AList (sem a)]
  | TDict k v => [ADict (sem k) (sem v)]
  | TUnion ts => flat_map sem ts
  | TIterable a => [AIterable (sem a)]
  | TAsyncIterable a => [AAsyncIterable (sem a)]
  | TAsyncIterator a => [AAsyncIterator (sem a)]
  end.

(* ------------------------------------------------------------------------------------------
   denotation of annotation text: lexer, recursive-descent parser, interpretation of heads
     ann   := atom ('' | '' atom)*
     atom  := ''None'' | NAME | HEAD ''['' ann ('', '' ann)* '']'' | '''' ann ''''      (no string inside a string)
   ------------------------------------------------------------------------------------------ *)
Definition is_namechar (b : byte) : bool :=
  let n := Byte.to_N b in
  ((48 <=? n) && (n <=? 57) || (65 <=? n) && (n <=? 90) || (97 <=? n) && (n <=? 122)
   || (n =? 95) || (n =? 46))%N.

Definition is_digit (b : byte) : bool := let n := Byte.to_N b in ((48 <=? n) && (n <=? 57))%N.
Definition is_dot (b : byte) : bool := Byte.eqb b x2e.

(* a dotted Python name: name characters only, every component non-empty and not starting with a digit *)
Fixpoint ident_go (start : bool) (s : str) : bool :=
  match s with
  | [] => negb start
  | b :: r => is_namechar b &&
              (if is_dot b then negb start && ident_go true r
               else negb (start && is_digit b) && ident_go false r)
  end.
Definition ident_ok (s : str) : bool := ident_go true s.

Inductive token := TkId (n : str) | TkLbr | TkRbr | TkComma | TkBar | TkQuote.

Definition render_tok (k : token) : str :=
  match k with
  | TkId n => n | TkLbr => B "[" | TkRbr => B "]" | TkComma => B ", " | TkBar => B " | " | TkQuote => [dq]
  end.
Definition render_toks (ts : list token) : str := flat_map render_tok ts.

(* spaces are skipped; anything that is not a name character, bracket, comma, bar, quote or space is an error *)
Fixpoint lex (s : str) : option (list token) :=
  match s with
  | [] => Some []
  | b :: r =>
    match lex r with
    | None => None
    | Some ts =>
      if is_namechar b then
        match r, ts with
        | b' :: _, TkId n :: ts' => if is_namechar b' then Some (TkId (b :: n) :: ts') else Some (TkId [b] :: ts)
        | _, _ => Some (TkId [b] :: ts)
        end
      else if Byte.eqb b x20 then Some ts
      else if Byte.eqb b x5b then Some (TkLbr :: ts)
      else if Byte.eqb b x5d then Some (TkRbr :: ts)
      else if Byte.eqb b x2c then Some (TkComma :: ts)
      else if Byte.eqb b x7c then Some (TkBar :: ts)
      else if Byte.eqb b dq then Some (TkQuote :: ts)
      else None
    end
  end.

(* concrete syntax *)
Inductive syn :=
| YName (n : str)
| YNone
| YStr (y : syn)
| YApp (h : str) (args : list syn)
| YBar (alts : list syn).

Fixpoint sepby {A} (sep : A) (l : list (list A)) : list A :=
  match l with
  | [] => []
  | a :: r => match r with [] => a | _ :: _ => a ++ sep :: sepby sep r end
  end.

Fixpoint toks (y : syn) : list token :=
  match y with
  | YName n => [TkId n]
  | YNone => [TkId (B "None")]
  | YStr a => TkQuote :: toks a ++ [TkQuote]
  | YApp h args => TkId h :: TkLbr :: sepby TkComma (map toks args) ++ [TkRbr]
  | YBar alts => sepby TkBar (map toks alts)
  end.

(* [q] = inside a string literal: a quote cannot open another string there *)
Fixpoint p_ann (f : nat) (q : bool) (ts : list token) {struct f} : option (syn * list token) :=
  match f with
  | O => None
  | S f' =>
    match p_atom f' q ts with
    | None => None
    | Some (a, TkBar :: r) =>
        match p_alts f' q r with
        | Some (l, r') => Some (YBar (a :: l), r')
        | None => None
        end
    | Some (a, r) => Some (a, r)
    end
  end
with p_alts (f : nat) (q : bool) (ts : list token) {struct f} : option (list syn * list token) :=
  match f with
  | O => None
  | S f' =>
    match p_atom f' q ts with
    | None => None
    | Some (a, TkBar :: r) =>
        match p_alts f' q r with
        | Some (l, r') => Some (a :: l, r')
        | None => None
        end
    | Some (a, r) => Some ([a], r)
    end
  end
with p_atom (f : nat) (q : bool) (ts : list token) {struct f} : option (syn * list token) :=
  match f with
  | O => None
  | S f' =>
    match ts with
    | TkQuote :: r =>
        if q then None
        else match p_ann f' true r with
             | Some (y, TkQuote :: r') => Some (YStr y, r')
             | _ => None
             end
    | TkId n :: TkLbr :: r =>
        if ident_ok n then
          match p_args f' q r with
          | Some (l, TkRbr :: r') => Some (YApp n l, r')
          | _ => None
          end
        else None
    | TkId n :: r => if ident_ok n then Some (if str_eqb n (B "None") then YNone else YName n, r) else None
    | _ => None
    end
  end
with p_args (f : nat) (q : bool) (ts : list token) {struct f} : option (list syn * list token) :=
  match f with
  | O => None
  | S f' =>
    match p_ann f' q ts with
    | None => None
    | Some (a, TkComma :: r) =>
        match p_args f' q r with
        | Some (l, r') => Some (a :: l, r')
        | None => None
        end
    | Some (a, r) => Some ([a], r)
    end
  end.

Definition parse (s : str) : option syn :=
  match lex s with
  | None => None
  | Some ts => match p_ann (4 * length ts) false ts with
               | Some (y, []) => Some y
               | _ => None
               end
  end.

(* which generic a head identifier stands for (all spellings the three compilers use) *)
Definition head_op (h : str) : option op :=
  if str_eqb h (B "Optional") || str_eqb h (B "typing.Optional") then Some OOptional
  else if str_eqb h (B "List") || str_eqb h (B "typing.List") || str_eqb h (B "list") then Some OList
  else if str_eqb h (B "Dict") || str_eqb h (B "typing.Dict") || str_eqb h (B "dict") then Some ODict
  else if str_eqb h (B "Union") || str_eqb h (B "typing.Union") then Some OUnion
  else if str_eqb h (B "Iterable") || str_eqb h (B "typing.Iterable") then Some OIterable
  else if str_eqb h (B "AsyncIterable") || str_eqb h (B "typing.AsyncIterable") then Some OAsyncIterable
  else if str_eqb h (B "AsyncIterator") || str_eqb h (B "typing.AsyncIterator") then Some OAsyncIterator
  else None.

Definition apply_op (o : op) (args : list sty) : option sty :=
  match o, args with
  | OOptional, [a] => Some (a ++ [ANone])
  | OList, [a] => Some [AList a]
  | ODict, [k; v] => Some [ADict k v]
  | OUnion, _ :: _ => Some (concat args)
  | OIterable, [a] => Some [AIterable a]
  | OAsyncIterable, [a] => Some [AAsyncIterable a]
  | OAsyncIterator, [a] => Some [AAsyncIterator a]
  | _, _ => None          (* wrong arity: TypeError when the annotation is evaluated *)
  end.

Fixpoint sem_syn (y : syn) : option sty :=
  match y with
  | YName n => Some [AName n]
  | YNone => Some [ANone]
  | YStr a => sem_syn a
  | YApp h args =>
      match head_op h with
      | None => None       (* not a generic this grammar knows *)
      | Some o =>
        match (fix go (l : list syn) : option (list sty) :=
                 match l with
                 | [] => Some []
                 | a :: r => match sem_syn a, go r with
                             | Some x, Some xs => Some (x :: xs)
                             | _, _ => None
                             end
                 end) args with
        | Some xs => apply_op o xs
        | None => None
        end
      end
  | YBar alts =>
      (fix go (l : list syn) : option sty :=
         match l with
         | [] => Some []
         | a :: r => match sem_syn a, go r with
                     | Some x, Some xs => Some (x ++ xs)
                     | _, _ => None
                     end
         end) alts
  end.

Definition denote (s : str) : option sty :=
  match parse s with
  | Some y => sem_syn y
  | None => None
  end.

(* ------------------------------------------------------------------------------------------
   template sites (template.py.j2): the argument AST the template builds at each site, and what the
   template does to the text (kind read from the live template: C18Tables.template_sites)
   ------------------------------------------------------------------------------------------ *)
Fixpoint drop_dq (s : str) : str :=
  match s with
  | b :: r => if Byte.eqb b dq then drop_dq r else s
  | [] => []
  end.
(* Python s.strip('''') *)
Definition strip_dq (s : str) : str := rev (drop_dq (rev (drop_dq s))).

Definition render_site (k : site_kind) (s : str) : str :=
  match k with
  | KRaw => s
  | KQuote => dq :: s ++ [dq]
  | KQuoteStrip => dq :: strip_dq s ++ [dq]
  end.

(* tin / tout: method.py_input_message_type / py_output_message_type (already stripped of quotes) *)
Definition site_arg (s : site) (tin tout : str) : ty :=
  match s with
  | SStubReq | SBaseReq => TName tin
  | SStubReqIter => TUnion [TAsyncIterable (TName tin); TIterable (TName tin)]
  | SStubTimeout => TOptional (TName (B "float"))
  | SStubDeadline => TOptional (TRef (B "Deadline"))
  | SStubMetadata => TOptional (TRef (B "MetadataLike"))
  | SStubRet | SBaseRet => TName tout
  | SStubRetStream | SBaseRetStream => TAsyncIterator (TName tout)
  | SBaseReqIter => TAsyncIterator (TName tin)
  | SMapping => TDict (TName (B "str")) (TName (B "grpclib.const.Handler"))
  end.

Definition site_eqb (a b : site) : bool :=
  match a, b with
  | SStubReq, SStubReq | SStubReqIter, SStubReqIter | SStubTimeout, SStubTimeout
  | SStubDeadline, SStubDeadline | SStubMetadata, SStubMetadata | SStubRet, SStubRet
  | SStubRetStream, SStubRetStream | SBaseReq, SBaseReq | SBaseReqIter, SBaseReqIter
  | SBaseRet, SBaseRet | SBaseRetStream, SBaseRetStream | SMapping, SMapping => true
  | _, _ => false
  end.

Definition all_sites : list site :=
  [SStubReq; SStubReqIter; SStubTimeout; SStubDeadline; SStubMetadata; SStubRet; SStubRetStream;
   SBaseReq; SBaseReqIter; SBaseRet; SBaseRetStream; SMapping].

Fixpoint site_kind_of (tbl : list (site * site_kind)) (s : site) : option site_kind :=
  match tbl with
  | [] => None
  | (s', k) :: r => if site_eqb s s' then Some k else site_kind_of r s
  end.

(* the text that appears in the generated module at site [s] *)
Definition site_text (tbl : list (site * site_kind)) (c : compiler) (s : site) (tin tout : str) : option str :=
  match site_kind_of tbl s with
  | Some k => Some (render_site k (print c (site_arg s tin tout)))
  | None => None
  end.

(* ------------------------------------------------------------------------------------------
   parser.py: option parsing and compiler selection
   ------------------------------------------------------------------------------------------ *)
Record options := { o_compiler : compiler; o_pydantic : bool }.

Fixpoint split_on (sep : byte) (s : str) : list str :=
  match s with
  | [] => [[]]
  | b :: r => if Byte.eqb b sep then [] :: split_on sep r
              else match split_on sep r with
                   | x :: xs => (b :: x) :: xs
                   | [] => [[b]]
                   end
  end.

Fixpoint strip_prefix (p s : str) : option str :=
  match p, s with
  | [], _ => Some s
  | a :: p', b :: s' => if Byte.eqb a b then strip_prefix p' s' else None
  | _ :: _, [] => None
  end.

Fixpoint filter_map {A C} (f : A -> option C) (l : list A) : list C :=
  match l with
  | [] => []
  | a :: r => match f a with Some b => b :: filter_map f r | None => filter_map f r end
  end.

(* request.parameter.split('','') if request.parameter else [] *)
Definition plugin_options (param : str) : list str :=
  match param with [] => [] | _ => split_on x2c param end.

Definition parse_options (param : str) : result options :=
  let opts := plugin_options param in
  let pyd := existsb (str_eqb (B "pydantic_dataclasses")) opts in
  let typing_opts := filter_map (strip_prefix (B "typing.")) opts in
  match typing_opts with
  | _ :: _ :: _ => Err EValue                     (* ''Multiple typing options provided'' *)
  | _ =>
    let o := match typing_opts with x :: _ => x | [] => B "direct" end in
    (* an unknown typing.<x> matches no branch: the OutputTemplate default (DirectImportTypingCompiler) stays *)
    let c := if str_eqb o (B "direct") then CDirect
             else if str_eqb o (B "root") then CRoot
             else if str_eqb o (B "310") then C310
             else CDirect in
    Ok {| o_compiler := c; o_pydantic := pyd |}
  end.

(* ------------------------------------------------------------------------------------------
   models.py: fields
   ------------------------------------------------------------------------------------------ *)
Fixpoint assoc {A} (k : str) (l : list (str * A)) : option A :=
  match l with
  | [] => None
  | (k', v) :: r => if str_eqb k k' then Some v else assoc k r
  end.

Fixpoint passoc {A} (t : ptype) (l : list (ptype * A)) : option A :=
  match l with
  | [] => None
  | (t', v) :: r => if ptype_eqb t t' then Some v else passoc t r
  end.

(* FieldCompiler.py_type for the scalar branches *)
Definition py_scalar (t : ptype) : option str := passoc t py_type_table.

(* FieldDescriptorProtoType(t).name.lower().replace(''type_'', '''') *)
Definition ptype_name (t : ptype) : str :=
  match t with
  | TEnum => B "enum" | TBool => B "bool" | TInt32 => B "int32" | TInt64 => B "int64"
  | TUInt32 => B "uint32" | TUInt64 => B "uint64" | TSInt32 => B "sint32" | TSInt64 => B "sint64"
  | TFloat => B "float" | TDouble => B "double" | TFixed32 => B "fixed32" | TSFixed32 => B "sfixed32"
  | TFixed64 => B "fixed64" | TSFixed64 => B "sfixed64" | TString => B "string" | TBytes => B "bytes"
  | TMessage => B "message" | TMap => B "map"
  end.

Definition upper_byte (b : byte) : byte :=
  let n := Byte.to_N b in
  if ((97 <=? n) && (n <=? 122))%N then match Byte.of_N (n - 32) with Some c => c | None => b end else b.
Definition upper (s : str) : str := map upper_byte s.

(* FieldDescriptorProtoType(t).name *)
Definition type_const (t : ptype) : str := B "TYPE_" ++ upper (ptype_name t).

(* what a message / enum typed field refers to *)
Inductive gref :=
| RWrapper (w : str)      (* .google.protobuf.<w>, a key of WRAPPER_TYPES, e.g. Int32Value *)
| RDuration
| RTimestamp
| RGoogle (n : str)       (* any other .google.protobuf.<n>: class of betterproto.lib[.pydantic].google.protobuf *)
| RLocal (n : str).       (* user type: the reference string get_type_reference computes (without quotes) *)

Record ftype := { ft_type : ptype; ft_ref : option gref }.

Inductive flabel :=
| LSingle
| LOptional               (* proto3_optional *)
| LRepeated
| LOneof (group : str)    (* is_oneof: not proto3_optional and oneof_index set *)
| LMap (key : ftype).     (* value type is the field's own type *)

Record fdesc := {
  fd_name : str;          (* py_name (C19's business: taken as given) *)
  fd_number : Z;
  fd_type : ftype;
  fd_label : flabel;
  fd_builtins : bool      (* FieldCompiler.use_builtins *)
}.

(* importing.py:81-89: alias of the google.protobuf package as seen from a user package *)
Definition google_alias (pyd : bool) : str :=
  if pyd then B "betterproto_lib_pydantic_google_protobuf" else B "betterproto_lib_google_protobuf".

(* the `(.+)Value` group of field_wraps's regex *)
Definition wrapper_stem (w : str) : str := firstn (length w - 5) w.

(* FieldCompiler.py_type, as text *)
Definition py_type_str (c : compiler) (pyd : bool) (ft : ftype) : option str :=
  match py_scalar (ft_type ft) with
  | Some n => Some n
  | None =>
    match ft_type ft, ft_ref ft with
    | (TMessage | TEnum), Some (RWrapper w) =>
        match assoc w wrapper_py with
        | Some n => Some (c_optional c n)
        | None => None
        end
    | (TMessage | TEnum), Some RDuration => Some (B "timedelta")
    | (TMessage | TEnum), Some RTimestamp => Some (B "datetime")
    | (TMessage | TEnum), Some (RGoogle n) => Some (dq :: google_alias pyd ++ B "." ++ n ++ [dq])
    | (TMessage | TEnum), Some (RLocal n) => Some (dq :: n ++ [dq])
    | _, _ => None          (* NotImplementedError(''Unknown type'') *)
    end
  end.

(* FieldCompiler.optional / PydanticOneOfFieldCompiler.optional *)
Definition fd_optional (pyd : bool) (fd : fdesc) : bool :=
  match fd_label fd with
  | LOptional => true
  | LOneof _ => pyd
  | _ => false
  end.

(* FieldCompiler.annotation / MapEntryCompiler.annotation, as text *)
Definition annotation_str (c : compiler) (pyd : bool) (fd : fdesc) : option str :=
  match fd_label fd with
  | LMap k =>
      match py_type_str c pyd k, py_type_str c pyd (fd_type fd) with
      | Some ks, Some vs => Some (c_dict c ks vs)
      | _, _ => None
      end
  | lab =>
      match py_type_str c pyd (fd_type fd) with
      | None => None
      | Some p =>
        let p := if fd_builtins fd then B "builtins." ++ p else p in
        Some (match lab with
              | LRepeated => c_list c p
              | _ => if fd_optional pyd fd then c_optional c p else p
              end)
      end
  end.

(* the same as an AST (Proofs: annotation_str = print of this, for well-formed descriptors) *)
Definition base_ty (pyd : bool) (ft : ftype) : option ty :=
  match py_scalar (ft_type ft) with
  | Some n => Some (TName n)
  | None =>
    match ft_type ft, ft_ref ft with
    | (TMessage | TEnum), Some (RWrapper w) =>
        match assoc w wrapper_py with
        | Some n => Some (TOptional (TName n))
        | None => None
        end
    | (TMessage | TEnum), Some RDuration => Some (TName (B "timedelta"))
    | (TMessage | TEnum), Some RTimestamp => Some (TName (B "datetime"))
    | (TMessage | TEnum), Some (RGoogle n) => Some (TRef (google_alias pyd ++ B "." ++ n))
    | (TMessage | TEnum), Some (RLocal n) => Some (TRef n)
    | _, _ => None
    end
  end.

Definition with_builtins (b : bool) (t : ty) : ty :=
  match b, t with
  | true, TName n => TName (B "builtins." ++ n)
  | _, _ => t
  end.

Definition annotation_ty (pyd : bool) (fd : fdesc) : option ty :=
  match fd_label fd with
  | LMap k =>
      match base_ty pyd k, base_ty pyd (fd_type fd) with
      | Some kt, Some vt => Some (TDict kt vt)
      | _, _ => None
      end
  | lab =>
      match base_ty pyd (fd_type fd) with
      | None => None
      | Some p =>
        let p := with_builtins (fd_builtins fd) p in
        Some (match lab with
              | LRepeated => TList p
              | _ => if fd_optional pyd fd then TOptional p else p
              end)
      end
  end.

(* FieldCompiler.field_wraps: ''betterproto.TYPE_<STEM>'' when that constant exists *)
Definition field_wraps (fd : fdesc) : option str :=
  match fd_label fd, ft_ref (fd_type fd) with
  | LMap _, _ => None       (* MapEntryCompiler overrides betterproto_field_args *)
  | _, Some (RWrapper w) =>
      let cn := B "TYPE_" ++ upper (wrapper_stem w) in
      match assoc cn type_consts with Some _ => Some cn | None => None end
  | _, _ => None
  end.

Definition dec (z : Z) : str := list_byte_of_string (NilZero.string_of_int (Z.to_int z)).

(* betterproto_field_args of FieldCompiler / OneOfFieldCompiler / PydanticOneOfFieldCompiler / MapEntryCompiler *)
Definition field_args (o : options) (fd : fdesc) : list str :=
  match fd_label fd with
  | LMap k => [B "betterproto." ++ type_const (ft_type k); B "betterproto." ++ type_const (ft_type (fd_type fd))]
  | lab =>
      (match field_wraps fd with Some cn => [B "wraps=betterproto." ++ cn] | None => [] end)
      ++ (if fd_optional (o_pydantic o) fd then [B "optional=True"] else [])
      ++ (match lab with LOneof g => [B "group=" ++ dq :: g ++ [dq]] | _ => [] end)
  end.

Definition field_type_name (fd : fdesc) : str :=
  match fd_label fd with LMap _ => B "map" | _ => ptype_name (ft_type (fd_type fd)) end.

(* the right-hand side: betterproto.<type>_field(<number>[, args]) *)
Definition field_call (o : options) (fd : fdesc) : str :=
  B "betterproto." ++ field_type_name fd ++ B "_field(" ++ dec (fd_number fd)
  ++ flat_map (fun a => B ", " ++ a) (field_args o fd) ++ B ")".

(* FieldCompiler.get_field_string *)
Definition field_string (o : options) (fd : fdesc) : option str :=
  match annotation_str (o_compiler o) (o_pydantic o) fd with
  | Some a => Some (fd_name fd ++ B ": " ++ a ++ B " = " ++ field_call o fd)
  | None => None
  end.

(* what the generated call leaves in dataclasses.fields(...).metadata[''betterproto''] (FieldMetadata) *)
Record fmeta := {
  m_number : Z;
  m_proto_type : str;
  m_map_types : option (str * str);
  m_group : option str;
  m_wraps : option str;
  m_optional : bool
}.

Definition field_meta (o : options) (fd : fdesc) : fmeta :=
  {| m_number := fd_number fd;
     m_proto_type := field_type_name fd;
     m_map_types := match fd_label fd with
                    | LMap k => Some (ptype_name (ft_type k), ptype_name (ft_type (fd_type fd)))
                    | _ => None
                    end;
     m_group := match fd_label fd with LOneof g => Some g | _ => None end;
     m_wraps := match field_wraps fd with Some cn => assoc cn type_consts | None => None end;
     m_optional := match fd_label fd with LMap _ => false | _ => fd_optional (o_pydantic o) fd end |}.

Definition is_oneof_member (fd : fdesc) : bool :=
  match fd_label fd with LOneof _ => true | _ => false end.

(* pydantic variant: the generated enum declares core_schema.int_schema(ge=<bound>) *)
Definition enum_accepts (ge : option Z) (v : Z) : bool :=
  match ge with Some lo => lo <=? v | None => true end.

(* ------------------------------------------------------------------------------------------
   canonical values for the correspondence check
   ------------------------------------------------------------------------------------------ *)
Fixpoint cv_of_aty (a : aty) : cv :=
  match a with
  | ANone => CL [CZ 0]
  | AName n => CL [CZ 1; CB n]
  | AList e => CL [CZ 2; CL (map cv_of_aty e)]
  | ADict k v => CL [CZ 3; CL (map cv_of_aty k); CL (map cv_of_aty v)]
  | AIterable e => CL [CZ 4; CL (map cv_of_aty e)]
  | AAsyncIterable e => CL [CZ 5; CL (map cv_of_aty e)]
  | AAsyncIterator e => CL [CZ 6; CL (map cv_of_aty e)]
  end.
Definition cv_of_sty (s : sty) : cv := CL (map cv_of_aty s).

(* typing.Union additionally drops duplicate members (first occurrence wins).  [denote] keeps them, which is
   finer; [py_norm] applies the identification so that the harness can compare with CPython's evaluation of
   the same text.  Used by the correspondence only. *)
Fixpoint dedup_cv (seen : list cv) (l : list cv) : list cv :=
  match l with
  | [] => []
  | x :: r => if existsb (cv_eqb x) seen then dedup_cv seen r else x :: dedup_cv (x :: seen) r
  end.
(* on the canonical value: dedup every alternatives list, innermost first *)
Fixpoint cv_dedup_alts (fuel : nat) (v : cv) : cv :=
  match fuel with
  | O => v
  | S f =>
    match v with
    | CL [CZ 2; CL e] => CL [CZ 2; CL (dedup_cv [] (map (cv_dedup_alts f) e))]
    | CL [CZ 3; CL k; CL x] => CL [CZ 3; CL (dedup_cv [] (map (cv_dedup_alts f) k)); CL (dedup_cv [] (map (cv_dedup_alts f) x))]
    | CL [CZ 4; CL e] => CL [CZ 4; CL (dedup_cv [] (map (cv_dedup_alts f) e))]
    | CL [CZ 5; CL e] => CL [CZ 5; CL (dedup_cv [] (map (cv_dedup_alts f) e))]
    | CL [CZ 6; CL e] => CL [CZ 6; CL (dedup_cv [] (map (cv_dedup_alts f) e))]
    | _ => v
    end
  end.
Definition cv_py_norm (s : sty) : cv :=
  CL (dedup_cv [] (map (fun a => cv_dedup_alts 64 (cv_of_aty a)) s)).
Definition cstr (o : option str) : cv := copt CB o.
Definition cstrs (l : list str) : cv := CL (map CB l).

Definition cv_of_meta (m : fmeta) : cv :=
  CL [CZ (m_number m); CB (m_proto_type m);
      match m_map_types m with Some (k, v) => CL [CB k; CB v] | None => CN end;
      copt CB (m_group m); copt CB (m_wraps m); cbool (m_optional m)].

Definition cv_of_options (r : result options) : cv :=
  cres_any (fun o => CL [CZ (match o_compiler o with CDirect => 0 | CRoot => 1 | C310 => 2 end);
                         cbool (o_pydantic o)]) r.
