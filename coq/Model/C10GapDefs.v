(* C10 gap closing: new definitions only (nothing of the existing model is changed; no proofs here).

     ref_frame s            the reference reader of ONE length-prefixed frame (what google.protobuf's
                            parse_length_prefixed does before it hands the payload to the message parser): one varint n
                            of at most ten bytes, then exactly n bytes; EOF when fewer are there.  Independent of any
                            schema or class.
     ref_frames fuel s      the reference reader run to the end of the stream: the payloads, in order
     reached sc h m         m is the object the public-API history h = (class, operations) produces from a fresh
                            instance, and the history meets the decidable operation-level conditions of C01
                            (hist_ok op_reach_ok_p: Model/C01Reach.v, Model/C01Parse.v)
     agree_upto k s1 s2     two streams agree on their first k bytes (a fault - cut, overwrite, garbage - that starts at
                            byte k)
     unk_view sc m m'       what "the same message" means for a message that CARRIES unknown fields, at any depth *)
From BP Require Import Base.Prelude Model.Types Model.Varint Model.Object Model.Eq Model.Encode Model.Len Model.Decode.
From BP Require Import Model.WellFormed Model.C01Def Model.C07Ops Model.C01Reach Model.C01Parse Model.C10Stream.

Definition ref_frame (s : list byte) : result (list byte * list byte) :=
  do (n, _, r) <- load_varint s;
  if Zlength r <? n then Err EEof else Ok (firstn (Z.to_nat n) r, skipn (Z.to_nat n) r).

Fixpoint ref_frames (fuel : nat) (s : list byte) : result (list (list byte)) :=
  match fuel with
  | O => Err EFuel
  | Datatypes.S f =>
      match s with
      | [] => Ok []
      | _ => do (p, r) <- ref_frame s; do l <- ref_frames f r; Ok (p :: l)
      end
  end.

Definition reached (sc : schema) (h : nat * list op7) (m : obj) : Prop :=
  hist_ok op_reach_ok_p sc (new sc (fst h)) (snd h) = true /\ run7 sc (new sc (fst h)) (snd h) = Ok m.

Definition agree_upto {A} (k : nat) (s1 s2 : list A) : Prop := firstn k s1 = firstn k s2.

(* the returned message m' against the written one m: same bytes (hence same frame), same top-level unknown bytes, same
   class, same which_one_of; == in both operand orders when no NaN sits directly in a container (K7 of C01) *)
Definition unk_view (sc : schema) (m m' : obj) : Prop :=
  enc_obj sc m' = enc_obj sc m /\ dump sc m' true = dump sc m true /\ ounk m' = ounk m /\ ocls m' = ocls m /\
  (forall g, which_one_of m' g = which_one_of m g) /\
  (deep nan_free (PMsg m) = true -> obj_eq sc m' m = true /\ obj_eq sc m m' = true).
