(* C07 gap closing: specification-side definitions (nothing here mirrors a Python function).

   [track]: the LAST-WRITER TRACKER of the property text ("which_one_of names the member set last (or none)") as a fold over
   the history, written without looking at any object state except where the property itself does (the constructor looks at the
   values it was given):
     m.f = v  (top level, any v)      the group of f (if any) now names f
     m.parse(bs)                      every record (schema-less reader [records] of Model/C07Wire.v) of a declared field whose
                                      wire type fits makes the group of that field name it, in stream order
     Cls(kwargs) / Cls.from_dict(d)   per group: the last member in DECLARATION order given a non-sentinel value ([last_given]),
                                      none if no member was given one
     m.from_dict(d)                   one assignment per entry, in dict order
     everything else                  (reads, nested assignments, copy, deepcopy, pickle, bytes / len / dump / == / bool) nothing
   The harness's independent tracker (harness/props/c07.py) is the same function on the Python side.

   [framed_op]     the bytes of every parse operation are a sequence of records for the schema-less reader (decidable; field
                   number 0 and group wire types are what it excludes)
   [pickle_ok_at]  the condition asked of the state a pickle round trip starts from: C01's value condition and the size condition
                   of C01_roundtrip (exactly the hypotheses of C14's pickle theorem); C07GapA.pickle_selection_refuted shows that
                   without it the round trip can lose a selection. *)
From Coq Require Import ZArith List Bool.
From BP Require Import Base.Prelude Model.Types Model.Object Model.Eq Model.Encode Model.Decode.
From BP Require Import Model.History Model.C07Ops Model.C07Wire Model.C01Def Model.C14Pickle.
Import ListNotations.

Definition trk_name (f : fdesc) (i : nat) (cur : list (option nat)) : list (option nat) :=
  match fgroup f with Some g => set_nth g (Some i) cur | None => cur end.

Definition trk_set (cd : cdesc) (cur : list (option nat)) (i : nat) : list (option nat) :=
  match nth_error (cfields cd) i with
  | Some f => trk_name f i cur
  | None => cur
  end.

Definition trk_rec (cd : cdesc) (cur : list (option nat)) (r : Z * Z) : list (option nat) :=
  match field_by_number cd (fst r) with
  | Some (i, f) => if wire_type_fits f (snd r) then trk_name f i cur else cur
  | None => cur
  end.

(* the last member of group g, in declaration order from index j on, that was given a non-sentinel value *)
Fixpoint last_given (g j : nat) (fs : list fdesc) (raw : list pv) (acc : option nat) {struct fs} : option nat :=
  match fs, raw with
  | f :: fs', v :: raw' =>
      last_given g (S j) fs' raw'
        (if opt_nat_eqb (fgroup f) (Some g) && negb (is_sentinel f v) then Some j else acc)
  | _, _ => acc
  end.

Definition trk_ctor (sc : schema) (c : nat) (kw : list (nat * pv)) : list (option nat) :=
  let cd := get_class sc c in
  map (fun g => last_given g 0 (cfields cd) (oraw (construct sc c kw)) None) (seq 0 (cngroups cd)).

Definition trk_step (sc : schema) (c : nat) (cur : list (option nat)) (p : op7) : list (option nat) :=
  let cd := get_class sc c in
  match p with
  | OBase (OSet [] i _) => trk_set cd cur i
  | OBase (OParse bs) => match records bs with Some rs => fold_left (trk_rec cd) rs cur | None => cur end
  | OBase _ => cur
  | OConstruct kw | OFromDictCls kw => trk_ctor sc c kw
  | OFromDictInst kw => fold_left (fun cur iv => trk_set cd cur (fst iv)) kw cur
  end.

Definition track (sc : schema) (c : nat) (ops : list op7) : list (option nat) :=
  fold_left (trk_step sc c) ops (repeat None (cngroups (get_class sc c))).

(* ---- side conditions ---- *)
Definition framed_op (p : op7) : bool :=
  match p with OBase (OParse bs) => is_some (records bs) | _ => true end.

Definition pickle_ok_at (sc : schema) (o : obj) (p : op7) : bool :=
  match p with OBase OPickle => c01_value_ok sc o && enc_small sc o | _ => true end.

Definition trk_ok (sc : schema) (o : obj) (p : op7) : bool := framed_op p && pickle_ok_at sc o p.

(* does operation p (possibly) rename group g?  (an over-approximation used to say "nothing after it touches g") *)
Definition touches (sc : schema) (c : nat) (g : nat) (p : op7) : bool :=
  let cd := get_class sc c in
  let hit i := match nth_error (cfields cd) i with Some f => opt_nat_eqb (fgroup f) (Some g) | None => false end in
  match p with
  | OBase (OSet [] i _) => hit i
  | OBase (OParse bs) =>
      match records bs with
      | Some rs => existsb (fun r => match field_by_number cd (fst r) with
                                     | Some (_, f) => opt_nat_eqb (fgroup f) (Some g)
                                     | None => false end) rs
      | None => false
      end
  | OBase _ => false
  | OConstruct _ | OFromDictCls _ => true
  | OFromDictInst kw => existsb (fun iv => hit (fst iv)) kw
  end.
