(* C06 gap closing: evaluation helpers of the harness (harness/props/c06.py, stage "gap ties").  No proofs, no new
   vocabulary: every function below only PRINTS, as a canonical value [cv], what the specification-side definitions the
   sixth-batch theorems are stated over return on one input, so that the check can compare them with the implementation
   and with google.protobuf on every run.

   c06_gap_records      parse_records bs (Spec/C06Wire.v) as a list of (number, wire type, varint value, payload)
   c06_gap_bytes_obs    the same, then has_field_bytes of the fields at [idxs] and which_oneof_bytes of every group
                        (Model/C06GapDefs.v): compared with HasField / WhichOneof of the reference class on the same bytes
   c06_gap_obj_obs      on the object a history produced: the two decidable hypotheses of C06_encode_presence
                        (c01_value_ok, sow_ok of Model/C01Def.v) and the three observers its conclusion speaks about
                        (value_not_none at [io], which_one_of of every group, child_on_wire at [im])
   c06_gap_hyps         the two hypotheses separately (second pass, only for the objects outside them)
   c06_gap_schema_hyps  the schema hypotheses of C06_encode_presence
   c06_gap_implicit     the vocabulary of C06_implicit_emit_iff_partial / C06_implicit_nondefault_emit on one value x of
                        the field at index i: is_default, the contribution [here] (no oneof selection), and whether the
                        field is of an implicit_exact_kind (boolean twin of the Prop, same three disjuncts) *)
From Coq Require Import ZArith List Bool.
From BP Require Import Base.Prelude Model.Types Model.Object Model.Eq Model.Encode Model.Canon Model.C06Obs.
From BP Require Import Spec.C06Wire Model.C06GapDefs Model.C01Def.
Import ListNotations.
Local Open Scope Z_scope.

Definition cv_wrec (r : wrec) : cv := CL [CZ (rnum r); CZ (rwt r); CZ (rval r); CB (rbytes r)].

Definition c06_gap_records (bs : list byte) : cv :=
  match parse_records bs with Some rs => CL (map cv_wrec rs) | None => CE EOther end.

Definition cv_opt_bool (o : option bool) : cv := match o with Some b => cbool b | None => CE EOther end.
Definition cv_opt_sel (o : option (option nat)) : cv :=
  match o with Some s => copt (fun i => CZ (Z.of_nat i)) s | None => CE EOther end.

Definition c06_gap_bytes_obs (sc : schema) (c : nat) (idxs : list nat) (bs : list byte) : cv :=
  let cd := get_class sc c in
  CL [c06_gap_records bs;
      CL (map (fun i => match nth_error (cfields cd) i with
                        | Some f => cv_opt_bool (has_field_bytes f bs)
                        | None => CE EAttribute
                        end) idxs);
      CL (map (fun g => cv_opt_sel (which_oneof_bytes cd g bs)) (seq 0 (cngroups cd)))].

Definition c06_gap_obj_obs (sc : schema) (io im : list nat) (r : result obj) : cv :=
  match r with
  | Err _ => CE EOther
  | Ok o =>
      CL [cbool (c01_value_ok sc o); cbool (sow_ok sc o);
          CL (map (fun j => cbool (value_not_none sc o j)) io);
          CL (map (fun g => copt (fun i => CZ (Z.of_nat i)) (which_one_of o g)) (seq 0 (cngroups (get_class sc (ocls o)))));
          CL (map (fun j => cbool (child_on_wire o j)) im)]
  end.

Definition c06_gap_hyps (sc : schema) (r : result obj) : cv :=
  match r with
  | Err _ => CE EOther
  | Ok o => CL [cbool (c01_value_ok sc o); cbool (sow_ok sc o)]
  end.

Definition c06_gap_schema_hyps (sc : schema) : cv := cbool (c01_schema_ok sc && std_builtins_b sc).

Definition implicit_exact_kind_b (f : fdesc) : bool :=
  negb (base_wire_type (fty f) =? 2) ||
  (ptype_eqb (fty f) TString && hint_eqb (fhint f) (HPlain PyStr)) ||
  (ptype_eqb (fty f) TBytes && hint_eqb (fhint f) (HPlain PyBytes)).

Definition c06_gap_implicit (sc : schema) (c i : nat) (x : pv) : cv :=
  let cd := get_class sc c in
  match nth_error (cfields cd) i with
  | None => CE EAttribute
  | Some f =>
      CL [cbool (is_default sc f x);
          cv_bytes_res (here sc (repeat None (cngroups cd)) i x f);
          cbool (implicit_exact_kind_b f)]
  end.
