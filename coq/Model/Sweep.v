(* Executable sweeps used by the correspondence check only (no theorem depends on
   this file): exhaustive ranges are folded into a checksum inside Coq and the
   harness computes the same checksum over the implementation's outputs. *)
From BP Require Import Base.Prelude Model.Varint Model.Scalar.

(* Fletcher-style position-sensitive checksum: two running sums, additions only
   (binary-positive multiplication and division are too slow under vm_compute
   for millions of steps). *)
Definition hsum := (Z * Z)%type.
Definition h0 : hsum := (0, 0).
Definition mix (h : hsum) (x : Z) : hsum := let '(a, b) := h in let a' := a + x + 1 in (a', b + a').
Definition mix_bytes (h : hsum) (bs : list byte) : hsum :=
  fold_left (fun h b => mix h (Z_of_byte b)) bs (mix h (Zlength bs)).

Definition errcode (k : errkind) : Z :=
  match k with
  | EEof => 1 | ETooLong => 3 (* = EValue: both are ValueError *) | EValue => 3 | EUnicode => 4 | EStruct => 5 | EAttribute => 6
  | EType => 7 | EKey => 8 | EOverflow => 9 | EFuel => 10 | EOther => 11
  end.

(* checksum of encode_varint / size_varint over [lo, lo+n) *)
Definition sweep_encode (lo : Z) (n : N) : hsum :=
  snd (N.iter n (fun '(v, h) =>
    let h := match encode_varint v with Ok bs => mix_bytes h bs | Err k => mix h (- errcode k) end in
    let h := match size_varint v with Ok s => mix h s | Err k => mix h (- errcode k) end in
    (v + 1, h)) (lo, h0)).

(* checksum of zig-zag (both ways), sign recovery and bool over [lo, lo+n) *)
Definition sweep_scalar (lo : Z) (n : N) : hsum :=
  snd (N.iter n (fun '(v, h) =>
    let u := v mod 18446744073709551616 in
    let h := mix h (zigzag v) in
    let h := mix h (unzigzag u) in
    let h := mix h (sign_recover 32 u) in
    let h := mix h (sign_recover 64 u) in
    let h := mix h (if bool_of_varint u then 1 else 0) in
    (v + 1, h)) (lo, h0)).

Definition load_code (s : list byte) : hsum -> hsum := fun h =>
  match load_varint s with
  | Ok (v, raw, rest) => mix (mix (mix h v) (Zlength raw)) (Zlength rest)
  | Err k => mix h (- errcode k)
  end.

(* every byte string of length 0, 1 and 2 through load_varint *)
Definition sweep_load_short : hsum :=
  let h0 := load_code [] h0 in
  let h1 := snd (N.iter 256 (fun '(a, h) => (a + 1, load_code [byte_of_Z a] h)) (0, h0)) in
  snd (N.iter 65536 (fun '(n, h) => (n + 1, load_code [byte_of_Z (n mod 256); byte_of_Z (n / 256)] h)) (0, h1)).
