(* C01 over reachable objects, m.parse(bytes) on an existing (possibly used) object DISCHARGED: a decidable condition
   on the bytes - not on the state parsed into - under which [c01_value_ok] and [sow_ok] survive the merge that
   Message.parse performs (repeated fields append, packed payloads append all their items, map entries update the
   dict, a singular field / oneof member / sub-message is REPLACED by the last record through __setattr__, which
   resets the siblings of a oneof member).  No code is modelled here: predicates over Model/Decode.v as taken apart
   in Model/C01Def.v ([decode_value], [step], [loop]).

   [clean_bytes sc c bs]   walking the stream exactly as Message.load does (load_varint for the tag, _load_field for the
                           payload; a stream the reader itself rejects is vacuously clean: parse raises, no new state),
                           EVERY record satisfies [rec_ok]:
   [rec_ok]                the field number names a declared field of the class ([field_by_number]), the wire type fits
                           it ([wire_type_fits]) - so the record is not kept as unknown bytes -, and the value the decoder
                           computes for the record ([decode_value]: from the record alone, nested payloads are parsed into
                           FRESH objects, so this does not look at the target object) satisfies [dec_ok];
   [dec_ok sc f v]         v is a value of field f in the declared range after the decoder's own truncation
                           (a 10-byte varint in a uint32 field is not), every message inside it is clean at every depth
                           (in particular NO unknown bytes in nested payloads, oneof discipline, distinct dict keys):
                             repeated field : every item of a packed payload / the one item of an unpacked record;
                             map field      : key and value read back from the Entry message;
                             otherwise      : exactly [val_ok] of Model/C01Reach.v (what an assignment m.f = v is asked),
                                              and a message value carries its flag ([flagged]: mark_sow in
                                              _postprocess_single; what [flag_ok] asks). *)
From BP Require Import Base.Prelude Model.Types Model.Varint Model.Object Model.Eq Model.Encode Model.Decode Model.WellFormed.
From BP Require Import Model.History Model.C07Ops Model.C01Def Model.C01Reach.

Definition elem_ok (sc : schema) (t : ptype) (p : pyty) (y : pv) : bool :=
  elem_in_range sc t p y && deep (clean_ok sc) y.

Definition flagged (v : pv) : bool := match v with PMsg o => osow o | _ => true end.

Definition dec_ok (sc : schema) (f : fdesc) (value : pv) : bool :=
  match fhint f with
  | HList p' =>
      match value with
      | PList vs => forallb (elem_ok sc (fty f) p') vs
      | y => elem_ok sc (fty f) p' y
      end
  | HDict pk pv' =>
      match value, fmap f with
      | PMsg e, Some (kt, vt) =>
          match read sc e 0, read sc e 1 with
          | Ok k, Ok v => scalar_in_range kt k && elem_ok sc vt pv' v
          | _, _ => true                                   (* parse raises AttributeError: no new state *)
          end
      | _, _ => false
      end
  | _ => val_ok sc f value && flagged value
  end.

Definition rec_ok (fuel' : nat) (sc : schema) (cd : cdesc) (p : parsed) : bool :=
  match field_by_number cd (pnum p) with
  | None => false                                          (* unknown field number: kept as unknown bytes *)
  | Some (_, f) =>
      wire_type_fits f (pwt p) &&                          (* misfit: kept as unknown bytes *)
      match decode_value fuel' sc f p with
      | Ok v => dec_ok sc f v
      | Err _ => true                                      (* parse raises: no new state *)
      end
  end.

(* the walk of Message.load (size = None) *)
Fixpoint clean_loop (fuel' : nat) (sc : schema) (cd : cdesc) (n : nat) (s : list byte) {struct n} : bool :=
  match n with
  | O => true
  | S n' =>
      match s with
      | [] => true
      | _ =>
          match load_varint s with
          | Ok (num_wire, r, s1) =>
              match load_field fuel' s1 num_wire r with
              | Ok (p, s2) => rec_ok fuel' sc cd p && clean_loop fuel' sc cd n' s2
              | Err _ => true                              (* truncated / malformed record: parse raises *)
              end
          | Err _ => true
          end
      end
  end.

Definition clean_bytes (sc : schema) (c : nat) (bs : list byte) : bool :=
  clean_loop (length bs) sc (get_class sc c) (S (length bs)) bs.

(* ---- the conditions of Model/C01Reach.v with OParse discharged ---- *)
Definition op_value_ok_p (sc : schema) (o : obj) (p : op7) : bool :=
  match p with
  | OBase (OParse bs) => clean_bytes sc (ocls o) bs
  | _ => op_value_ok sc o p
  end.

Definition op_sow_ok_p (sc : schema) (o : obj) (p : op7) : bool :=
  match p with
  | OBase (OParse _) => true
  | _ => op_sow_ok sc o p
  end.

Definition op_reach_ok_p (sc : schema) (o : obj) (p : op7) : bool := op_value_ok_p sc o p && op_sow_ok_p sc o p.

(* every condition of a history is now a function of the operation, the class and (nested assignment, pickle) the
   objects on the path - never of a result state *)
