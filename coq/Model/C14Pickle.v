(* C14 / pickle: the decidable side conditions and report functions the pickle theorems are stated with.
   Nothing of the code is modelled anew here (pickle_rt itself is Model/History.v).

     enc_small sc o        bytes(o), if it exists, is shorter than 2^64 bytes (a longer length prefix would not
                           be read back; no Python object can reach it)
     child_flag sc o i     betterproto.serialized_on_wire(o.<field i>) for a readable message-valued attribute
     unk_records_ok sc o   the _unknown_fields of o are a concatenation of complete records, each of which the
                           class of o keeps verbatim when it parses it (number not declared, or wire type that
                           does not fit the declared type, groups included): exactly what Message.parse leaves
                           in _unknown_fields (Properties/C08.v, C08_raw_preserved) *)
From BP Require Import Base.Prelude Model.Types Model.Object Model.Eq Model.Encode Model.Decode Model.History Model.C14Ops.
From BP Require Import Model.C01Def Model.C08Step.

Definition enc_small (sc : schema) (o : obj) : bool :=
  match enc_obj sc o with Ok bs => Zlength bs <? 2 ^ 64 | Err _ => true end.

Definition child_flag (sc : schema) (o : obj) (i : nat) : bool :=
  match read sc o i with Ok (PMsg ch) => osow ch | _ => false end.

Definition unk_records_ok (sc : schema) (o : obj) : bool :=
  match frames (S (length (ounk o))) (ounk o) with
  | Some ps => forallb (is_unknown (get_class sc (ocls o))) ps
  | None => false
  end.

(* ---- side condition of the presence statement at EVERY path (C14_pickle_presence_everywhere) ----
   The wire format carries the flag of a nested message only by the presence of its record.  [flags_ok]: every nested
   message held by o carries its flag, except a singular one that is a fresh instance (what a lazy read leaves
   behind is a materialisation of that: covered through [mat]) and a map value that is a fresh instance; a flagged
   map value does not encode to nothing (an empty map value is not put on the wire: C14_pickle_map_value_flag_refuted). *)
Definition fresh_msg (sc : schema) (ch : obj) : bool := pv_same (PMsg ch) (PMsg (new sc (ocls ch))).
Definition enc_empty (sc : schema) (ch : obj) : bool := match enc_obj sc ch with Ok [] => true | _ => false end.

Definition slot_flags (sc : schema) (x : pv) : bool :=
  match x with
  | PMsg ch => osow ch || fresh_msg sc ch
  | PList l => forallb (fun y => match y with PMsg ch => osow ch | _ => true end) l
  | PDict d =>
      forallb (fun kv => match snd kv with
                         | PMsg ch => (osow ch && negb (enc_empty sc ch)) ||
                                      (negb (osow ch) && fresh_msg sc ch && enc_empty sc ch)
                         | _ => true
                         end) d
  | _ => true
  end.

Definition flags_ok (sc : schema) (o : obj) : bool := forallb (slot_flags sc) (oraw o).

(* ---- the hypotheses of the pickle theorems in one boolean each (evaluated by the check on every generated pickle
        case, harness/props/c14.py) ---- *)
Definition pickle_pre (sc : schema) (o : obj) : bool :=
  c01_schema_ok sc && c01_value_ok sc (clear_unk o) && unk_records_ok sc o && enc_small sc o.
Definition pickle_pre_eq (sc : schema) (o : obj) : bool := pickle_pre sc o && deep nan_free (PMsg o).
Definition pickle_pre_deep (sc : schema) (o : obj) : bool :=
  pickle_pre sc o && deep (sow_ok sc) (PMsg o) && deep (flags_ok sc) (PMsg o).
