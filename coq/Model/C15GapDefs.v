(* C15 gap closing: new definitions only (nothing of the existing model is changed; no proofs here).

     ts_rangeb t        decidable form of Spec.Time.in_ts_range: the instant lies in 0001-01-01T00:00:00Z ..
                        9999-12-31T23:59:59.999999Z
     dur_rangeb d       decidable form of Spec.Time.in_dur_range (+-315,576,000,000 s)
     td_rangeb d        every timedelta CPython can hold: |days| <= 999999999
     py_datetime dt     every AWARE datetime CPython can hold: the wall clock lies in datetime.min .. datetime.max and
                        the fixed UTC offset is strictly between -24 h and +24 h (timezone() raises ValueError otherwise).
                        Its INSTANT can leave Timestamp's range by up to a day on either side.
     K15_1_text s n     what the repaired delta_to_json writes for a whole number of seconds: the reference's text with
                        ".000" put in front of the "s" (known finding K15-1) *)
From BP Require Import Base.Prelude Model.Time Spec.Time.

Definition ts_rangeb (t : Z) : bool := (TS_MIN_US <=? t) && (t <=? TS_MAX_US).
Definition dur_rangeb (d : Z) : bool := (- (DUR_MAX_S * 1000000) <=? d) && (d <=? DUR_MAX_S * 1000000).
Definition td_rangeb (d : Z) : bool := Z.abs (td_days d) <=? 999999999.

Definition py_datetime (dt : datetime) : bool :=
  (DT_MIN_US <=? wall dt) && (wall dt <=? DT_MAX_US) && (- DAY_US <? off dt) && (off dt <? DAY_US).

Definition K15_1_text (s n : Z) : list byte := removelast (dur_json s n) ++ [cDOT; c0; c0; c0; cS].
