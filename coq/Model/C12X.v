(* C12 — definitions used by the extension theorems of Proofs/ChannelX*.v (capacity, termination measure,
   stability of done(), per-receiver logs).  Observations over the state of Model/Channel.v only: nothing here
   changes the transition system.  No proofs here. *)
From BP Require Import Base.Prelude Model.Channel.
From Coq Require Import Arith.
Local Open Scope nat_scope.

(* ---------------------------------------------------------------- (1) capacity *)
(* asyncio.Queue(maxsize): maxsize <= 0 means unbounded *)
Definition within_capacity (s : state) : bool :=
  Nat.eqb (maxsize s) 0 || Nat.leb (length (q s)) (maxsize s).

Definition task_of (s : state) (t : nat) : option task := nth_error (tasks s) t.

(* ---------------------------------------------------------------- (2) termination measure *)
(* weight of one operation of a program: what it may still cost.
   a put pays for the queue entry it creates (2), the getter it wakes (1) and itself (1);
   close() pays for the _flush_queue task it spawns (status 1 + IFlush 1) and itself (1);
   send_from pays for the puts (and the close) it unfolds into *)
Definition w_put : nat := 4.
Definition w_close : nat := 3.
Definition opw (o : op) : nat :=
  match o with
  | ISend | IPut | IPutFlush => w_put
  | ISendFrom n cl => 1 + n * w_put + w_close
  | IClose => w_close
  | ICancel _ => 2
  | IRecv | IRecvLoop | IIter _ | IYield | IFlush => 1
  end.
Fixpoint progw (p : list op) : nat := match p with [] => 0 | o :: r => opw o + progw r end.

(* a task that can run (or has a cancellation to deliver) carries one unit; a task parked in a deque carries none *)
Definition stw (a : status) : nat :=
  match a with
  | Ready | WokeGet | CancGet | WokePut | CancPut => 1
  | BlkGet | BlkPut | Fin _ => 0
  end.
Definition taskw (T : task) : nat := stw (st T) + progw (prog T).

Definition is_recv_op (o : op) : bool := match o with IRecv | IRecvLoop | IIter _ => true | _ => false end.
(* the task may (still) enter Queue.get() *)
Definition can_get (T : task) : nat := b2n (existsb is_recv_op (prog T)).

(* the sentinels _flush_queue will put are not in any program before it runs: at most one per task that can be inside get() *)
Definition flush_debt (s : state) : nat := if flushed s then 0 else w_put * sumf can_get (tasks s).

Definition measure (s : state) : nat := sumf taskw (tasks s) + 2 * length (q s) + flush_debt s.

(* computed from the configuration alone *)
Definition bound (c : config) : nat := measure (init c).

(* a run: the scheduler's choices, one atomic segment each; None when a chosen task cannot move *)
Fixpoint exec (s : state) (sch : list nat) : option state :=
  match sch with
  | [] => Some s
  | t :: r => match step s t with Some s' => exec s' r | None => None end
  end.

(* nothing can move *)
Definition stuck (s : state) : Prop := forall t, step s t = None.

(* a scheduler: any function choosing the next task from the state; [drive] lets it run for at most [fuel] segments
   and stops early when the chosen task cannot move *)
Fixpoint drive (ch : state -> nat) (fuel : nat) (s : state) : state :=
  match fuel with
  | O => s
  | S f => match step s (ch s) with Some s' => drive ch f s' | None => s end
  end.
(* the first runnable task, if any (the default scheduler of the examples) *)
Fixpoint first_runnable (i : nat) (l : list task) : nat :=
  match l with
  | [] => i
  | T :: r => if runnable T then i else first_runnable (S i) r
  end.
Definition pick_first (s : state) : nat := first_runnable 0 (tasks s).

(* ---------------------------------------------------------------- (3) stability of done() *)
Definition is_put_op (o : op) : bool := match o with IPut => true | _ => false end.
(* no send / send_from is past its closed-check with an item still to put *)
Definition senders_idle (s : state) : bool :=
  forallb (fun T => negb (existsb is_put_op (prog T))) (tasks s).
(* the sentinels _flush_queue still has to put fit under the receivers waiting for them *)
Definition sentinels_fit (s : state) : bool :=
  Nat.leb (length (q s) + sumf nflush (tasks s)) (W s).
(* no cancel() is still to be issued or delivered *)
Definition no_cancel_pending (s : state) : bool := forallb task_nocancel (tasks s).
Definition done_settled (s : state) : bool :=
  done s && senders_idle s && sentinels_fit s && no_cancel_pending s.

(* the task is inside get() and carries an undelivered cancellation *)
Definition cancelled_in_get_b (T : task) : bool :=
  match st T with CancGet => true | WokeGet => mc T | _ => false end.
(* the task's next segment is (the resumption of) a Queue.put *)
Definition at_put (T : task) : bool :=
  match prog T with (IPut | IPutFlush) :: _ => true | _ => false end.

(* configurations in which every send is one atomic segment: unbounded buffer and no send_from *)
Definition uop_atomic (o : uop) : bool := match o with USendFrom _ _ => false | _ => true end.
Definition cfg_atomic_send (c : config) : bool :=
  Nat.eqb (c_maxsize c) 0 && forallb (fun pb => forallb uop_atomic (fst pb)) (c_progs c).

(* ---------------------------------------------------------------- (4) what ONE receiver sees *)
Definition by_receiver (r : nat) (p : nat * item) : bool := Nat.eqb (fst p) r.
Definition received_by (s : state) (r : nat) : list item := map snd (filter (by_receiver r) (recv s)).
Definition msg_num (x : item) : nat := match x with Msg _ k => k | Flush => 0 end.

(* order-preserving embedding *)
Inductive sublist {A : Type} : list A -> list A -> Prop :=
| sl_nil : forall l, sublist [] l
| sl_keep : forall x a l, sublist a l -> sublist (x :: a) (x :: l)
| sl_skip : forall x a l, sublist a l -> sublist a (x :: l).

(* ---------------------------------------------------------------- (5) outcomes *)
Definition outcome_is_error (o : outcome) : bool := match o with OValueErr => true | _ => false end.
Definition outcome_is_cancel (o : outcome) : bool := match o with OCancelled | OTimeout => true | _ => false end.

(* ---------------------------------------------------------------- (5) receivers that keep receiving until the channel is done *)
Definition is_loop_uop (o : uop) : bool := match o with URecvLoop | UIter _ => true | _ => false end.
Definition is_loop_op (o : op) : bool := match o with IRecvLoop | IIter _ => true | _ => false end.
(* task i of the configuration contains a receive loop / an async-for over the channel *)
Definition loop_task (c : config) (i : nat) : bool :=
  match nth_error (c_progs c) i with Some pb => existsb is_loop_uop (fst pb) | None => false end.

(* ---------------------------------------------------------------- (3) continued: the weaker cancellation condition *)
Definition blocked_b (T : task) : bool := match st T with BlkGet | BlkPut => true | _ => false end.
(* no cancel() is still to be issued, no receiver inside get() carries an undelivered cancellation (and no parked task has
   _must_cancel set — an impossible combination, listed so that the condition is inductive by itself).  Cancellations
   pending on tasks outside get() are allowed. *)
Definition task_no_get_cancel (T : task) : bool :=
  forallb op_nocancel (prog T) && negb (cancelled_in_get_b T) && negb (blocked_b T && mc T).
Definition no_get_cancel (s : state) : bool := forallb task_no_get_cancel (tasks s).
Definition done_settled_c (s : state) : bool :=
  done s && senders_idle s && sentinels_fit s && no_get_cancel s.
