(* C14: the observers of a Message as state transformers, the relation "o' is o with some lazily
   created defaults written back" ([mat]: what any number of reads may do to the raw state), and the
   presence report of a message.  Extends Model/History.v (touch / get_in / copy / deepcopy / pickle_rt).
   No proofs here.

   Which observer touches what (src/betterproto/__init__.py):
     getattr (any path)     __getattribute__: a PLACEHOLDER slot that is readable gets its default stored with
                            object.__setattr__ (History.get_in)
     bytes / len / dump     walk the fields with getattr, recurse into what they serialise (History.touch)
     ==  bool  repr         use __raw_get only: no write at all
     to_dict / to_json /    read EVERY readable field with getattr (whatever they then decide to print), recurse into
     to_pydict              every element of a repeated message field, every message value of a map, and into a
                            singular message when it is flagged, proto3-optional (commit 159e9fd), selected in its group or include_default_values
                            ([todict_obj]; fuel = Python's recursion depth, include_default_values=True on a
                            recursive message type does not terminate in Python either: RecursionError) *)
From BP Require Import Base.Prelude Model.Types Model.Float Model.Object Model.Eq Model.Encode Model.Decode.
From BP Require Import Model.History.
From BP Require Import gen.Tables.

(* ---- syntactic equality of values ---- *)
Definition cur_same (a b : list (option nat)) : bool :=
  (fix go (a b : list (option nat)) : bool :=
     match a, b with
     | [], [] => true
     | x :: a', y :: b' => opt_nat_eqb x y && go a' b'
     | _, _ => false
     end) a b.

Fixpoint pv_same (a b : pv) {struct a} : bool :=
  match a, b with
  | PPlaceholder, PPlaceholder => true
  | PNone, PNone => true
  | PInt x, PInt y => x =? y
  | PBool x, PBool y => Bool.eqb x y
  | PFloat x, PFloat y => x =? y
  | PStr x, PStr y => bytes_eqb x y
  | PBytes x, PBytes y => bytes_eqb x y
  | PDatetime x, PDatetime y => x =? y
  | PTimedelta x, PTimedelta y => x =? y
  | PList x, PList y =>
      (fix go (x y : list pv) : bool :=
         match x, y with
         | [], [] => true
         | u :: x', v :: y' => pv_same u v && go x' y'
         | _, _ => false
         end) x y
  | PDict x, PDict y =>
      (fix go (x y : list (pv * pv)) : bool :=
         match x, y with
         | [], [] => true
         | (k, u) :: x', (k', v) :: y' => pv_same k k' && pv_same u v && go x' y'
         | _, _ => false
         end) x y
  | PMsg (Obj c ra sa ua ga), PMsg (Obj c' rb sb ub gb) =>
      Nat.eqb c c' && Bool.eqb sa sb && bytes_eqb ua ub && cur_same ga gb &&
      (fix go (x y : list pv) : bool :=
         match x, y with
         | [], [] => true
         | u :: x', v :: y' => pv_same u v && go x' y'
         | _, _ => false
         end) ra rb
  | _, _ => false
  end.

(* ---- materialisation: [mat sc f v v'] = the attribute of field [f] held [v] and now holds [v'], where the only
        changes are PLACEHOLDER slots (at any depth, in any number) that received the default of their field -
        possibly itself with defaults written into it by further reads.  Everything else (flags, unknown
        bytes, oneof selection, every value that was there) is syntactically the same. ---- *)
Fixpoint mat (sc : schema) (f : fdesc) (v v' : pv) {struct v'} : bool :=
  match v, v' with
  | PPlaceholder, PPlaceholder => true
  | _, _ =>
      match (match v with PPlaceholder => default_of sc f | _ => v end), v' with
      | PMsg (Obj c raw sow unk cur), PMsg (Obj c' raw' sow' unk' cur') =>
          Nat.eqb c c' && Bool.eqb sow sow' && bytes_eqb unk unk' && cur_same cur cur' &&
          (fix go (raw raw' : list pv) (fs : list fdesc) {struct raw'} : bool :=
             match raw, raw' with
             | [], [] => true
             | x :: r, x' :: r' =>
                 match fs with
                 | f' :: fs' => mat sc f' x x' && go r r' fs'
                 | [] => pv_same x x' && go r r' []
                 end
             | _, _ => false
             end) raw raw' (cfields (get_class sc c'))
      | PList l, PList l' =>
          (fix go (l l' : list pv) {struct l'} : bool :=
             match l, l' with
             | [], [] => true
             | x :: r, x' :: r' =>
                 (match x, x' with
                  | PMsg _, PMsg _ => mat sc f x x'
                  | _, _ => pv_same x x'
                  end) && go r r'
             | _, _ => false
             end) l l'
      | PDict d, PDict d' =>
          (fix go (d d' : list (pv * pv)) {struct d'} : bool :=
             match d, d' with
             | [], [] => true
             | (k, x) :: r, (k', x') :: r' =>
                 pv_same k k' &&
                 (match x, x' with
                  | PMsg _, PMsg _ => mat sc f x x'
                  | _, _ => pv_same x x'
                  end) && go r r'
             | _, _ => false
             end) d d'
      | PPlaceholder, _ => false
      | w, _ => pv_same w v'
      end
  end.

Definition dummy_field : fdesc := mkF [] 0 TInt32 None None None false (HPlain PyInt) 0.
Definition mat_obj (sc : schema) (o o' : obj) : bool := mat sc dummy_field (PMsg o) (PMsg o').

(* ---- to_dict / to_json / to_pydict: state afterwards ---- *)
Definition todict_child (rec : obj -> obj) (y : pv) : pv :=
  match y with PMsg ch => PMsg (rec ch) | _ => y end.

Fixpoint todict_obj (n : nat) (sc : schema) (idv : bool) (o : obj) {struct n} : obj :=
  match n with
  | O => o
  | S n' =>
      let 'Obj c raw sow unk cur := o in
      Obj c
        ((fix go (i : nat) (raw : list pv) (fs : list fdesc) {struct raw} : list pv :=
            match raw, fs with
            | x :: raw', f :: fs' =>
                (match group_selects cur f i with
                 | Some false => x                                    (* AttributeError: continue *)
                 | sel =>
                     let v := match x with PPlaceholder => default_of sc f | _ => x end in
                     if ptype_eqb (fty f) TMessage then
                       match v with
                       | PDatetime _ | PTimedelta _ => v
                       | _ =>
                           if is_some (fwraps f) then v
                           else
                             match fhint f with
                             | HList _ =>
                                 match v with
                                 | PList l => PList (map (todict_child (todict_obj n' sc idv)) l)
                                 | _ => v
                                 end
                             | _ =>
                                 match v with
                                 | PMsg ch =>
                                     if osow ch || idv || fopt f || (match sel with Some true => true | _ => false end)
                                     then PMsg (todict_obj n' sc idv ch) else v
                                 | _ => v
                                 end
                             end
                       end
                     else if ptype_eqb (fty f) TMap then
                       match v with
                       | PDict d => PDict (map (fun kv => (fst kv, todict_child (todict_obj n' sc idv) (snd kv))) d)
                       | _ => v
                       end
                     else v
                 end) :: go (Datatypes.S i) raw' fs'
            | _, _ => raw
            end) O raw (cfields (get_class sc c)))
        sow unk cur
  end.

(* ---- the observers ---- *)
Inductive observer :=
| BGet (path : list nat) (i : nat)          (* m.<path>.<i>, AttributeError included *)
| BBytes | BLen | BDump (delimit : bool)
| BEq (other : obj)                         (* m == other *)
| BEqR (other : obj)                        (* other == m *)
| BBool | BRepr
| BToDict (fuel : nat) (idv : bool)
| BToJson (fuel : nat) (idv : bool)
| BToPydict (fuel : nat) (idv : bool).

(* the state of the message after the observer has returned *)
Definition observe (sc : schema) (o : obj) (b : observer) : obj :=
  match b with
  | BGet path i => fst (get_in sc o path i)
  | BBytes | BLen | BDump _ => touch sc o
  | BEq _ | BEqR _ | BBool | BRepr => o
  | BToDict n idv | BToJson n idv | BToPydict n idv => todict_obj n sc idv o
  end.

Definition observe_all (sc : schema) (o : obj) (bs : list observer) : obj := fold_left (observe sc) bs o.

(* ---- what a message reports as present ----
   At the message itself: serialized_on_wire(m), which_one_of(m, g) for every group, and `m.f is None` for every
   field; and the same at every message reachable by reading: through a singular message field, the k-th
   element of a repeated field, the k-th value of a map.  Navigation is by reading ([read]: a PLACEHOLDER is
   seen as its default), exactly what a program can do. *)
Inductive pstep :=
| SField (i : nat)
| SItem (i k : nat)
| SValue (i k : nat).

Definition child_at (sc : schema) (o : obj) (s : pstep) : option obj :=
  match s with
  | SField i => match read sc o i with Ok (PMsg ch) => Some ch | _ => None end
  | SItem i k =>
      match read sc o i with
      | Ok (PList l) => match nth_error l k with Some (PMsg ch) => Some ch | _ => None end
      | _ => None
      end
  | SValue i k =>
      match read sc o i with
      | Ok (PDict d) => match nth_error d k with Some (_, PMsg ch) => Some ch | _ => None end
      | _ => None
      end
  end.

Fixpoint nav (sc : schema) (o : obj) (p : list pstep) : option obj :=
  match p with
  | [] => Some o
  | s :: p' => match child_at sc o s with Some ch => nav sc ch p' | None => None end
  end.

(* 0 = reading raises AttributeError, 1 = the value is None, 2 = any other value *)
Definition noneness (r : result pv) : nat :=
  match r with Err _ => 0 | Ok PNone => 1 | Ok _ => 2 end%nat.

Definition presence_here (sc : schema) (o : obj) : bool * list (option nat) * list nat :=
  (osow o, ocur o,
   map (fun i => noneness (read sc o i)) (seq 0 (length (cfields (get_class sc (ocls o)))))).

Definition presence_at (sc : schema) (o : obj) (p : list pstep) : option (bool * list (option nat) * list nat) :=
  match nav sc o p with Some o' => Some (presence_here sc o') | None => None end.

(* the same without the flag of the message itself (pickle: the unpickled top-level message is always flagged) *)
Definition presence_below (sc : schema) (o : obj) (p : list pstep) : option (bool * list (option nat) * list nat) :=
  match p, presence_at sc o p with
  | [], Some (_, cur, nn) => Some (true, cur, nn)
  | _, r => r
  end.

(* Message.is_set(name): the raw attribute is not the dataclass default (K4) *)
Definition is_set (sc : schema) (o : obj) (i : nat) : bool :=
  match nth_error (cfields (get_class sc (ocls o))) i with
  | None => false
  | Some f =>
      match nth i (oraw o) PPlaceholder with
      | PNone => negb (fopt f)
      | PPlaceholder => fopt f
      | _ => true
      end
  end.

(* ---- side conditions ---- *)
(* every message (recursively) has one raw attribute per declared field, and the elements of a repeated field /
   the values of a map are not themselves lists or dicts: true of every Python object *)
Definition flat (v : pv) : bool := match v with PList _ | PDict _ => false | _ => true end.
Fixpoint shaped (sc : schema) (v : pv) {struct v} : bool :=
  match v with
  | PMsg (Obj c raw _ _ _) =>
      Nat.eqb (length raw) (length (cfields (get_class sc c))) && forallb (shaped sc) raw
  | PList l => forallb (fun y => flat y && shaped sc y) l
  | PDict d =>
      (fix go (d : list (pv * pv)) : bool :=
         match d with
         | [] => true
         | (_, y) :: d' => flat y && shaped sc y && go d'
         end) d
  | _ => true
  end.
Definition shaped_obj (sc : schema) (o : obj) : bool := shaped sc (PMsg o).
Definition shaped_top (sc : schema) (o : obj) : bool :=
  Nat.eqb (length (oraw o)) (length (cfields (get_class sc (ocls o)))).

(* what the proofs use of wf_schema: a proto3-optional field is annotated Optional[...] *)
Definition opt_hint_ok (f : fdesc) : bool :=
  if fopt f then match fhint f with HOptional _ => true | _ => false end else true.
Definition schema_opt_ok (sc : schema) : bool :=
  forallb (fun cd => forallb opt_hint_ok (cfields cd)) (classes sc).

(* ---- canonical forms for the correspondence check ---- *)
Definition cv_presence (r : option (bool * list (option nat) * list nat)) : cv :=
  match r with
  | None => CN
  | Some (s, cur, nn) =>
      CL [cbool s; CL (map (copt (fun n => CZ (Z.of_nat n))) cur); CL (map (fun n => CZ (Z.of_nat n)) nn)]
  end.

Definition cv_is_set (sc : schema) (o : obj) : cv :=
  CL (map (fun i => cbool (is_set sc o i)) (seq 0 (length (cfields (get_class sc (ocls o)))))).

(* ---- the copy of the pinned tree (before commit 0ef9c00), kept for the refutation witness: kwargs = every raw
        attribute that is not PLACEHOLDER, through the constructor (whose __setattr__ raises the flag of a field-less
        message value and whose __post_init__ re-derives _group_current), then the flag and the unknown bytes of the
        original ---- *)
Definition init_arg (sc : schema) (v : pv) : pv := if fieldless sc v then mark_sow v else v.
Definition copy_ctor (sc : schema) (o : obj) : obj :=
  let 'Obj c raw sow unk _ := o in
  let 'Obj c' raw' _ _ cur' := post_init sc c (map (init_arg sc) raw) in
  Obj c' raw' sow unk cur'.

(* ---- when is == reflexive: no NaN inside a container (CPython's identity shortcut is not modelled, K7) and
        no two keys of a dict that compare equal (true of every Python dict) ---- *)
Fixpoint eq_refl_ok (sc : schema) (v : pv) {struct v} : bool :=
  match v with
  | PMsg (Obj _ raw _ _ _) => forallb (eq_refl_ok sc) raw
  | PList l => forallb (fun y => negb (pv_is_nan y) && eq_refl_ok sc y) l
  | PDict d =>
      (fix go (d : list (pv * pv)) : bool :=
         match d with
         | [] => true
         | (k, y) :: d' =>
             negb (pv_is_nan k) && eq_refl_ok sc k && negb (pv_is_nan y) && eq_refl_ok sc y &&
             negb (existsb (fun kv => pv_eq sc k (fst kv) || pv_eq sc (fst kv) k) d') && go d'
         end) d
  | _ => true
  end.
