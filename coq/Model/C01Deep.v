(* C01, observers at EVERY depth: [obs_deep] is [obs_top] (Model/C01Def.v: same _group_current, and for every attribute
   the same readability / None-ness / serialized_on_wire) applied to the two messages and, recursively, to every pair
   of nested message values they hold at the same place - singular attributes, list items and map values position by
   position (two lists / dicts of different length disagree; an attribute that holds a message on one side and a
   sentinel on the other is covered by the parent's obs_top: readability and flag of that attribute).
   [deep_sow_ok]: [sow_ok] at every nested message.  [deep_mapvals_emit]: no message held as a MAP VALUE encodes to
   nothing (such a value is dropped from the entry and comes back as a fresh instance, see norm_map_value). *)
From BP Require Import Base.Prelude Model.Types Model.Object Model.Eq Model.Encode Model.Decode Model.WellFormed Model.C01Def.

Fixpoint obs_deep (sc : schema) (a b : pv) {struct a} : bool :=
  match a, b with
  | PList x, PList y =>
      (fix go (x y : list pv) : bool :=
         match x, y with
         | [], [] => true
         | u :: x', v :: y' => obs_deep sc u v && go x' y'
         | _, _ => false
         end) x y
  | PDict x, PDict y =>
      (fix go (x y : list (pv * pv)) : bool :=
         match x, y with
         | [], [] => true
         | (_, u) :: x', (_, v) :: y' => obs_deep sc u v && go x' y'
         | _, _ => false
         end) x y
  | PMsg oa, PMsg ob =>
      obs_top sc oa ob &&
      (let 'Obj _ ra _ _ _ := oa in
       (fix go (x y : list pv) : bool :=
          match x, y with
          | [], [] => true
          | u :: x', v :: y' => obs_deep sc u v && go x' y'
          | _, _ => false
          end) ra (oraw ob))
  | _, _ => true
  end.

Definition deep_sow_ok (sc : schema) (o : obj) : bool := deep (sow_ok sc) (PMsg o).

Definition emits (sc : schema) (o : obj) : bool := match enc_obj sc o with Ok [] => false | _ => true end.
Definition vals_emit (sc : schema) (d : list (pv * pv)) : bool :=
  forallb (fun kv => match snd kv with PMsg o' => emits sc o' | _ => true end) d.
Definition mapvals_emit (sc : schema) (o : obj) : bool :=
  forallb (fun x => match x with PDict d => vals_emit sc d | _ => true end) (oraw o).
Definition deep_mapvals_emit (sc : schema) (o : obj) : bool := deep (mapvals_emit sc) (PMsg o).
