(* L1 mirror of _preprocess_single, _serialize_single and Message.dump / __bytes__
   (src/betterproto/__init__.py).  [enc_obj] is bytes(message); it is a pure function
   of the object state (the lazy-default write-back that dump performs through getattr
   is modelled separately, Model/History.v).  Proofs live in Proofs/. *)
From BP Require Import Base.Prelude Model.Types Model.Varint Model.Scalar Model.Float.
From BP Require Import Model.Object Model.Eq Model.TimeCore.
From BP Require Import gen.Tables.

Definition int_like (v : pv) : option Z :=
  match v with
  | PInt z => Some z
  | PBool b => Some (if b then 1 else 0)
  | _ => None
  end.

(* struct.pack(_pack_fmt(proto_type), value) *)
Definition pack_value (t : ptype) (v : pv) : result (list byte) :=
  match pack_fmt t with
  | None => Err EKey
  | Some FmtD => match v with PFloat b => Ok (le_bytes 8 b) | _ => Err EStruct end
  | Some FmtF =>
      match v with
      | PFloat b => match d2f b with Some w => Ok (le_bytes 4 w) | None => Err EOverflow end
      | _ => Err EStruct
      end
  | Some f => match int_like v with Some z => pack_int f z | None => Err EStruct end
  end.

(* [f] is bound outside the [fix] (like List.map) so that recursive functions over the nested
   type [pv] can be passed for [f] *)
Definition concat_map {A} (f : A -> result (list byte)) : list A -> result (list byte) :=
  fix go (l : list A) : result (list byte) :=
    match l with
    | [] => Ok []
    | x :: r => do a <- f x; do b <- go r; Ok (a ++ b)
    end.

Section Single.
  (* bytes(value) for the TYPE_MESSAGE branch of _preprocess_single, given `wraps` *)
  Variable msg : option ptype -> pv -> result (list byte).

  (* _preprocess_single(proto_type, wraps, value) *)
  Definition preprocess_with (t : ptype) (wraps : option ptype) (v : pv) : result (list byte) :=
    if tmem t [TEnum; TBool; TInt32; TInt64; TUInt32; TUInt64] then
      match int_like v with Some z => encode_varint z | None => Err EType end
    else if tmem t [TSInt32; TSInt64] then
      match int_like v with Some z => encode_varint (zigzag z) | None => Err EType end
    else if tmem t FIXED_TYPES then pack_value t v
    else if ptype_eqb t TString then
      match v with PStr s => Ok s | _ => Err EAttribute end
    else if ptype_eqb t TMessage then
      match v, wraps with
      | PDatetime _, _ | PTimedelta _, _ => msg wraps v
      | PNone, Some _ => Ok []                       (* elif wraps: if value is None: return b"" *)
      | _, _ => msg wraps v
      end
    else match v with PBytes b => Ok b | _ => Err EType end.

  (* _serialize_single(field_number, proto_type, value, serialize_empty=, wraps=) *)
  Definition serialize_with (num : Z) (t : ptype) (v : pv) (serialize_empty : bool)
             (wraps : option ptype) : result (list byte) :=
    do value <- preprocess_with t wraps v;
    if tmem t WIRE_VARINT_TYPES then
      do key <- encode_varint (Z.shiftl num 3); Ok (key ++ value)
    else if tmem t WIRE_FIXED_32_TYPES then
      do key <- encode_varint (Z.lor (Z.shiftl num 3) 5); Ok (key ++ value)
    else if tmem t WIRE_FIXED_64_TYPES then
      do key <- encode_varint (Z.lor (Z.shiftl num 3) 1); Ok (key ++ value)
    else if tmem t WIRE_LEN_DELIM_TYPES then
      if negb (Zlength value =? 0) || serialize_empty || (match wraps with Some _ => true | None => false end) then
        do key <- encode_varint (Z.lor (Z.shiftl num 3) 2);
        do n <- encode_varint (Zlength value);
        Ok (key ++ n ++ value)
      else Ok []
    else Err EOther.
End Single.

Definition no_msg (_ : option ptype) (_ : pv) : result (list byte) := Err EType.

(* bytes(M(v1, v2, ...)) for a bundled message with plain integer fields (Timestamp, Duration):
   a field equal to its default (0) is skipped *)
Definition layout_bytes (layout : list (list byte * Z * ptype)) (vals : list Z) : result (list byte) :=
  concat_map (fun '((_, num, t), z) =>
                if z =? 0 then Ok [] else serialize_with no_msg num t (PInt z) false None)
             (combine layout vals).

(* bytes(_get_wrapper(wraps)(value=v)): one plain `value = 1` field *)
Definition wrapper_bytes (w : ptype) (v : pv) : result (list byte) :=
  match wrapper_value_type w with
  | None => Err EKey
  | Some vt =>
      if is_default (mkS [] []) (plain_field value_name 1 vt) v then Ok []
      else serialize_with no_msg 1 vt v false None
  end.

(* the TYPE_MESSAGE branch: datetime, timedelta, wrapper, or a Message *)
Definition msg_bytes (enc_msg : obj -> result (list byte)) (wraps : option ptype) (v : pv)
  : result (list byte) :=
  match v with
  | PDatetime us => let '(s, n) := ts_pair_of_us us in layout_bytes timestamp_fields [s; n]
  | PTimedelta us => let '(s, n) := dur_pair_of_us us in layout_bytes duration_fields [s; n]
  | _ =>
      match wraps with
      | Some w => match v with PNone => Ok [] | _ => wrapper_bytes w v end
      | None => match v with PMsg o => enc_msg o | _ => Err EType end
      end
  end.

Definition is_some {A} (o : option A) : bool := match o with Some _ => true | None => false end.

(* the body of the loop of Message.dump for one field whose attribute value is [v]
   (not None, readable); [sel] = is this field the member its oneof group selects *)
Definition emit_field (enc_msg : obj -> result (list byte)) (sc : schema) (f : fdesc)
           (sel : option bool) (v : pv) : result (list byte) :=
  let msgf := msg_bytes enc_msg in
  let selected_in_group := is_some (fgroup f) || fopt f in
  let serialize_empty := match v with PMsg o => osow o | _ => false end in
  let include_default := match sel with Some true => true | _ => false end in
  if is_default sc f v && negb (selected_in_group || serialize_empty || include_default) then Ok []
  else
    match v with
    | PList items =>
        if tmem (fty f) PACKED_TYPES then
          do buf <- concat_map (preprocess_with msgf (fty f) None) items;
          serialize_with msgf (fnum f) TBytes (PBytes buf) false None
        else
          concat_map (fun item =>
                        do r <- serialize_with msgf (fnum f) (fty f) item true (fwraps f);
                        Ok (match r with [] => [x0a; x00] | _ => r end)) items
    | PDict kvs =>
        match fmap f with
        | None => Err EOther
        | Some (kt, vt) =>
            (fix entries (kvs : list (pv * pv)) : result (list byte) :=
               match kvs with
               | [] => Ok []
               | (k, v') :: r =>
                   do sk <- serialize_with msgf 1 kt k false None;
                   do sv <- serialize_with msgf 2 vt v' false None;
                   do e <- serialize_with msgf (fnum f) (fty f) (PBytes (sk ++ sv)) true None;
                   do rest <- entries r;
                   Ok (e ++ rest)
               end) kvs
        end
    | _ =>
        let serialize_empty' :=
          serialize_empty || (match v with PStr [] => include_default | _ => false end) in
        serialize_with msgf (fnum f) (fty f) v (serialize_empty' || selected_in_group) (fwraps f)
    end.

(* bytes(self) *)
Fixpoint enc_obj (sc : schema) (o : obj) {struct o} : result (list byte) :=
  let 'Obj c raw sow unk cur := o in
  do body <-
    (fix go (i : nat) (raw : list pv) (fs : list fdesc) {struct raw} : result (list byte) :=
       match raw, fs with
       | x :: raw', f :: fs' =>
           do here <-
             match group_selects cur f i with
             | Some false => Ok []                    (* getattr raised AttributeError: continue *)
             | sel =>
                 match x with
                 | PNone => Ok []                     (* value is None: continue *)
                 | PPlaceholder =>
                     match default_of sc f with
                     | PNone => Ok []
                     | d => emit_field (fun _ => Ok []) sc f sel d   (* bytes(Cls()) = b"" *)
                     end
                 | _ => emit_field (enc_obj sc) sc f sel x
                 end
             end;
           do rest <- go (Datatypes.S i) raw' fs';
           Ok (here ++ rest)
       | _, _ => Ok []
       end) O raw (cfields (get_class sc c));
  Ok (body ++ unk).
