(* Model/Importing.v — executable mirror of
     src/betterproto/compile/importing.py   (parse_source_type_name, get_type_reference,
                                             reference_absolute/sibling/descendent/ancestor/cousin)
     src/betterproto/compile/naming.py      (pythonize_class_name: a parameter, see below)
     src/betterproto/plugin/parser.py       (traverse's flattening of nested names; output path per
                                             package and the __init__.py files of parent directories)
   `str` is its UTF-8 byte list.  The model follows the code branch for branch, quirks included.
   No proofs here (Proofs/ImportingP.v).

   Two library functions of casing.py are called by the code: pascal_case (through
   pythonize_class_name) and safe_snake_case.  Casing is modelled elsewhere; this file does NOT
   depend on that model: both are Section variables, the theorems list what they need of them as
   hypotheses, and harness/props/c13.py samples those hypotheses on the real functions.  For
   executing the model (correspondence check, concrete Examples) [tbl_fun] turns a finite table of
   real input/output pairs into such a function.

   WRAPPER_TYPES comes from gen/C13Tables.v (regenerated from the live module). *)
From BP Require Import Base.Prelude.
From BP Require gen.C13Tables.
Local Open Scope nat_scope.

Definition b_dot : byte := x2e.     (* . *)
Definition b_us : byte := x5f.      (* _ *)
Definition b_nl : byte := x0a.      (* \n *)
Definition b_quote : byte := x22.   (* double quote *)
Definition b_slash : byte := x2f.   (* / *)

Definition s_betterproto : list byte := [x62; x65; x74; x74; x65; x72; x70; x72; x6f; x74; x6f].  (* 'betterproto' *)
Definition s_lib : list byte := [x6c; x69; x62].  (* 'lib' *)
Definition s_pydantic : list byte := [x70; x79; x64; x61; x6e; x74; x69; x63].  (* 'pydantic' *)
Definition s_google : list byte := [x67; x6f; x6f; x67; x6c; x65].  (* 'google' *)
Definition s_protobuf : list byte := [x70; x72; x6f; x74; x6f; x62; x75; x66].  (* 'protobuf' *)
Definition s_timedelta : list byte := [x74; x69; x6d; x65; x64; x65; x6c; x74; x61].  (* 'timedelta' *)
Definition s_datetime : list byte := [x64; x61; x74; x65; x74; x69; x6d; x65].  (* 'datetime' *)
Definition s_duration : list byte := [x2e; x67; x6f; x6f; x67; x6c; x65; x2e; x70; x72; x6f; x74; x6f; x62; x75; x66; x2e; x44; x75; x72; x61; x74; x69; x6f; x6e].  (* '.google.protobuf.Duration' *)
Definition s_timestamp : list byte := [x2e; x67; x6f; x6f; x67; x6c; x65; x2e; x70; x72; x6f; x74; x6f; x62; x75; x66; x2e; x54; x69; x6d; x65; x73; x74; x61; x6d; x70].  (* '.google.protobuf.Timestamp' *)
Definition s_init : list byte := [x5f; x5f; x69; x6e; x69; x74; x5f; x5f; x2e; x70; x79].  (* '__init__.py' *)
Definition s_from_sp : list byte := [x66; x72; x6f; x6d; x20].  (* 'from ' *)
Definition s_import_sp : list byte := [x20; x69; x6d; x70; x6f; x72; x74; x20].  (* ' import ' *)
Definition s_as_sp : list byte := [x20; x61; x73; x20].  (* ' as ' *)
Definition s_import_pre : list byte := [x69; x6d; x70; x6f; x72; x74; x20].  (* 'import ' *)
Definition s_from_dot_import : list byte := [x66; x72; x6f; x6d; x20; x2e; x20; x69; x6d; x70; x6f; x72; x74; x20].  (* 'from . import ' *)

Definition google_protobuf : list (list byte) := [s_google; s_protobuf].

(* ---- generic string / list helpers ---- *)
Definition upperb (c : byte) : bool :=          (* 'A' <= c <= 'Z' *)
  let n := Byte.to_N c in (N.leb 65 n && N.leb n 90)%bool.

(* str.split(sep) for a one-character separator *)
Fixpoint py_split (c : byte) (s : list byte) : list (list byte) :=
  match s with
  | [] => [[]]
  | x :: r =>
      if Byte.eqb x c then [] :: py_split c r
      else match py_split c r with
           | h :: t => (x :: h) :: t
           | [] => [[x]]
           end
  end.

(* sep.join(l) *)
Fixpoint py_join (c : byte) (l : list (list byte)) : list byte :=
  match l with
  | [] => []
  | [a] => a
  | a :: r => a ++ c :: py_join c r
  end.

Fixpoint path_eqb (a b : list (list byte)) : bool :=
  match a, b with
  | [], [] => true
  | x :: a', y :: b' => bytes_eqb x y && path_eqb a' b'
  | _, _ => false
  end.

(* os.path.commonprefix([a, b]) on two lists *)
Fixpoint common_prefix (a b : list (list byte)) : list (list byte) :=
  match a, b with
  | x :: a', y :: b' => if bytes_eqb x y then x :: common_prefix a' b' else []
  | _, _ => []
  end.

Fixpoint lstrip (c : byte) (s : list byte) : list byte :=
  match s with
  | x :: r => if Byte.eqb x c then lstrip c r else s
  | [] => []
  end.

(* what `.+` takes: up to (not including) the first newline *)
Fixpoint take_line (s : list byte) : list byte :=
  match s with
  | x :: r => if Byte.eqb x b_nl then [] else x :: take_line r
  | [] => []
  end.

(* finite table -> function; a miss yields "?" so that it shows up as a disagreement *)
Fixpoint tbl_fun (t : list (list byte * list byte)) (s : list byte) : list byte :=
  match t with
  | [] => [x3f]
  | (k, v) :: r => if bytes_eqb k s then v else tbl_fun r s
  end.

Fixpoint tbl_find (t : list (list byte * list byte)) (s : list byte) : option (list byte) :=
  match t with
  | [] => None
  | (k, v) :: r => if bytes_eqb k s then Some v else tbl_find r s
  end.

(* ---- parse_source_type_name: re.match(r"^\.?([^A-Z]+)\.(.+)", s) ---- *)

(* Inside the maximal run of non-[A-Z] characters at the start of t, the LAST position k >= 0
   such that t[k] = '.' and t[k+1] exists and is not a newline (greedy [^A-Z]+ backtracks from
   the longest run).  Returns (t[:k], t[k+1:]). *)
Fixpoint scan (t : list byte) : option (list byte * list byte) :=
  match t with
  | [] => None
  | c :: r =>
      if upperb c then None
      else match scan r with
           | Some (g, rest) => Some (c :: g, rest)
           | None =>
               if Byte.eqb c b_dot then
                 match r with
                 | d :: _ => if Byte.eqb d b_nl then None else Some ([], r)
                 | [] => None
                 end
               else None
           end
  end.

(* ([^A-Z]+)\.(.+) anchored at the start of t: group 1 must be non-empty *)
Definition match_body (t : list byte) : option (list byte * list byte) :=
  match scan t with
  | Some (c :: g, rest) => Some (c :: g, take_line rest)
  | _ => None
  end.

Definition parse_source_type_name (s : list byte) : list byte * list byte :=
  let with_dot :=      (* \.? consumes a leading dot first ... *)
    match s with
    | c :: r => if Byte.eqb c b_dot then match_body r else match_body s
    | [] => match_body s
    end in
  match with_dot with
  | Some r => r
  | None =>
      let without :=   (* ... and is given up only if that fails *)
        match s with
        | c :: _ => if Byte.eqb c b_dot then match_body s else None
        | [] => None
        end in
      match without with
      | Some r => r
      | None => ([], lstrip b_dot s)
      end
  end.

(* `x.split(".") if x else []` *)
Definition split_pkg (p : list byte) : list (list byte) :=
  match p with [] => [] | _ => py_split b_dot p end.

Definition quoted (s : list byte) : list byte := b_quote :: s ++ [b_quote].

Section Importing.
  Variable cls_name : list byte -> list byte.   (* naming.pythonize_class_name = casing.pascal_case *)
  Variable snake : list byte -> list byte.      (* casing.safe_snake_case *)
  Variable optional : list byte -> list byte.   (* typing_compiler.optional *)

  (* result: (returned string, the line added to `imports` if any) *)
  Definition ref_result := (list byte * option (list byte))%type.

  Definition reference_absolute (py_package : list (list byte)) (py_type : list byte) : ref_result :=
    let string_import := py_join b_dot py_package in
    let string_alias := snake string_import in
    (quoted (string_alias ++ b_dot :: py_type),
     Some (s_import_pre ++ string_import ++ s_as_sp ++ string_alias)).

  Definition reference_sibling (py_type : list byte) : ref_result := (quoted py_type, None).

  Definition reference_descendent (current_package py_package : list (list byte)) (py_type : list byte) : ref_result :=
    let importing_descendent := skipn (length current_package) py_package in
    let string_from := py_join b_dot (removelast importing_descendent) in
    let string_import := last importing_descendent [] in
    match string_from with
    | _ :: _ =>
        let string_alias := py_join b_us importing_descendent in
        (quoted (string_alias ++ b_dot :: py_type),
         Some (s_from_sp ++ b_dot :: string_from ++ s_import_sp ++ string_import ++ s_as_sp ++ string_alias))
    | [] =>
        (quoted (string_import ++ b_dot :: py_type), Some (s_from_dot_import ++ string_import))
    end.

  Definition reference_ancestor (current_package py_package : list (list byte)) (py_type : list byte) : ref_result :=
    let distance_up := length current_package - length py_package in
    match py_package with
    | _ :: _ =>
        let string_import := last py_package [] in
        let string_alias := b_us :: repeat b_us distance_up ++ string_import ++ [b_us; b_us] in
        let string_from := b_dot :: b_dot :: repeat b_dot distance_up in
        (quoted (string_alias ++ b_dot :: py_type),
         Some (s_from_sp ++ string_from ++ s_import_sp ++ string_import ++ s_as_sp ++ string_alias))
    | [] =>
        let string_alias := repeat b_us distance_up ++ py_type ++ [b_us; b_us] in
        (quoted string_alias,
         Some (s_from_sp ++ b_dot :: repeat b_dot distance_up ++ s_import_sp ++ py_type ++ s_as_sp ++ string_alias))
    end.

  Definition reference_cousin (current_package py_package : list (list byte)) (py_type : list byte) : ref_result :=
    let shared_ancestry := common_prefix current_package py_package in
    let distance_up := length current_package - length shared_ancestry in
    let string_from := b_dot :: repeat b_dot distance_up
                       ++ py_join b_dot (removelast (skipn (length shared_ancestry) py_package)) in
    let string_import := last py_package [] in
    let string_alias := repeat b_us distance_up
                        ++ snake (py_join b_dot (skipn (length shared_ancestry) py_package))
                        ++ [b_us; b_us] in
    (quoted (string_alias ++ b_dot :: py_type),
     Some (s_from_sp ++ string_from ++ s_import_sp ++ string_import ++ s_as_sp ++ string_alias)).

  (* the `if unwrap:` block: Some r = returned early with r *)
  Definition early_return (source_type : list byte) : option (list byte) :=
    match tbl_find C13Tables.wrapper_types source_type with
    | Some pyname => Some (optional pyname)
    | None =>
        if bytes_eqb source_type s_duration then Some s_timedelta
        else if bytes_eqb source_type s_timestamp then Some s_datetime
        else None
    end.

  Definition get_type_reference (package source_type : list byte) (unwrap pydantic : bool) : ref_result :=
    match (if unwrap then early_return source_type else None) with
    | Some r => (r, None)
    | None =>
        let '(source_package, source_type') := parse_source_type_name source_type in
        let current_package := split_pkg package in
        let py_package := split_pkg source_package in
        let py_type := cls_name source_type' in
        let compiling_google_protobuf := path_eqb current_package google_protobuf in
        let importing_google_protobuf := path_eqb py_package google_protobuf in
        let py_package :=
          if (importing_google_protobuf && negb compiling_google_protobuf)%bool
          then [s_betterproto; s_lib] ++ (if pydantic then [s_pydantic] else []) ++ py_package
          else py_package in
        if path_eqb (firstn 1 py_package) [s_betterproto] then reference_absolute py_package py_type
        else if path_eqb py_package current_package then reference_sibling py_type
        else if path_eqb (firstn (length current_package) py_package) current_package
             then reference_descendent current_package py_package py_type
        else if path_eqb (firstn (length py_package) current_package) py_package
             then reference_ancestor current_package py_package py_type
        else reference_cousin current_package py_package py_type
    end.

  (* ---- what the plugin DEFINES (parser.py traverse + MessageCompiler.py_name) ----
     traverse renames every message/enum to f"{prefix}_{name}", prefix being the renamed parent
     ("" at top level): Foo -> "_Foo", Foo.Bar -> "_Foo_Bar"; the class statement uses
     pythonize_class_name of that. [nested] is the list of proto names from outermost to innermost. *)
  Fixpoint flat_name (prefix : list byte) (nested : list (list byte)) : list byte :=
    match nested with
    | [] => prefix
    | n :: r => flat_name (prefix ++ b_us :: n) r
    end.
  Definition defined_class_name (nested : list (list byte)) : list byte := cls_name (flat_name [] nested).
End Importing.

(* ---- output files (parser.py generate_code, "Generate output files") ----
   output_path = pathlib.Path of the segments of package.split(".") followed by "__init__.py": pathlib drops empty
   components.  Every parent directory of an output path (the output root included) gets an
   empty __init__.py unless it already is an output path.  (`.exists()` is evaluated against the
   plugin's working directory, which is not modelled: assumed not to contain these files.) *)
Definition nonemptyb (s : list byte) : bool := match s with [] => false | _ => true end.
Definition output_dir (package : list byte) : list (list byte) := filter nonemptyb (py_split b_dot package).

Fixpoint prefixes {A} (l : list A) : list (list A) :=     (* [] first, l last *)
  match l with
  | [] => [[]]
  | x :: r => [] :: map (cons x) (prefixes r)
  end.

Definition path_mem (d : list (list byte)) (l : list (list (list byte))) : bool := existsb (path_eqb d) l.

Fixpoint path_dedup (l : list (list (list byte))) : list (list (list byte)) :=
  match l with
  | [] => []
  | d :: r => if path_mem d r then path_dedup r else d :: path_dedup r
  end.

(* directories that end up holding an __init__.py (as a set: duplicates removed) *)
Definition generated_dirs (packages : list (list byte)) : list (list (list byte)) :=
  path_dedup (flat_map (fun p => prefixes (output_dir p)) packages).

Definition file_name (dir : list (list byte)) : list byte := py_join b_slash (dir ++ [s_init]).

(* names of the files with generated CONTENT (one per package) *)
Definition content_files (packages : list (list byte)) : list (list byte) :=
  map (fun p => file_name (output_dir p)) packages.
(* names of all files in the response *)
Definition response_files (packages : list (list byte)) : list (list byte) :=
  map file_name (generated_dirs packages).

(* ---- sweeps used by the correspondence check only (no theorem depends on them) ----
   Exhaustive families are enumerated inside Coq and folded into a position-sensitive checksum
   (two running sums, additions only); the harness computes the same checksum over the
   implementation's outputs and falls back to case-by-case comparison where they differ. *)
Local Open Scope Z_scope.
Definition hsum := (Z * Z)%type.
Definition hmix (h : hsum) (x : Z) : hsum := let '(a, b) := h in let a' := a + x + 1 in (a', b + a').
Definition hmix_bytes (h : hsum) (bs : list byte) : hsum :=
  fold_left (fun h b => hmix h (Z_of_byte b)) bs (hmix h (Zlength bs)).
Definition hcv (h : hsum) : cv := CL [CZ (fst h); CZ (snd h)].

(* all strings of exactly n characters over alpha, in itertools.product order *)
Fixpoint strings_of_len (alpha : list byte) (n : nat) : list (list byte) :=
  match n with
  | O => [[]]
  | S n' => flat_map (fun c => map (cons c) (strings_of_len alpha n')) alpha
  end.

Definition sweep_parse (alpha : list byte) (pre : list byte) (n : nat) : hsum :=
  fold_left (fun h s => let '(p, t) := parse_source_type_name (pre ++ s) in hmix_bytes (hmix_bytes h p) t)
            (strings_of_len alpha n) (0, 0).

(* all paths of exactly n segments over alpha, in itertools.product order *)
Fixpoint paths_of_len (alpha : list (list byte)) (n : nat) : list (list (list byte)) :=
  match n with
  | O => [[]]
  | S n' => flat_map (fun c => map (cons c) (paths_of_len alpha n')) alpha
  end.
Definition paths_upto (alpha : list (list byte)) (n : nat) : list (list (list byte)) :=
  flat_map (paths_of_len alpha) (seq 0 (S n)).

Definition sweep_refs (cls_name snake optional : list byte -> list byte)
    (cur : list (list byte)) (targets : list (list (list byte))) (kinds : list (list byte))
    (unwrap pydantic : bool) : hsum :=
  fold_left (fun h tgt =>
    fold_left (fun h kind =>
      let '(r, i) := get_type_reference cls_name snake optional (py_join b_dot cur)
                        (b_dot :: py_join b_dot (tgt ++ [kind])) unwrap pydantic in
      match i with
      | Some s => hmix_bytes (hmix_bytes h r) s
      | None => hmix (hmix_bytes h r) (-1)
      end) kinds h) targets (0, 0).
