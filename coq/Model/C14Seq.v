(* C14: observers, copy and deepcopy "in any order" (the quantifier of the property): a sequence of them as one state
   transformer, and the decidable shape condition the copy theorems need at the points where a copy is taken (one raw
   attribute per declared field: true of every Python object).  No proofs here. *)
From BP Require Import Base.Prelude Model.Types Model.Object Model.History Model.C14Ops.

Inductive cop :=
| CObserve (b : observer)
| CCopy
| CDeepcopy.

Definition apply_cop (sc : schema) (o : obj) (c : cop) : obj :=
  match c with
  | CObserve b => observe sc o b
  | CCopy => copy sc o
  | CDeepcopy => deepcopy sc o
  end.

Definition apply_cops (sc : schema) (o : obj) (l : list cop) : obj := fold_left (apply_cop sc) l o.

Fixpoint cops_shaped (sc : schema) (o : obj) (l : list cop) {struct l} : bool :=
  match l with
  | [] => true
  | c :: r =>
      (match c with CObserve _ => true | CCopy => shaped_top sc o | CDeepcopy => shaped_obj sc o end) &&
      cops_shaped sc (apply_cop sc o c) r
  end.
