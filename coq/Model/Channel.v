(* L1 mirror of src/betterproto/grpc/util/async_channel.py (AsyncChannel) together with
   the parts of CPython 3.12 asyncio it relies on (asyncio.Queue get/put/get_nowait/
   put_nowait/_wakeup_next/task_done with their cancellation handlers, Task.cancel,
   ensure_future), as a transition system over schedules.  No proofs here.

   One transition [step s t] lets task [t] execute one *atomic segment*: a piece of code
   that contains no suspension point (asyncio tasks are cooperative: nothing else runs
   inside such a segment).  A segment ends either at a real suspension (the task blocked
   in get/put, executed sleep(0), or finished) or at an operation boundary of the task's
   program.  [step_b] also returns that flag: [true] = the task really gave control back
   to the event loop.  The event loop's behaviour "run one ready handle to its next
   suspension" is [macro] = iterate [step_b] while the flag is [false].  The reachability
   relation of the theorems closes over the *finer* relation [step] with an arbitrary task
   chosen each time, which contains every schedule of the real ready queue (and those of
   programs with a sleep(0) between any two operations).

   Futures are not separate objects: a task awaits at most one future at a time, so the
   future's state is part of the task's status
     BlkGet/BlkPut   pending future, sitting in _getters/_putters
     WokeGet/WokePut set_result(None) was called by _wakeup_next (future popped from the deque);
                     the task's __wakeup handle is in the ready queue
     CancGet/CancPut the future was cancelled by Task.cancel(); it may still sit in the deque
                     (it is removed by the task itself when it resumes, or skipped by _wakeup_next)
   and [mc] is Task._must_cancel (cancel() hit a task that was not waiting on a pending future). *)
From BP Require Import Base.Prelude.
From Coq Require Import Arith.
Local Open Scope nat_scope.

Inductive item := Msg (t k : nat) | Flush.          (* k-th item sent by task t | the __flush sentinel *)

Inductive outcome :=
| ORet         (* coroutine returned *)
| OClosed      (* ChannelClosed *)
| ODone        (* ChannelDone *)
| OCancelled   (* CancelledError *)
| OTimeout     (* TimeoutError (the task body ran under asyncio.wait_for) *)
| OValueErr.   (* ValueError('task_done() called too many times') *)

Inductive status :=
| Ready | BlkGet | WokeGet | CancGet | BlkPut | WokePut | CancPut | Fin (o : outcome).

(* what a configuration may contain *)
Inductive uop :=
| USend                          (* await ch.send(next item) *)
| USendFrom (n : nat) (cl : bool)(* await ch.send_from([n next items], close=cl) *)
| URecv                          (* x = await ch.receive() *)
| URecvLoop                      (* while True: x = await ch.receive(); if x is None: break   (ChannelDone ends the loop too) *)
| UIter (y : bool)               (* async for x in ch: [await sleep(0) if y]   (y: the consumer _send_messages) *)
| UClose                         (* ch.close() *)
| UCancel (u : nat)              (* tasks[u].cancel()  (also: the wait_for timer of task u firing) *)
| UYield.                        (* await asyncio.sleep(0) *)

(* internal program: user ops + the pieces send_from / _flush_queue unfold into *)
Inductive op :=
| ISend | ISendFrom (n : nat) (cl : bool) | IPut | IRecv | IRecvLoop | IIter (y : bool)
| IClose | ICancel (u : nat) | IYield
| IFlush          (* body of _flush_queue *)
| IPutFlush.      (* await self._queue.put(self.__flush) *)

Definition compile (o : uop) : op :=
  match o with
  | USend => ISend | USendFrom n cl => ISendFrom n cl | URecv => IRecv | URecvLoop => IRecvLoop
  | UIter y => IIter y | UClose => IClose | UCancel u => ICancel u | UYield => IYield
  end.

Record task := mkT { prog : list op; st : status; mc : bool; nsent : nat; tmo : bool }.

Record state := mkS {
  q : list item;            (* _queue._queue *)
  maxsize : nat;            (* _queue._maxsize, 0 = unbounded *)
  getters : list nat;       (* _queue._getters: owning task of each future *)
  putters : list nat;       (* _queue._putters *)
  closed : bool;            (* _closed *)
  flushed : bool;           (* _flushed *)
  W : nat;                  (* _waiting_receivers *)
  unfin : nat;              (* _queue._unfinished_tasks *)
  tasks : list task;
  pinned : bool;            (* true: task_done() inside finally (pinned tree); false: after fix F10 *)
  (* history (ghost) *)
  sent : list item;         (* items whose put completed, in order *)
  recv : list (nat * item); (* (receiver, item) in dequeue order, items actually returned to a receiver *)
  npre : nat;               (* length of [sent] at the first close() *)
  drained : bool            (* some receive/iteration has observed the end (ChannelDone, None, StopAsyncIteration) *)
}.

Definition status_eqb (a b : status) : bool :=
  match a, b with
  | Ready, Ready | BlkGet, BlkGet | WokeGet, WokeGet | CancGet, CancGet
  | BlkPut, BlkPut | WokePut, WokePut | CancPut, CancPut => true
  | _, _ => false
  end.

Definition is_fin (a : status) : bool := match a with Fin _ => true | _ => false end.

(* ---- setters ---- *)
Definition set_st (T : task) (x : status) : task := mkT (prog T) x (mc T) (nsent T) (tmo T).
Definition set_prog (T : task) (p : list op) : task := mkT p (st T) (mc T) (nsent T) (tmo T).
Definition set_mc (T : task) (b : bool) : task := mkT (prog T) (st T) b (nsent T) (tmo T).
Definition finished (T : task) (o : outcome) : task := mkT [] (Fin o) false (nsent T) (tmo T).

Fixpoint upd (l : list task) (t : nat) (x : task) : list task :=
  match l, t with
  | [], _ => []
  | _ :: r, O => x :: r
  | a :: r, S t' => a :: upd r t' x
  end.

Definition with_tasks (s : state) (ts : list task) : state :=
  mkS (q s) (maxsize s) (getters s) (putters s) (closed s) (flushed s) (W s) (unfin s) ts (pinned s)
      (sent s) (recv s) (npre s) (drained s).
Definition with_getters (s : state) (g : list nat) (ts : list task) : state :=
  mkS (q s) (maxsize s) g (putters s) (closed s) (flushed s) (W s) (unfin s) ts (pinned s)
      (sent s) (recv s) (npre s) (drained s).
Definition with_putters (s : state) (p : list nat) (ts : list task) : state :=
  mkS (q s) (maxsize s) (getters s) p (closed s) (flushed s) (W s) (unfin s) ts (pinned s)
      (sent s) (recv s) (npre s) (drained s).
Definition with_W (s : state) (w : nat) : state :=
  mkS (q s) (maxsize s) (getters s) (putters s) (closed s) (flushed s) w (unfin s) (tasks s) (pinned s)
      (sent s) (recv s) (npre s) (drained s).
Definition with_unfin (s : state) (u : nat) : state :=
  mkS (q s) (maxsize s) (getters s) (putters s) (closed s) (flushed s) (W s) u (tasks s) (pinned s)
      (sent s) (recv s) (npre s) (drained s).
Definition with_drained (s : state) : state :=
  mkS (q s) (maxsize s) (getters s) (putters s) (closed s) (flushed s) (W s) (unfin s) (tasks s) (pinned s)
      (sent s) (recv s) (npre s) true.
Definition set_task (s : state) (t : nat) (T : task) : state := with_tasks s (upd (tasks s) t T).

(* ---- asyncio.Queue._wakeup_next(waiters):
       while waiters: waiter = waiters.popleft()
                      if not waiter.done(): waiter.set_result(None); break
   a waiter is "not done" iff its task still has status [blk]. *)
Fixpoint wakeup (blk woke : status) (l : list nat) (ts : list task) : list nat * list task :=
  match l with
  | [] => ([], ts)
  | u :: l' =>
      match nth_error ts u with
      | Some U => if status_eqb (st U) blk then (l', upd ts u (set_st U woke)) else wakeup blk woke l' ts
      | None => wakeup blk woke l' ts
      end
  end.

Definition wake_getters (s : state) : state :=
  let r := wakeup BlkGet WokeGet (getters s) (tasks s) in with_getters s (fst r) (snd r).
Definition wake_putters (s : state) : state :=
  let r := wakeup BlkPut WokePut (putters s) (tasks s) in with_putters s (fst r) (snd r).

(* deque.remove(fut) (first occurrence; ValueError swallowed when absent) *)
Fixpoint remove1 (t : nat) (l : list nat) : list nat :=
  match l with
  | [] => []
  | u :: r => if Nat.eqb u t then r else u :: remove1 t r
  end.

Definition full (s : state) : bool := negb (Nat.eqb (maxsize s) 0) && Nat.leb (maxsize s) (length (q s)).
Definition empty (s : state) : bool := match q s with [] => true | _ => false end.
(* AsyncChannel.done() *)
Definition done (s : state) : bool := closed s && Nat.leb (length (q s)) (W s).

Definition cancel_out (T : task) : outcome := if tmo T then OTimeout else OCancelled.

(* ---- Queue.put_nowait(x) when not full: _put; _unfinished_tasks += 1; _wakeup_next(_getters) ---- *)
Definition put_nowait (s : state) (x : item) : state :=
  let s1 := mkS (q s ++ [x]) (maxsize s) (getters s) (putters s) (closed s) (flushed s) (W s) (S (unfin s))
                (tasks s) (pinned s)
                (match x with Msg _ _ => sent s ++ [x] | Flush => sent s end) (recv s) (npre s) (drained s) in
  wake_getters s1.

(* `await self._queue.put(x)` entered (or re-entered after a wake-up) by task t whose
   remaining program after this put is p; [again] is the op to leave at the head while blocked *)
Definition do_put (s : state) (t : nat) (T : task) (x : item) (again : op) (p : list op) : state * bool :=
  if full s then
    (with_putters s (putters s ++ [t]) (upd (tasks s) t (mkT (again :: p) BlkPut (mc T) (nsent T) (tmo T))), true)
  else
    let s1 := put_nowait s x in
    let n := match x with Msg _ _ => S (nsent T) | Flush => nsent T end in
    (set_task s1 t (mkT p Ready (mc T) n (tmo T)), false).

(* the item task t sends next *)
Definition next_item (t : nat) (T : task) : item := Msg t (nsent T).

(* result of a receive-like op that obtained x / saw the end; p = rest of the program, o = the op itself *)
Definition after_item (o : op) (p : list op) : list op * bool :=
  match o with
  | IRecv => (p, false)
  | IIter y => (o :: p, y)
  | _ => (o :: p, false)        (* IRecvLoop *)
  end.

(* `finally: self._waiting_receivers -= 1; self._queue.task_done()` on the exceptional path.
   pinned: task_done runs; ValueError if _unfinished_tasks <= 0 (replacing the exception in flight).
   fixed (F10): task_done is not called on this path. *)
Definition finally_cancelled (s : state) (t : nat) (T : task) : state :=
  let s1 := with_W s (W s - 1) in
  if pinned s then
    match unfin s1 with
    | O => set_task s1 t (finished T OValueErr)
    | S u => set_task (with_unfin s1 u) t (finished T (cancel_out T))
    end
  else set_task s1 t (finished T (cancel_out T)).

(* Queue.get() entered / re-entered by task t (W already incremented) sitting at op o, rest p *)
Definition do_get (s : state) (t : nat) (T : task) (o : op) (p : list op) : state * bool :=
  match q s with
  | [] => (with_getters s (getters s ++ [t]) (upd (tasks s) t (mkT (o :: p) BlkGet (mc T) (nsent T) (tmo T))), true)
  | x :: q' =>
      (* get_nowait: item = _get(); _wakeup_next(_putters) *)
      let s1 := wake_putters (mkS q' (maxsize s) (getters s) (putters s) (closed s) (flushed s) (W s) (unfin s)
                                  (tasks s) (pinned s) (sent s) (recv s) (npre s) (drained s)) in
      (* finally / after the await: W -= 1; task_done() *)
      let s2 := with_W s1 (W s1 - 1) in
      match unfin s2 with
      | O => (set_task s2 t (finished T OValueErr), true)          (* ValueError: the item is dropped *)
      | S u =>
          let s3 := with_unfin s2 u in
          match x with
          | Flush =>                                               (* None / StopAsyncIteration: leave the op *)
              (with_drained (set_task s3 t (mkT p Ready (mc T) (nsent T) (tmo T))), false)
          | Msg _ _ =>
              let p' := fst (after_item o p) in
              let y := snd (after_item o p) in
              let s4 := mkS (q s3) (maxsize s3) (getters s3) (putters s3) (closed s3) (flushed s3) (W s3) (unfin s3)
                            (tasks s3) (pinned s3) (sent s3) (recv s3 ++ [(t, x)]) (npre s3) (drained s3) in
              (set_task s4 t (mkT p' Ready (mc T) (nsent T) (tmo T)), y)
          end
      end
  end.

(* Task.cancel() applied to task u *)
Definition cancel_task (s : state) (u : nat) : state :=
  match nth_error (tasks s) u with
  | None => s
  | Some U =>
      match st U with
      | Fin _ => s
      | BlkGet => set_task s u (set_st U CancGet)
      | BlkPut => set_task s u (set_st U CancPut)
      | _ => set_task s u (set_mc U true)
      end
  end.

Definition flush_task : task := mkT [IFlush] Ready false 0 false.

Definition step_ready (s : state) (t : nat) (T : task) : state * bool :=
  match prog T with
  | [] => (set_task s t (finished T ORet), true)
  | o :: p =>
      match o with
      | IYield => (set_task s t (set_prog T p), true)
      | ISend =>
          if closed s then (set_task s t (finished T OClosed), true)
          else do_put s t T (next_item t T) IPut p
      | ISendFrom n cl =>
          if closed s then (set_task s t (finished T OClosed), true)
          else (set_task s t (set_prog T (repeat IPut n ++ (if cl then [IClose] else []) ++ p)), false)
      | IPut => do_put s t T (next_item t T) IPut p
      | IPutFlush => do_put s t T Flush IPutFlush p
      | IRecv | IRecvLoop | IIter _ =>
          if done s then
            match o with
            | IRecv => (with_drained (set_task s t (finished T ODone)), true)     (* ChannelDone propagates *)
            | _ => (with_drained (set_task s t (set_prog T p)), false)            (* loop / iteration ends *)
            end
          else do_get (with_W s (S (W s))) t T o p
      | IClose =>
          let s1 := mkS (q s) (maxsize s) (getters s) (putters s) true (flushed s) (W s) (unfin s)
                        (upd (tasks s) t (set_prog T p) ++ [flush_task]) (pinned s)
                        (sent s) (recv s) (if closed s then npre s else length (sent s)) (drained s) in
          (s1, false)
      | ICancel u => (cancel_task (set_task s t (set_prog T p)) u, false)
      | IFlush =>
          if flushed s then (set_task s t (set_prog T p), false)
          else
            let r := W s - length (q s) in
            (mkS (q s) (maxsize s) (getters s) (putters s) (closed s) true (W s) (unfin s)
                 (upd (tasks s) t (set_prog T (repeat IPutFlush r ++ p))) (pinned s)
                 (sent s) (recv s) (npre s) (drained s), false)
      end
  end.

Definition step_b (s : state) (t : nat) : option (state * bool) :=
  match nth_error (tasks s) t with
  | None => None
  | Some T =>
      match st T with
      | Fin _ | BlkGet | BlkPut => None
      | Ready =>
          if mc T then Some (set_task s t (finished T (cancel_out T)), true)   (* CancelledError thrown at the suspension point *)
          else Some (step_ready s t T)
      | WokeGet =>
          match prog T with
          | (IRecv | IRecvLoop | IIter _) as o :: p =>
              if mc T then
                (* except: getter.cancel() (no-op); _getters.remove -> ValueError, pass;
                   if not empty() and not getter.cancelled(): _wakeup_next(_getters); raise *)
                let s1 := with_getters s (remove1 t (getters s)) (tasks s) in
                let s2 := if empty s1 then s1 else wake_getters s1 in
                Some (finally_cancelled s2 t T, true)
              else Some (do_get s t T o p)
          | _ => None      (* only a receive operation can be inside get() *)
          end
      | CancGet =>
          (* except: _getters.remove(getter) if still there; getter.cancelled() so no hand-over; raise *)
          Some (finally_cancelled (with_getters s (remove1 t (getters s)) (tasks s)) t T, true)
      | WokePut =>
          match prog T with
          | (IPut | IPutFlush) as o :: p =>
              if mc T then
                let s1 := with_putters s (remove1 t (putters s)) (tasks s) in
                let s2 := if full s1 then s1 else wake_putters s1 in
                Some (set_task s2 t (finished T (cancel_out T)), true)
              else
                match o with
                | IPutFlush => Some (do_put s t T Flush IPutFlush p)
                | _ => Some (do_put s t T (next_item t T) IPut p)
                end
          | _ => None      (* only a put can be inside put() *)
          end
      | CancPut =>
          Some (set_task (with_putters s (remove1 t (putters s)) (tasks s)) t (finished T (cancel_out T)), true)
      end
  end.

Definition step (s : state) (t : nat) : option state :=
  match step_b s t with Some (s', _) => Some s' | None => None end.

(* what the event loop does with one ready handle: run to the next real suspension *)
Fixpoint macro (fuel : nat) (s : state) (t : nat) : option state :=
  match fuel with
  | O => None
  | S f =>
      match step_b s t with
      | None => None
      | Some (s', true) => Some s'
      | Some (s', false) => macro f s' t
      end
  end.

(* ---- configurations ---- *)
Record config := mkC { c_maxsize : nat; c_pinned : bool; c_progs : list (list uop * bool) }.

Definition init (c : config) : state :=
  mkS [] (c_maxsize c) [] [] false false 0 0
      (map (fun pb => mkT (map compile (fst pb)) Ready false 0 (snd pb)) (c_progs c))
      (c_pinned c) [] [] 0 false.

Inductive Reach (c : config) : state -> Prop :=
| R_init : Reach c (init c)
| R_step : forall s t s', Reach c s -> step s t = Some s' -> Reach c s'.

(* the schedule of macro steps the harness executed *)
Fixpoint run_sched (fuel : nat) (s : state) (sch : list nat) : list (option state) :=
  match sch with
  | [] => []
  | t :: r =>
      match macro fuel s t with
      | None => [None]
      | Some s' => Some s' :: run_sched fuel s' r
      end
  end.

Fixpoint run_final (fuel : nat) (s : state) (sch : list nat) : option state :=
  match sch with
  | [] => Some s
  | t :: r => match macro fuel s t with None => None | Some s' => run_final fuel s' r end
  end.

Definition runnable (T : task) : bool :=
  match st T with Fin _ | BlkGet | BlkPut => false | _ => true end.
Definition quiescent (s : state) : bool := forallb (fun T => negb (runnable T)) (tasks s).

(* ---- canonical snapshot for the correspondence check ---- *)
Definition cnat (n : nat) : cv := CZ (Z.of_nat n).
Definition citem (x : item) : cv := match x with Msg t k => CL [cnat t; cnat k] | Flush => CN end.
Definition outcome_code (o : outcome) : Z :=
  match o with ORet => 10 | OClosed => 11 | ODone => 12 | OCancelled => 13 | OTimeout => 14 | OValueErr => 15 end%Z.
Definition status_code (a : status) : Z :=
  match a with
  | Ready => 0 | BlkGet => 1 | WokeGet => 2 | CancGet => 3 | BlkPut => 4 | WokePut => 5 | CancPut => 6
  | Fin o => outcome_code o
  end%Z.
Definition cwaiter (ts : list task) (u : nat) : cv :=
  CL [cnat u; cbool (match nth_error ts u with
                     | Some U => match st U with BlkGet | BlkPut => false | _ => true end
                     | None => true end)].
Definition snap (s : state) : cv :=
  CL [ CL (map citem (q s)); cbool (closed s); cbool (flushed s); cnat (W s); cnat (unfin s);
       CL (map (cwaiter (tasks s)) (getters s)); CL (map (cwaiter (tasks s)) (putters s));
       CL (map (fun T => CL [CZ (status_code (st T)); cbool (mc T)]) (tasks s));
       CL (map (fun r => CL [cnat (fst r); citem (snd r)]) (recv s));
       CL (map citem (sent s)); cnat (npre s); cbool (drained s) ].
Definition csnap (o : option state) : cv := match o with Some s => snap s | None => CN end.
Definition trace_cv (fuel : nat) (c : config) (sch : list nat) : cv :=
  CL (map csnap (run_sched fuel (init c) sch)).

(* ---- observations the theorems are stated over ---- *)
Definition is_real (x : item) : bool := match x with Msg _ _ => true | Flush => false end.
Definition reals (l : list item) : list item := filter is_real l.
Definition from (t : nat) (x : item) : bool := match x with Msg u _ => Nat.eqb u t | Flush => false end.
Definition received (s : state) : list item := map snd (recv s).
(* items whose send completed before the first close() *)
Definition sent_before_close (s : state) : list item := firstn (npre s) (sent s).
Definition nsent_of (s : state) (t : nat) : nat := match nth_error (tasks s) t with Some T => nsent T | None => 0 end.

Fixpoint sumf (f : task -> nat) (l : list task) : nat :=
  match l with [] => 0 | a :: r => f a + sumf f r end.
Definition b2n (b : bool) : nat := if b then 1 else 0.
Definition in_get (T : task) : nat := match st T with BlkGet | WokeGet | CancGet => 1 | _ => 0 end.
Definition is_st (x : status) (T : task) : nat := b2n (status_eqb (st T) x).
Definition is_flush (o : op) : bool := match o with IPutFlush => true | _ => false end.
Definition nflush (T : task) : nat := length (filter is_flush (prog T)).
(* a task spawned by close() that has not executed yet *)
Definition pending_flush (T : task) : nat :=
  match st T, prog T with Ready, IFlush :: _ => 1 | _, _ => 0 end.

(* a configuration / state without cancellation *)
Definition op_nocancel (o : op) : bool := match o with ICancel _ => false | _ => true end.
Definition task_nocancel (T : task) : bool :=
  negb (mc T) && forallb op_nocancel (prog T) && match st T with CancGet | CancPut => false | _ => true end.
Definition uop_nocancel (o : uop) : bool := match o with UCancel _ => false | _ => true end.
Definition cfg_nocancel (c : config) : bool := forallb (fun pb => forallb uop_nocancel (fst pb)) (c_progs c).

(* length of the run of real items at the head of the queue (up to the first sentinel) *)
Fixpoint nf (l : list item) : nat :=
  match l with Msg _ _ :: r => S (nf r) | _ => 0 end.
Definition has_flush (l : list item) : bool := existsb (fun x => negb (is_real x)) l.

Definition blocked_receiver (T : task) : bool := status_eqb (st T) BlkGet.
