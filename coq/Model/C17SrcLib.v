(* Additional target vocabulary of the C17 source translation (harness/gen_c17_src.py -> coq/gen/C17Src.v), next to
   Model/C16SrcLib.v.  Hand-written and small: with the translator itself this is what the "source-translation tie"
   of C17 trusts.  Python int = Z, bytes = list byte.  No proofs here; every definition is a plain total function. *)
From BP Require Import Base.Prelude.

(* a value of a variable / dataclass field annotated `Any` that only ever holds None, an int or a bytes object
   (the translator rejects every other assignment to such a variable and every use other than storing it) *)
Inductive pyval : Type :=
| VNone
| VInt (z : Z)
| VBytes (b : list byte).

(* stream.read(n), n an int EXPRESSION, on a readable stream represented by the bytes not yet consumed: returns
   (bytes read, stream afterwards).  A negative n reads everything that is left (io.RawIOBase / BytesIO convention);
   otherwise at most n bytes, short or empty at the end of the data, never an exception. *)
Definition py_read_n (s : list byte) (n : Z) : list byte * list byte :=
  if n <? 0 then (s, []) else (firstn (Z.to_nat n) s, skipn (Z.to_nat n) s).
