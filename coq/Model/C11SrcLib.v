(* Additional target vocabulary of the C11 source translation (harness/gen_c11_src.py -> coq/gen/C11Src.v), next to
   Model/C16SrcLib.v.  Hand-written and small: with the translator itself this is what the "source-translation tie"
   of C11 trusts.  An OPAQUE Python object (a channel, a float, a Deadline, a metadata mapping ...) is a value of an
   arbitrary type V; Python's bool() on such objects is an arbitrary function truthy : V -> bool (timeout=0,
   metadata={} / [] / () are objects on which it answers false).  A variable annotated Optional[...] is an `option V`:
   None, or Some object.  No proofs here; every definition is a plain total function. *)
From BP Require Import Base.Prelude.

(* `x is None` for x annotated Optional: identity with the None singleton.  It does NOT look at the object. *)
Definition py_is_none {V : Type} (x : option V) : bool :=
  match x with None => true | Some _ => false end.

(* truthiness of an Optional value in a test (`if x`, `x if x else y`, `not x`): None is falsy, an object is whatever
   bool() says of it.  Differs from `x is not None` exactly on the set-but-falsy objects. *)
Definition py_truthy_opt {V : Type} (truthy : V -> bool) (x : option V) : bool :=
  match x with None => false | Some v => truthy v end.

(* `a or b` as a VALUE: a when a is truthy, else b (Python returns the operand, not a bool) *)
Definition py_or_opt {V : Type} (truthy : V -> bool) (a b : option V) : option V :=
  if py_truthy_opt truthy a then a else b.

(* `a and b` as a VALUE: a when a is falsy, else b *)
Definition py_and_opt {V : Type} (truthy : V -> bool) (a b : option V) : option V :=
  if py_truthy_opt truthy a then b else a.

(* a dict literal {"k1": v1, "k2": v2, ...} with string keys: the items in SOURCE order, keys as their UTF-8 bytes.
   d[k] / what `**d` binds to the keyword k: the LAST item with that key (a repeated key keeps the last value);
   None here = the key is absent (not the Python value None, which is `Some None` when A = option V). *)
Fixpoint py_dict_get {A : Type} (d : list (list byte * A)) (k : list byte) : option A :=
  match d with
  | [] => None
  | (k', v) :: r =>
      match py_dict_get r k with
      | Some x => Some x
      | None => if bytes_eqb k' k then Some v else None
      end
  end.

(* the keys of the dict, with repetitions, in source order *)
Definition py_dict_keys {A : Type} (d : list (list byte * A)) : list (list byte) := map fst d.
