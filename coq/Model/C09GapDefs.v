(* C09 gap closing: new vocabulary only (no existing definition is changed).
   [serialize_to_string]  Message.SerializeToString:  `return bytes(self)`  (src/betterproto/__init__.py; tied by the
                          `ser` pairs of harness/props/c09.py, which compare m.SerializeToString() with the model's bytes).
   [leaf_typed]           the exact decidable typing condition of ONE value for _preprocess_single / _len_preprocessed_single
                          outside the TYPE_MESSAGE arm: the value has the Python type the arm of the walk operates on.
   The lifting of [leaf_typed] to whole objects is not defined here (see Proofs/C09GapB.v: not done). *)
From BP Require Import Base.Prelude Model.Types Model.Varint Model.Scalar Model.Float.
From BP Require Import Model.Object Model.Eq Model.TimeCore Model.Encode Model.Len.
From BP Require Import gen.Tables.

Definition serialize_to_string (sc : schema) (o : obj) : result (list byte) := enc_obj sc o.

(* the kinds of exception a value of the wrong Python type provokes in the model of the two walks:
   TypeError (int / bytes arms, nested message arm), AttributeError (value.encode of a non-str), struct.error for a
   non-number in a fixed-width arm.  struct.error ALSO arises from an out-of-range int of the right type, so it is not a
   typing error as such: [type_err] is TypeError / AttributeError only, the two kinds that only ill-typed values cause. *)
Definition type_err (e : errkind) : bool :=
  match e with EType | EAttribute => true | _ => false end.

Definition is_int_like (v : pv) : bool := match v with PInt _ | PBool _ => true | _ => false end.

(* one value against one proto type, as _preprocess_single reads it (TYPE_MESSAGE: see msg_typed) *)
Definition leaf_typed (t : ptype) (v : pv) : bool :=
  if tmem t [TEnum; TBool; TInt32; TInt64; TUInt32; TUInt64; TSInt32; TSInt64] then is_int_like v
  else if tmem t FIXED_TYPES then true                       (* struct.pack: struct.error, never TypeError in the model *)
  else if ptype_eqb t TString then match v with PStr _ => true | _ => false end
  else if ptype_eqb t TMessage then true
  else match v with PBytes _ => true | _ => false end.
