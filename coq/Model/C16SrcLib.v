(* Semantics of the Python primitives that harness/gen_c16_src.py maps function bodies onto (the target
   vocabulary of the translation; coq/gen/C16Src.v imports only Base.Prelude and this file).
   Hand-written and small: this is the part of the "source-translation tie" of C16 that is trusted next
   to the translator itself.  Python int = Z, bytes = list byte, bool = bool.  No proofs here. *)
From BP Require Import Base.Prelude.

(* how control leaves a translated loop: falls out of it with the loop's variables, or the enclosing
   function returned from inside it *)
Inductive flow (S R : Type) : Type :=
| Fall (s : S)
| Return (r : R).
Arguments Fall {S R} s.
Arguments Return {S R} r.

(* truthiness: `if x` / `while x` / `not x` *)
Definition py_truthy_int (z : Z) : bool := negb (z =? 0).
Definition py_truthy_bytes (b : list byte) : bool := match b with [] => false | _ :: _ => true end.

(* len(b) *)
Definition py_len (b : list byte) : Z := Z.of_nat (length b).

(* a >> n, a << n : ValueError("negative shift count") for n < 0 *)
Definition py_rshift (a n : Z) : result Z := if n <? 0 then Err EValue else Ok (Z.shiftr a n).
Definition py_lshift (a n : Z) : result Z := if n <? 0 then Err EValue else Ok (Z.shiftl a n).

(* a ** n on ints, n >= 0 (the translator only accepts a non-negative literal exponent) *)
Definition py_pow (a n : Z) : Z := Z.pow a n.

(* a // b, b a non-zero literal: floor division; Z.div rounds towards minus infinity for either sign of b *)
Definition py_floordiv (a b : Z) : Z := Z.div a b.

(* math.ceil(a / b), a an int expression, b a positive literal: the ceiling of the exact quotient.
   ASSUMPTION (listed in the evidence): the float division is exact enough, true for |a| < 2^53. *)
Definition py_ceil_div (a b : Z) : Z := - ((- a) / b).

(* x.bit_length() *)
Definition py_bit_length (v : Z) : Z := if v =? 0 then 0 else Z.log2 (Z.abs v) + 1.

(* x.to_bytes(n, "little") (unsigned): OverflowError outside 0 .. 256^n - 1 *)
Definition py_to_bytes_le (x : Z) (n : nat) : result (list byte) :=
  if (0 <=? x) && (x <? 256 ^ Z.of_nat n) then Ok (le_bytes n x) else Err EOverflow.

(* int.from_bytes(b, "little") (unsigned) *)
Definition py_from_bytes_le (b : list byte) : Z := le_value b.

(* stream.read(n), n a non-negative literal, on a readable stream represented by the bytes not yet consumed:
   returns (bytes read, stream afterwards); short or empty at the end of the data, never an exception *)
Definition py_read (s : list byte) (n : nat) : list byte * list byte := (firstn n s, skipn n s).

(* stream.write(b) on a writable stream represented by the bytes written so far *)
Definition py_write (s b : list byte) : list byte := s ++ b.

(* BytesIO(buf).seek(pos) as the FIRST operation on the fresh stream (position 0, so the bytes not yet consumed are
   buf itself): ValueError for a negative position, beyond the end the stream is simply exhausted *)
Definition py_seek_fresh (s : list byte) (pos : Z) : result (list byte) :=
  if pos <? 0 then Err EValue else Ok (skipn (Z.to_nat pos) s).

(* the observable class of an outcome: ETooLong is ValueError with a particular message text, which neither the
   translator nor a caller's `except ValueError` can see (same identification as Prelude.errkind_eqb) *)
Definition err_class {A} (r : result A) : result A :=
  match r with
  | Err ETooLong => Err EValue
  | other => other
  end.
