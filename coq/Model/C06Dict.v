(* C06, the fourth way of setting (from_dict): vocabulary for talking about the mapping passed to
   Cls.from_dict(d) / m.from_dict(d) (Model/Json.v from_dict_cls / from_dict_inst).  No proofs here, and no new
   behaviour: everything below only READS the dict the way Message._from_dict_init does
   (field_name_by_key.get(key) or safe_snake_case(key); meta_by_field_name[...]; `if value is None: continue`).

   key_index fs k        the field (index) a key of the mapping addresses, if any
   item_field fs (k, v)  the field an item ASSIGNS: its key addresses a field and its value is not None
   dict_lookup fs d i    the value the mapping gives field i: that of the LAST item assigning it
                         (init_kwargs[field_name] = value overwrites); None = the mapping does not give field i
   given_list fs d       the fields assigned, item by item
   given_order fs d      the same without repetitions, in order of FIRST occurrence: the order of the keys of
                         init_kwargs, i.e. the order in which the instance form calls setattr
   singular_json v       a value from which from_dict stores one proper Python value: not None (skipped), not a
                         list (stored as a list), not one of the non-JSON stand-ins for None / PLACEHOLDER / a list
   shape_ok sc o         o has one raw attribute per field and one _group_current entry per oneof group
   emitted_once_in       bytes(m) (shorter than 2^35 bytes) contains, as a contiguous segment, the contribution of field i,
                         and that contribution is exactly ONE record of the grammar of Spec/C06Wire.v with the number
                         and the wire type of the field *)
From BP Require Import Base.Prelude Model.Types Model.Object Model.Eq Model.Encode Model.WellFormed Model.Json Model.C06Obs.
From BP Require Model.Casing.
From BP Require Import Spec.C06Wire.

Definition key_index (fs : list fdesc) (k : json) : option nat :=
  match k with
  | JStr key =>
      match Casing.field_for_key (map fname fs) key with
      | Some nm => match find_field O fs nm with Some (i, _) => Some i | None => None end
      | None => None
      end
  | _ => None
  end.

Definition is_jnull (j : json) : bool := match j with JNull => true | _ => false end.

Definition item_field (fs : list fdesc) (kv : json * json) : option nat :=
  if is_jnull (snd kv) then None else key_index fs (fst kv).

Fixpoint dict_lookup (fs : list fdesc) (kvs : list (json * json)) (i : nat) : option json :=
  match kvs with
  | [] => None
  | kv :: r =>
      match dict_lookup fs r i with
      | Some v => Some v
      | None =>
          match item_field fs kv with
          | Some j => if Nat.eqb j i then Some (snd kv) else None
          | None => None
          end
      end
  end.

Definition given_list (fs : list fdesc) (kvs : list (json * json)) : list nat :=
  flat_map (fun kv => match item_field fs kv with Some i => [i] | None => [] end) kvs.

Fixpoint add_once (i : nat) (l : list nat) : list nat :=
  match l with
  | [] => [i]
  | k :: r => if Nat.eqb i k then k :: r else k :: add_once i r
  end.

Definition given_order (fs : list fdesc) (kvs : list (json * json)) : list nat :=
  fold_left (fun acc i => add_once i acc) (given_list fs kvs) [].

(* keyword arguments (field index, value), as Message._from_dict_init returns them and as a sequence of attribute
   assignments: the value the list finally holds for field i (later entries win) *)
Fixpoint kw_get (i : nat) (kw : list (nat * pv)) : option pv :=
  match kw with
  | [] => None
  | (k, x) :: r =>
      match kw_get i r with
      | Some y => Some y
      | None => if Nat.eqb k i then Some x else None
      end
  end.

Definition singular_json (j : json) : bool :=
  match j with
  | JNull | JList _ => false
  | JPy PNone | JPy PPlaceholder | JPy (PList _) => false
  | _ => true
  end.

(* the fields of the class, and the shape every object of a class has (what __post_init__ establishes) *)
Definition shape_ok (sc : schema) (o : obj) : bool :=
  Nat.eqb (length (oraw o)) (length (cfields (get_class sc (ocls o)))) &&
  Nat.eqb (length (ocur o)) (cngroups (get_class sc (ocls o))).

(* the kinds for which "one record" can be promised: length-delimited ones for any value, varint / fixed-width ones for a
   value inside the declared range (outside it the varint written is not a legal one) *)
Definition one_record_kind (f : fdesc) (x : pv) : Prop :=
  base_wire_type (fty f) = 2 \/ (fwraps f = None /\ scalar_in_range (fty f) x = true).

Definition emitted_once_in (sc : schema) (o : obj) (i : nat) (f : fdesc) : Prop :=
  forall all, enc_obj sc o = Ok all -> Zlength all < 2 ^ 35 ->
  exists pre h post r, all = pre ++ h ++ post /\ here sc (ocur o) i (raw_at o i) f = Ok h /\
                       is_record r h /\ rnum r = fnum f /\ rwt r = base_wire_type (fty f).

(* the JSON form of the proto3 zero of a scalar type, as the proto3 JSON mapping (and to_dict) writes it:
   64-bit integers as decimal strings, bytes as (empty) base64, everything else as the JSON zero of its kind *)
Definition json_zero (t : ptype) : json :=
  match t with
  | TBool => JBool false
  | TString | TBytes => JStr []
  | TFloat | TDouble => JFloat 0
  | TInt64 | TUInt64 | TSInt64 | TFixed64 | TSFixed64 => JStr [x30]
  | _ => JInt 0
  end.
