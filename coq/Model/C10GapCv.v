(* C10, evaluation helpers of the check (harness/props/c10.py, stage "gap tie"): observables of the SPECIFICATION-side
   functions the gap-closing theorems are stated over (ref_frame / ref_frames: Model/C10GapDefs.v; whole_frames / msg_small:
   Model/C10Rt.v; c14u_value_ok / normu_obj: Model/C14UDef.v) as canonical values, so that the check can compare them with
   google.protobuf's length-prefixed reading and with what betterproto's load(stream, SIZE_DELIMITED) did on the same bytes.
   No proofs, nothing of the model is changed. *)
From BP Require Import Base.Prelude Model.Types Model.Varint Model.Object Model.Eq Model.Encode Model.Len Model.Decode Model.Canon.
From BP Require Import Model.C01Def Model.C10Stream Model.C10Rt Model.C10GapDefs Model.C14UDef.

(* n successive reads of the reference reader: per frame its payload and the number of unread bytes; the first failing
   read ends the trace with its exception *)
Fixpoint ref_trace (n : nat) (s : list byte) : list cv :=
  match n with
  | O => []
  | Datatypes.S n' =>
      match ref_frame s with
      | Ok (p, r) => CL [CB p; CZ (Zlength r)] :: ref_trace n' r
      | Err e => [CE e]
      end
  end.

(* the unread bytes after each of (at most) n frames, up to the first failing read *)
Fixpoint ref_positions (n : nat) (s : list byte) : list cv :=
  match n with
  | O => []
  | Datatypes.S n' =>
      match ref_frame s with
      | Ok (_, r) => CZ (Zlength r) :: ref_positions n' r
      | Err _ => []
      end
  end.

Fixpoint ref_payloads (n : nat) (s : list byte) : list (list byte) :=
  match n with
  | O => []
  | Datatypes.S n' =>
      match ref_frame s with
      | Ok (p, r) => p :: ref_payloads n' r
      | Err _ => []
      end
  end.

(* the reference reader run to the end of the stream *)
Definition ref_frames_cv (s : list byte) : cv :=
  match ref_frames (Datatypes.S (length s)) s with
  | Ok ps => CL (map CB ps)
  | Err e => CE e
  end.

Fixpoint payloads_prefix (a b : list (list byte)) : bool :=
  match a, b with
  | [], _ => true
  | x :: a', y :: b' => bytes_eqb x y && payloads_prefix a' b'
  | _ :: _, [] => false
  end.

(* the stream cut after k bytes, for every k of ks: how many frames the reference reader takes off the front, whether
   their payloads are the leading payloads of the uncut stream, and how ref_frames ends (number of frames / exception) *)
Definition ref_cuts (s : list byte) (ks : list nat) : cv :=
  let full := ref_payloads (Datatypes.S (length s)) s in
  CL (map (fun k =>
             let c := firstn k s in
             let ps := ref_payloads (Datatypes.S k) c in
             CL [CZ (Z.of_nat (length ps)); cbool (payloads_prefix ps full);
                 match ref_frames (Datatypes.S k) c with
                 | Ok l => CZ (Z.of_nat (length l))
                 | Err e => CE e
                 end]) ks).

(* the positions of the reference reader on the stream cut at k, for the first n frames: kns = [(k, n); ...] *)
Definition ref_positions_cuts (s : list byte) (kns : list (nat * nat)) : cv :=
  CL (map (fun kn => CL (ref_positions (snd kn) (firstn (fst kn) s))) kns).

(* how a run of loads ends: number of messages returned and the unread bytes / the exception *)
Definition loads_end (sc : schema) (cs : list nat) (s : list byte) : cv :=
  let '(ms, r) := loads sc cs s in
  CL [CZ (Z.of_nat (length ms)); match r with Ok rest => CZ (Zlength rest) | Err e => CE e end].

Definition whole_frames_cv (sc : schema) (ms : list obj) (ks : list nat) : cv :=
  CL (map (fun k => CZ (Z.of_nat (whole_frames sc ms k))) ks).

(* C10_stream_roundtrip_unknown on one message: its value hypotheses, and "the load returned normu_obj m" under them *)
Definition unk_hyp (sc : schema) (m : obj) : bool := c14u_value_ok sc m && msg_small sc m.
Definition unk_rt (sc : schema) (m got : obj) : bool :=
  implb (unk_hyp sc m) (cv_eqb (cv_of_obj (normu_obj sc m)) (cv_of_obj got)).

(* damaged copies s2 of the stream s (agreeing with it on a prefix): each run summarised against the run on s like a cut
   (Model/C10Stream.v cut_trace): number of loads that returned, whether each returned object is the one the undamaged run
   returned at that position, the unread bytes after each, whether the run ended in an exception *)
Definition damaged_cv (sc : schema) (cs : list nat) (s : list byte) (s2s : list (list byte)) : cv :=
  let full := loads_trace sc cs s in
  CL (map (fun s2 => let '(n, ok, rests, err) := cut_trace sc cs s2 full in CL [CZ n; cbool ok; CL rests; cbool err]) s2s).
