(* Python floats as IEEE-754 binary64 bit patterns (Z in [0, 2^64)), and the two
   conversions struct.pack("<f") / struct.unpack("<f") perform between binary64 and
   binary32.  [d2f] and [f2d] are executable bit-level definitions that are
   *validated* against CPython's struct on every float the correspondence generates;
   no theorem depends on their internals (round-trip theorems take the
   representability of float32 field values as a boolean hypothesis, see in_range). *)
From BP Require Import Base.Prelude.

Definition f64_sign (b : Z) : Z := Z.shiftr b 63.
Definition f64_exp (b : Z) : Z := Z.land (Z.shiftr b 52) 2047.
Definition f64_man (b : Z) : Z := Z.land b (2 ^ 52 - 1).

Definition f64_is_nan (b : Z) : bool := (f64_exp b =? 2047) && negb (f64_man b =? 0).
Definition f64_is_zero (b : Z) : bool := Z.land b (2 ^ 63 - 1) =? 0.

(* Python's == on two floats *)
Definition f64_eq (a b : Z) : bool :=
  if f64_is_nan a || f64_is_nan b then false
  else if f64_is_zero a && f64_is_zero b then true
  else a =? b.

Definition f64_pos_inf : Z := Z.shiftl 2047 52.
Definition f64_neg_inf : Z := Z.lor (Z.shiftl 1 63) f64_pos_inf.

(* shift right by [s] bits, rounding to nearest, ties to even *)
Definition rne_shift (m s : Z) : Z :=
  if s <=? 0 then Z.shiftl m (- s)
  else
    let q := Z.shiftr m s in
    let r := Z.land m (Z.shiftl 1 s - 1) in
    let half := Z.shiftl 1 (s - 1) in
    if r <? half then q
    else if half <? r then q + 1
    else if Z.odd q then q + 1 else q.

(* struct.pack("<f", x): None models OverflowError("float too large to pack with f format") *)
Definition d2f (b : Z) : option Z :=
  let s := Z.shiftl (f64_sign b) 31 in
  let e := f64_exp b in
  let m := f64_man b in
  if e =? 2047 then
    if m =? 0 then Some (Z.lor s (Z.shiftl 255 23))
    else Some (Z.lor s (Z.lor (Z.shiftl 255 23) (Z.lor (Z.shiftl 1 22) (Z.shiftr m 29))))
  else if e =? 0 then Some s                      (* zero and binary64 subnormals: far below binary32 *)
  else
    let E := e - 1023 in
    let M := 2 ^ 52 + m in
    if E <? -126 then
      (* binary32 subnormal (or rounds up into the smallest normal: the encoding is continuous) *)
      let sh := 29 + (-126 - E) in
      if sh >? 60 then Some s else Some (Z.lor s (rne_shift M sh))
    else
      let q := rne_shift M 29 in                   (* 24-bit significand, possibly 2^24 *)
      let '(q, E) := if q =? 2 ^ 24 then (2 ^ 23, E + 1) else (q, E) in
      if E >? 127 then None
      else Some (Z.lor s (Z.lor (Z.shiftl (E + 127) 23) (q - 2 ^ 23))).

(* struct.unpack("<f", bytes) as a binary64 pattern *)
Definition f2d (w : Z) : Z :=
  let s := Z.shiftl (Z.shiftr w 31) 63 in
  let e := Z.land (Z.shiftr w 23) 255 in
  let m := Z.land w (2 ^ 23 - 1) in
  if e =? 255 then
    if m =? 0 then Z.lor s f64_pos_inf
    else Z.lor s (Z.lor f64_pos_inf (Z.lor (Z.shiftl 1 51) (Z.shiftl m 29)))
  else if e =? 0 then
    if m =? 0 then s
    else
      let k := Z.log2 m in
      Z.lor s (Z.lor (Z.shiftl (k - 149 + 1023) 52) (Z.shiftl (m - 2 ^ k) (52 - k)))
  else Z.lor s (Z.lor (Z.shiftl (e - 127 + 1023) 52) (Z.shiftl m 29)).

(* a binary64 value a float32 field can hold without change *)
Definition f32_representable (b : Z) : bool :=
  match d2f b with Some w => f2d w =? b | None => false end.
