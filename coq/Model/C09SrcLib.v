(* Semantics of the ADDITIONAL Python vocabulary that harness/gen_c09_src.py maps the bodies of
   _preprocess_single / _len_preprocessed_single / _serialize_single / _len_single onto (the vocabulary of
   harness/gen_c16_src.py, Model/C16SrcLib.v, is reused unchanged).  Hand-written and small: with the translator
   this is what the "source-translation tie" of C09 trusts.  No proofs here; every definition is a plain total function.

   Static types the translator assigns (beyond int = Z, bytes = list byte, bool):
     proto_type : str   -> ptype          DOMAIN ASSUMPTION: the parameter ranges over the 18 TYPE_* strings
     wraps      : str   -> option ptype   "" = None, otherwise one of the TYPE_* strings
     value      : Any   -> pv             the dynamic Python value (Model/Object.v)
     bytearray          -> list byte      only a local `bytearray()` that is extended with `+=` and read by bytes(..)
   `x in (TYPE_A, ...)` / `x in SOME_LIST` is Types.tmem, `x == TYPE_A` is Types.ptype_eqb (string equality on the
   18 distinct type names).

   Where a DYNAMIC value meets an operation of a static type the library fixes the outcome by the Python type of the
   value alone (the same abstraction the hand-written model makes, Model/Encode.v int_like / preprocess_with):
     - int operators, comparisons with ints, and int-annotated parameters of translated functions accept int and bool
       (True = 1, False = 0) and raise TypeError for every other type          [py_int_arg]
       NOT EXACT for a float: Python compares and shifts floats differently (e.g. size_varint(0.0) returns 1,
       size_varint(1.5) raises AttributeError, encode_varint(1.5) raises TypeError); see the report of this work.
     - value.encode("utf-8") is the UTF-8 bytes of a str (no lone surrogates: the model's str IS its UTF-8 bytes) and
       AttributeError for every other type                                       [py_str_encode_utf8]
     - a dynamic value returned from a function annotated `-> bytes`, and len(value) of a dynamic value where the
       other walk returns it as bytes, are bytes or TypeError                    [py_bytes_ret, py_len_any]
       NOT EXACT for str / list / dict values (len() of them succeeds in Python; the TypeError arises one step later,
       in the caller's `key + ... + value`).
     - struct.pack(_pack_fmt(proto_type), value) is the model's library function Encode.pack_value (format table
       reflected into gen/Tables.v by harness/gen_tables.py; float32 narrowing Model/Float.v)   [py_struct_pack_fmt]
   DELEGATED arms (not translated; their source text is PINNED in the translator, any change of it is a rejection):
     the `proto_type == TYPE_MESSAGE` arms of _preprocess_single / _len_preprocessed_single (datetime, timedelta,
     wrapper, nested message) are the hand-written model's arms, over the same abstract `msg` = bytes(value) the model
     uses                                                                        [delegated_*_message] *)
From BP Require Import Base.Prelude Model.Types Model.Object Model.Encode.

(* a dynamic value used where an int is required *)
Definition py_int_arg (v : pv) : result Z :=
  match v with
  | PInt z => Ok z
  | PBool b => Ok (if b then 1 else 0)
  | _ => Err EType
  end.

(* value.encode("utf-8") *)
Definition py_str_encode_utf8 (v : pv) : result (list byte) :=
  match v with
  | PStr s => Ok s
  | _ => Err EAttribute
  end.

(* `return value` from a function annotated -> bytes *)
Definition py_bytes_ret (v : pv) : result (list byte) :=
  match v with
  | PBytes b => Ok b
  | _ => Err EType
  end.

(* len(value), value dynamic *)
Definition py_len_any (v : pv) : result Z :=
  match v with
  | PBytes b => Ok (Zlength b)
  | _ => Err EType
  end.

(* struct.pack(_pack_fmt(proto_type), value) *)
Definition py_struct_pack_fmt (t : ptype) (v : pv) : result (list byte) := pack_value t v.

(* truthiness of `wraps` (a str: empty = false) *)
Definition py_truthy_wraps (w : option ptype) : bool :=
  match w with Some _ => true | None => false end.

(* NotImplementedError is none of the classes errkind distinguishes *)
Definition ENotImplemented : errkind := EOther.

(* ---- delegated arms: `elif proto_type == TYPE_MESSAGE:` (pinned text, see the translator) ----
   [msg wraps value] stands for bytes(value') where value' is the Timestamp / Duration / wrapper message built from
   value, or value itself; same parameter as in Model/Encode.v (Section Single). *)
Definition delegated_preprocess_message (msg : option ptype -> pv -> result (list byte))
           (wraps : option ptype) (v : pv) : result (list byte) :=
  match v, wraps with
  | PDatetime _, _ | PTimedelta _, _ => msg wraps v
  | PNone, Some _ => Ok []
  | _, _ => msg wraps v
  end.

Definition delegated_len_message (msg : option ptype -> pv -> result (list byte))
           (wraps : option ptype) (v : pv) : result Z :=
  match v, wraps with
  | PDatetime _, _ | PTimedelta _, _ => bind (msg wraps v) (fun b => Ok (Zlength b))
  | PNone, Some _ => Ok 0
  | _, _ => bind (msg wraps v) (fun b => Ok (Zlength b))
  end.
