(* L1 mirror of src/betterproto/casing.py (strict mode, the only mode the library and the
   plugin use), src/betterproto/compile/naming.py and the key handling of
   Message.to_dict / to_pydict / from_dict / from_pydict in src/betterproto/__init__.py.
   No proofs here (Proofs/CasingP*.v).

   Strings are [list byte]: the UTF-8 bytes of the Python [str].  The three regular
   expressions only name the ASCII classes [A-Z] [a-z] [0-9]; every other code point is
   matched by SYMBOLS = "[^a-zA-Z0-9]*".  All bytes of a non-ASCII code point are >= 0x80,
   so they fall in the model's [Sym] class, and in strict mode symbols are only delimiters
   (their number is irrelevant): snake_case / pascal_case / camel_case / safe_snake_case of
   the model are therefore right on arbitrary UTF-8 text (a non-ASCII letter such as "é"
   or "É" is a delimiter for the code, str.lower()/capitalize() only ever see ASCII words).
   [sanitize_name] / [is_identifier] / [lowercase_first] / [pythonize_enum_member_name]
   are modelled for ASCII input only (str.isidentifier accepts non-ASCII letters, str.lower
   folds them); the theorems about them carry [ident_chars] or apply them to ASCII output.

   The regex source strings are regenerated into gen/C19Tables.v from the live module (the
   pattern strings actually handed to re.sub are captured by wrapping re.sub) and compared
   with the strings this scanner was written for at the bottom of this file: a changed
   regex stops the build. *)
From BP Require Import Base.Prelude.
From BP Require gen.Tables gen.C19Tables.

(* ---- character classes of the three regexes ---- *)
Inductive cclass := Upper | Lower | Digit | Sym.

Definition classify (b : byte) : cclass :=
  match b with
  | x41 | x42 | x43 | x44 | x45 | x46 | x47 | x48 | x49 | x4a | x4b | x4c | x4d | x4e | x4f | x50 | x51 | x52 | x53 | x54 | x55 | x56 | x57 | x58 | x59 | x5a => Upper
  | x61 | x62 | x63 | x64 | x65 | x66 | x67 | x68 | x69 | x6a | x6b | x6c | x6d | x6e | x6f | x70 | x71 | x72 | x73 | x74 | x75 | x76 | x77 | x78 | x79 | x7a => Lower
  | x30 | x31 | x32 | x33 | x34 | x35 | x36 | x37 | x38 | x39 => Digit
  | _ => Sym
  end.

Definition us : byte := x5f.   (* "_" *)

(* str.lower() / str.upper() on one ASCII character *)
Definition to_lower (b : byte) : byte :=
  match b with
  | x41 => x61
  | x42 => x62
  | x43 => x63
  | x44 => x64
  | x45 => x65
  | x46 => x66
  | x47 => x67
  | x48 => x68
  | x49 => x69
  | x4a => x6a
  | x4b => x6b
  | x4c => x6c
  | x4d => x6d
  | x4e => x6e
  | x4f => x6f
  | x50 => x70
  | x51 => x71
  | x52 => x72
  | x53 => x73
  | x54 => x74
  | x55 => x75
  | x56 => x76
  | x57 => x77
  | x58 => x78
  | x59 => x79
  | x5a => x7a
  | _ => b
  end.
Definition to_upper (b : byte) : byte :=
  match b with
  | x61 => x41
  | x62 => x42
  | x63 => x43
  | x64 => x44
  | x65 => x45
  | x66 => x46
  | x67 => x47
  | x68 => x48
  | x69 => x49
  | x6a => x4a
  | x6b => x4b
  | x6c => x4c
  | x6d => x4d
  | x6e => x4e
  | x6f => x4f
  | x70 => x50
  | x71 => x51
  | x72 => x52
  | x73 => x53
  | x74 => x54
  | x75 => x55
  | x76 => x56
  | x77 => x57
  | x78 => x58
  | x79 => x59
  | x7a => x5a
  | _ => b
  end.
Definition lower (w : list byte) : list byte := map to_lower w.
Definition upper (w : list byte) : list byte := map to_upper w.
(* str.capitalize(): first character upper-cased, the rest lower-cased *)
Definition capitalize (w : list byte) : list byte :=
  match w with [] => [] | c :: r => to_upper c :: lower r end.

(* ---- the word scanner ----
   re.sub(f"(^)?({SYMBOLS})({WORD_UPPER}|{WORD})", ...) walks the string left to right; every
   match is  symbols* word  with
     WORD_UPPER = [A-Z]+(?![a-z])[0-9]*     tried first
     WORD       = [A-Z]*[a-z]*[0-9]*
   All quantifiers are greedy, and the only backtracking that can succeed is the one inside
   WORD_UPPER's [A-Z]+ when the run is followed by a lower-case letter: a run of >= 2 gives up
   its last letter (which then starts the next word), a run of 1 fails and WORD takes over.
   A match is empty only at the end of the string, and a match with an empty word (trailing
   symbols) is replaced by "".  This is the deterministic scanner below: the state is the word
   being read, split by which part of  [A-Z]* [a-z]* [0-9]*  the scanner is in. *)
Inductive st :=
| S0                                  (* between words *)
| SU (pre : list byte) (u : byte)     (* inside an upper-case run  pre ++ [u] *)
| SL (w : list byte)                  (* inside the lower-case part of w *)
| SD (w : list byte).                 (* inside the digit part of w *)

(* one character: (words completed by it, new state) *)
Definition step (s : st) (c : byte) : list (list byte) * st :=
  match s, classify c with
  | S0, Sym => ([], S0)
  | S0, Upper => ([], SU [] c)
  | S0, Lower => ([], SL [c])
  | S0, Digit => ([], SD [c])
  | SU pre u, Sym => ([pre ++ [u]], S0)
  | SU pre u, Upper => ([], SU (pre ++ [u]) c)
  | SU pre u, Lower => (match pre with [] => [] | _ => [pre] end, SL [u; c])
  | SU pre u, Digit => ([], SD (pre ++ [u; c]))
  | SL w, Sym => ([w], S0)
  | SL w, Upper => ([w], SU [] c)
  | SL w, Lower => ([], SL (w ++ [c]))
  | SL w, Digit => ([], SD (w ++ [c]))
  | SD w, Sym => ([w], S0)
  | SD w, Upper => ([w], SU [] c)
  | SD w, Lower => ([w], SL [c])
  | SD w, Digit => ([], SD (w ++ [c]))
  end.

(* end of input: the word in progress, if any *)
Definition flush (s : st) : list (list byte) :=
  match s with
  | S0 => []
  | SU pre u => [pre ++ [u]]
  | SL w | SD w => [w]
  end.

Fixpoint scan (s : st) (l : list byte) : list (list byte) :=
  match l with
  | [] => flush s
  | c :: r => let '(out, s') := step s c in out ++ scan s' r
  end.

(* the non-empty words of all matches, in order *)
Definition words (l : list byte) : list (list byte) := scan S0 l.

Fixpoint join (sep : list byte) (ws : list (list byte)) : list byte :=
  match ws with
  | [] => []
  | [w] => w
  | w :: r => w ++ sep ++ join sep r
  end.

(* snake_case(value): every word lower-cased, "_" before every word but the one of the match at
   position 0 (is_start); symbols dropped *)
Definition snake_case (s : list byte) : list byte := join [us] (map lower (words s)).
(* pascal_case(value): word.capitalize() for every word, symbols dropped *)
Definition pascal_case (s : list byte) : list byte := concat (map capitalize (words s)).
(* lowercase_first(value) = value[0:1].lower() + value[1:] *)
Definition lowercase_first (s : list byte) : list byte :=
  match s with [] => [] | c :: r => to_lower c :: r end.
Definition camel_case (s : list byte) : list byte := lowercase_first (pascal_case s).

(* string equality (through the character codes: cheaper under vm_compute than Byte.eqb's bit tuples) *)
Definition byte_eqb (a b : byte) : bool := N.eqb (Byte.to_N a) (Byte.to_N b).
Fixpoint str_eqb (a b : list byte) : bool :=
  match a, b with
  | [], [] => true
  | x :: a', y :: b' => byte_eqb x y && str_eqb a' b'
  | _, _ => false
  end.
Definition is_us (b : byte) : bool := match b with x5f => true | _ => false end.

(* ---- sanitize_name ---- *)
Definition is_keyword (x : list byte) : bool := existsb (str_eqb x) Tables.kwlist.

Definition ident_start (b : byte) : bool :=
  match classify b with Upper | Lower => true | Digit => false | Sym => is_us b end.
Definition ident_char (b : byte) : bool :=
  match classify b with Upper | Lower | Digit => true | Sym => is_us b end.
(* str.isidentifier() on an ASCII string *)
Definition is_identifier (x : list byte) : bool :=
  match x with [] => false | c :: r => ident_start c && forallb ident_char r end.

Definition sanitize_name (x : list byte) : list byte :=
  if is_keyword x then x ++ [us]
  else if negb (is_identifier x) then us :: x
  else x.

Definition safe_snake_case (s : list byte) : list byte := sanitize_name (snake_case s).

(* ---- compile/naming.py ---- *)
Definition pythonize_class_name := pascal_case.
Definition pythonize_field_name := safe_snake_case.
Definition pythonize_method_name := safe_snake_case.

Fixpoint is_prefix (p l : list byte) : bool :=
  match p, l with
  | [], _ => true
  | a :: p', b :: l' => byte_eqb a b && is_prefix p' l'
  | _ :: _, [] => false
  end.
(* name[name.find(sub) + len(sub):] if sub occurs in name (first occurrence) *)
Fixpoint after_first (sub l : list byte) : option (list byte) :=
  if is_prefix sub l then Some (skipn (length sub) l)
  else match l with [] => None | _ :: r => after_first sub r end.

Fixpoint lstrip_us (l : list byte) : list byte :=
  match l with [] => [] | c :: r => if is_us c then lstrip_us r else l end.
(* str.rstrip("_") *)
Definition rstrip_us (l : list byte) : list byte := rev (lstrip_us (rev l)).
Definition strip_us (l : list byte) : list byte := rstrip_us (lstrip_us l).

Definition pythonize_enum_member_name (name enum_name : list byte) : list byte :=
  let e := upper (snake_case enum_name) in
  sanitize_name (match after_first e name with Some r => strip_us r | None => name end).

(* ---- keys of to_dict / to_pydict:  casing(field_name).rstrip("_") ---- *)
Definition camel_key (f : list byte) : list byte := rstrip_us (camel_case f).
Definition snake_key (f : list byte) : list byte := rstrip_us (snake_case f).

(* ---- from_dict / from_pydict: which field a key addresses ----
   The pinned code looks up safe_snake_case(key) only. *)
Definition mem_bytes (x : list byte) (l : list (list byte)) : bool := existsb (str_eqb x) l.
Definition field_for_key_pinned (fields : list (list byte)) (key : list byte) : option (list byte) :=
  let f := safe_snake_case key in if mem_bytes f fields then Some f else None.

(* With fixes/c19-from-dict-key-lookup.patch:
     ProtoClassMetadata.field_name_by_key = {camel_case(name).rstrip("_"): name for name in fields}
       (a dict comprehension: the LAST field with a given key wins)
     field_name = field_name_by_key.get(key) or safe_snake_case(key) *)
Fixpoint assoc_last (k : list byte) (tbl : list (list byte * list byte)) : option (list byte) :=
  match tbl with
  | [] => None
  | (k', v) :: r => match assoc_last k r with
                    | Some x => Some x
                    | None => if str_eqb k k' then Some v else None
                    end
  end.
Definition key_table (fields : list (list byte)) : list (list byte * list byte) :=
  map (fun f => (camel_key f, f)) fields.
Definition field_for_key (fields : list (list byte)) (key : list byte) : option (list byte) :=
  let f := match assoc_last key (key_table fields) with
           | Some g => g
           | None => safe_snake_case key
           end in
  if mem_bytes f fields then Some f else None.

(* ---- the decidable side conditions of the theorems (stated on the lower-cased words) ---- *)
Definition is_lower_b (b : byte) : bool := match classify b with Lower => true | _ => false end.
Definition is_digit_b (b : byte) : bool := match classify b with Digit => true | _ => false end.
Definition starts_digit (w : list byte) : bool := match w with c :: _ => is_digit_b c | [] => false end.
(* second character exists and is a lower-case letter *)
Definition second_lower (w : list byte) : bool := match w with _ :: c :: _ => is_lower_b c | _ => false end.
Definition single (w : list byte) : bool := match w with [_] => true | _ => false end.

(* camelCase keys: after the first word no word starts with a digit (it would fuse with the word
   before it: address_line_1 -> addressLine1 -> address_line1), and a one-letter word that is not the
   first is not followed by a one-letter word or a letter+digits word (they would fuse into one
   upper-case word: x_y_z -> xYZ -> x_yz) *)
Fixpoint key_safe_from (prev_single : bool) (ws : list (list byte)) : bool :=
  match ws with
  | [] => true
  | w :: r => negb (starts_digit w) && (negb prev_single || second_lower w) && key_safe_from (single w) r
  end.
Definition key_safe_ws (ws : list (list byte)) : bool :=
  match ws with [] => true | _ :: r => key_safe_from false r end.
Definition key_safe (s : list byte) : bool := key_safe_ws (map lower (words s)).

(* PascalCase: a one-letter word is not directly followed by a word that starts with a letter and
   has no lower-case second character  (a_b -> AB -> Ab) *)
Fixpoint pascal_stable_from (prev_single_letter : bool) (ws : list (list byte)) : bool :=
  match ws with
  | [] => true
  | w :: r => (negb prev_single_letter || starts_digit w || second_lower w)
              && pascal_stable_from (single w && negb (starts_digit w)) r
  end.
Definition pascal_stable_ws (ws : list (list byte)) : bool := pascal_stable_from false ws.
Definition pascal_stable (s : list byte) : bool := pascal_stable_ws (map lower (words s)).

(* class names: pythonize_class_name does not sanitise.  The first word must start with a letter,
   and the name must not be one of the capitalised keywords (False None True), which is the case
   exactly when snake_case gives one of their lower-cased forms *)
Definition starts_upper (w : list byte) : bool :=
  match w with c :: _ => match classify c with Upper => true | _ => false end | [] => false end.
Definition capital_keywords : list (list byte) := filter starts_upper Tables.kwlist.
Definition class_name_ok (s : list byte) : bool :=
  match words s with
  | [] => false
  | w :: _ => negb (starts_digit w)
  end && negb (mem_bytes (snake_case s) (map lower capital_keywords)).

(* proto identifiers [A-Za-z_][A-Za-z0-9_]*, and strings over the identifier alphabet *)
Definition ident_chars (x : list byte) : bool := forallb ident_char x.
Definition proto_ident (x : list byte) : bool := is_identifier x.

(* ---- T1: the regexes this scanner was derived from (build breaks if they change) ---- *)
Definition SYMBOLS_modelled : list byte :=      (* [^a-zA-Z0-9]* *)
  [x5b; x5e; x61; x2d; x7a; x41; x2d; x5a; x30; x2d; x39; x5d; x2a].
Definition WORD_modelled : list byte :=         (* [A-Z]*[a-z]*[0-9]* *)
  [x5b; x41; x2d; x5a; x5d; x2a; x5b; x61; x2d; x7a; x5d; x2a; x5b; x30; x2d; x39; x5d; x2a].
Definition WORD_UPPER_modelled : list byte :=   (* [A-Z]+(?![a-z])[0-9]* *)
  [x5b; x41; x2d; x5a; x5d; x2b; x28; x3f; x21; x5b; x61; x2d; x7a; x5d; x29; x5b; x30; x2d; x39; x5d; x2a].
Definition par (x : list byte) : list byte := [x28] ++ x ++ [x29].
Definition word_alt : list byte := par (WORD_UPPER_modelled ++ [x7c] ++ WORD_modelled).
(* snake_case: (^)?(SYMBOLS)(WORD_UPPER|WORD)    pascal_case: (SYMBOLS)(WORD_UPPER|WORD) *)
Definition snake_pattern_modelled : list byte := [x28; x5e; x29; x3f] ++ par SYMBOLS_modelled ++ word_alt.
Definition pascal_pattern_modelled : list byte := par SYMBOLS_modelled ++ word_alt.

Definition regexes_as_modelled : bool :=
  bytes_eqb C19Tables.SYMBOLS SYMBOLS_modelled && bytes_eqb C19Tables.WORD WORD_modelled
  && bytes_eqb C19Tables.WORD_UPPER WORD_UPPER_modelled
  && bytes_eqb C19Tables.snake_pattern snake_pattern_modelled
  && bytes_eqb C19Tables.pascal_pattern pascal_pattern_modelled
  && (C19Tables.snake_count_flags =? 0) && (C19Tables.pascal_count_flags =? 0).
Definition regexes_checked : regexes_as_modelled = true := eq_refl.

(* ---- executable sweeps for the correspondence check only (no theorem depends on them) ----
   Fletcher-style position-sensitive checksum (additions only), same scheme as Model/Sweep.v.
   [sweep alphabet n prefix] folds, in depth-first pre-order, over prefix ++ t for every string t
   of length <= n over the alphabet; the harness enumerates in the same order and mixes the
   outputs of the real functions. *)
Definition hsum := (Z * Z)%type.
Definition mix (h : hsum) (x : Z) : hsum := let '(a, b) := h in let a' := a + x + 1 in (a', b + a').
Definition mix_bytes (h : hsum) (bs : list byte) : hsum :=
  fold_left (fun h b => mix h (Z_of_byte b)) bs (mix h (Zlength bs)).
Definition mix_bool (h : hsum) (b : bool) : hsum := mix h (if b then 1 else 0).

(* everything the property looks at, for one string *)
Definition code (s : list byte) (h : hsum) : hsum :=
  let sn := snake_case s in
  let f := sanitize_name sn in
  let p := pascal_case s in
  let h := mix_bytes h sn in
  let h := mix_bytes h f in
  let h := mix_bytes h p in
  let h := mix_bytes h (camel_case s) in
  let h := mix_bytes h (sanitize_name s) in
  let h := mix_bytes h (camel_key f) in
  let h := mix_bytes h (snake_key f) in
  (* model predicate vs. behaviour of the real functions (the harness mixes the behaviour) *)
  let h := mix_bool h (key_safe s) in
  let h := mix_bool h (pascal_stable s) in
  mix_bool (mix_bool h (is_identifier p && negb (is_keyword p))) (class_name_ok s).

(* the same with [words s] computed once (convertible to [code]: Proofs/CasingP.v, code_fast_eq) *)
Definition code_fast (s : list byte) (h : hsum) : hsum :=
  let ws := words s in
  let lws := map lower ws in
  let sn := join [us] lws in
  let f := sanitize_name sn in
  let p := concat (map capitalize ws) in
  let h := mix_bytes h sn in
  let h := mix_bytes h f in
  let h := mix_bytes h p in
  let h := mix_bytes h (lowercase_first p) in
  let h := mix_bytes h (sanitize_name s) in
  let h := mix_bytes h (camel_key f) in
  let h := mix_bytes h (snake_key f) in
  let h := mix_bool h (key_safe_ws lws) in
  let h := mix_bool h (pascal_stable_ws lws) in
  mix_bool (mix_bool h (is_identifier p && negb (is_keyword p)))
           (match ws with [] => false | w :: _ => negb (starts_digit w) end
            && negb (mem_bytes sn (map lower capital_keywords))).

Fixpoint sweep_go (alphabet : list byte) (n : nat) (s : list byte) (h : hsum) : hsum :=
  let h := code_fast s h in
  match n with
  | O => h
  | S n' => fold_left (fun h c => sweep_go alphabet n' (s ++ [c]) h) alphabet h
  end.
Definition sweep (alphabet : list byte) (n : nat) (prefix : list byte) : hsum :=
  sweep_go alphabet n prefix (0, 0).

(* canonical value of one name for the case-by-case comparison *)
Definition case_name (s : list byte) : cv :=
  let f := safe_snake_case s in
  CL [CB (snake_case s); CB f; CB (pascal_case s); CB (camel_case s); CB (sanitize_name s);
      CB (lowercase_first s); CB (camel_key f); CB (snake_key f);
      cbool (key_safe s); cbool (pascal_stable s);
      cbool (is_identifier (pascal_case s) && negb (is_keyword (pascal_case s)));
      cbool (class_name_ok s)].
