(* C01 gap closing: a witness schema that uses EVERY field kind the property text lists, and a value of it at the corners
   the quantifier lists.  Definitions only (no behaviour of the code is modelled here); used by Proofs/C01GapB.v.

   class 11 (92 fields, one oneof group):
     1..16   the 16 scalar kinds as plain fields            17..32  the same, repeated (packed for the 14 packable kinds)
     33..48  the same, proto3-optional                      49..64  the same, members of oneof group 0;  65: a message member
     66..74  the nine wrapper types                         75 Timestamp, 76 Duration, 77 repeated Timestamp,
     78 repeated class 11, 79 class 11 (recursive), 80 optional class 11
     81..92  maps, one per legal key kind; values: enum, string, bytes, float, double, bool, sfixed32, fixed64, uint64,
             sint64, int32, message (class 11 again); Entry classes 12..23 *)
From Coq Require Import ZArith List.
From BP Require Import Base.Prelude Model.Types Model.Object Model.WellFormed Model.C01Def gen.Tables.
Import ListNotations.

Definition gk_py (t : ptype) : pyty :=
  match t with TEnum => PyEnum 0 | TMessage => PyMsg 11 | _ => plain_pyty t end.
Definition gk_name (i : nat) : list byte :=
  match Byte.of_nat (33 + i) with Some b => [x66; b] | None => [x66] end.

Definition gk_map_kinds : list (ptype * ptype) :=
  [(TInt32, TEnum); (TInt64, TString); (TUInt32, TBytes); (TUInt64, TFloat); (TSInt32, TDouble); (TSInt64, TBool);
   (TFixed32, TSFixed32); (TSFixed32, TFixed64); (TFixed64, TUInt64); (TSFixed64, TSInt64); (TBool, TInt32);
   (TString, TMessage)].

(* (proto type, map kinds, group, wraps, optional, hint, entry class) in declaration order *)
Definition gk_specs : list (ptype * option (ptype * ptype) * option nat * option ptype * bool * hint * nat) :=
  map (fun t => (t, None, None, None, false, HPlain (gk_py t), 0%nat)) scalar_ptypes ++
  map (fun t => (t, None, None, None, false, HList (gk_py t), 0%nat)) scalar_ptypes ++
  map (fun t => (t, None, None, None, true, HOptional (gk_py t), 0%nat)) scalar_ptypes ++
  map (fun t => (t, None, Some 0%nat, None, false, HPlain (gk_py t), 0%nat)) scalar_ptypes ++
  [(TMessage, None, Some 0%nat, None, false, HPlain (PyMsg 11), 0%nat)] ++
  map (fun w => (TMessage, None, None, Some w, false, HOptional (gk_py w), 0%nat)) wrapper_types ++
  [(TMessage, None, None, None, false, HPlain PyDatetime, 0%nat);
   (TMessage, None, None, None, false, HPlain PyTimedelta, 0%nat);
   (TMessage, None, None, None, false, HList PyDatetime, 0%nat);
   (TMessage, None, None, None, false, HList (PyMsg 11), 0%nat);
   (TMessage, None, None, None, false, HPlain (PyMsg 11), 0%nat);
   (TMessage, None, None, None, true, HOptional (PyMsg 11), 0%nat)] ++
  map (fun '(j, (kt, vt)) => (TMap, Some (kt, vt), None, None, false, HDict (gk_py kt) (gk_py vt), (12 + j)%nat))
      (combine (seq 0 12) gk_map_kinds).

Definition gk_fields : list fdesc :=
  map (fun '(i, (t, mk, g, w, o, h, e)) => mkF (gk_name i) (Z.of_nat (S i)) t mk g w o h e)
      (combine (seq 0 (length gk_specs)) gk_specs).

Definition gk_entry (kv : ptype * ptype) : cdesc :=
  mkC [mkF [x6b] 1 (fst kv) None None None false (HPlain (gk_py (fst kv))) 0;
       mkF [x76] 2 (snd kv) None None None false (HPlain (gk_py (snd kv))) 0] 0.

Definition gk_schema : schema :=
  mkS (builtin_classes ++ mkC gk_fields 1 :: map gk_entry gk_map_kinds)
      [mkE [([x5a], 0); ([x4e], -1)]].

(* corner values *)
Definition gk_bnd (t : ptype) : pv :=
  match t with
  | TEnum => PInt (-2147483648)                              (* negative and unlisted *)
  | TBool => PBool true
  | TInt32 | TSInt32 | TSFixed32 => PInt (-2147483648)
  | TInt64 | TSInt64 | TSFixed64 => PInt (-9223372036854775808)
  | TUInt32 | TFixed32 => PInt 4294967295
  | TUInt64 | TFixed64 => PInt 18446744073709551615
  | TFloat => PFloat 18442240474082181120                    (* -inf *)
  | TDouble => PFloat 9223372036854775808                    (* -0.0 *)
  | TString => PStr [xf0; x9f; x98; x80]                     (* non-BMP *)
  | TBytes => PBytes [x00; xff]
  | _ => PPlaceholder
  end.
Definition gk_dflt (t : ptype) : pv :=
  match t with
  | TBool => PBool false
  | TFloat | TDouble => PFloat 0
  | TString => PStr []
  | TBytes => PBytes []
  | _ => PInt 0
  end.
(* singular NaN (double) and +inf (float32) *)
Definition gk_plain (t : ptype) : pv :=
  match t with TDouble => PFloat 9221120237041090560 | TFloat => PFloat 9218868437227405312 | _ => gk_bnd t end.

Definition gk_leaf : obj := new gk_schema 11.
Definition gk_present : obj := raise_sow gk_leaf.

Definition gk_map_value (kv : ptype * ptype) : pv :=
  PDict [(match fst kv with TString => PStr [x6b] | k => gk_bnd k end,
          match snd kv with TMessage => PMsg gk_leaf | v => gk_bnd v end)].

(* the oneof: member 64 + 14 = the string member (index 14 of scalar_ptypes) selected, holding its default "" *)
Definition gk_selected : nat := 62.

Definition gk_raw : list pv :=
  map gk_plain scalar_ptypes ++
  map (fun t => PList [gk_bnd t; gk_dflt t; gk_bnd t]) scalar_ptypes ++
  map gk_dflt scalar_ptypes ++                                       (* optionals holding the default value *)
  map (fun t => match t with TString => PStr [] | _ => PPlaceholder end) scalar_ptypes ++
  [PPlaceholder] ++
  map (fun w => match w with TBool | TString => gk_dflt w | _ => gk_bnd w end) wrapper_types ++
  [PDatetime (-1500000); PTimedelta (-1500001); PList [PDatetime 0; PDatetime (-1)];
   PList [PMsg gk_leaf; PMsg gk_present]; PMsg gk_present; PMsg gk_present] ++
  map gk_map_value gk_map_kinds.

Definition gk_obj : obj := Obj 11 gk_raw true [] [Some gk_selected].

(* empty containers, unset optionals, nothing selected *)
Definition gk_empty : obj := gk_leaf.

(* n further passes through bytes / parse *)
Fixpoint cycles (sc : schema) (n : nat) (o : obj) : result obj :=
  match n with
  | O => Ok o
  | S n' => do bs <- Encode.enc_obj sc o; do o' <- Decode.parse sc (ocls o) bs; cycles sc n' o'
  end.
