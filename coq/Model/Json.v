(* L1 mirror of the dict / JSON codec of src/betterproto/__init__.py:
     Message.to_dict, Message._from_dict_init, Message.from_dict (classmethod AND instance
     form), to_json / from_json (json.dumps / json.loads around them), _dump_float /
     _parse_float, _dump_enum, _dump_json_value / _parse_json_value / _parse_json_key,
     ProtoClassMetadata.field_name_by_key (through Model/Casing.v field_for_key),
     _Timestamp.timestamp_to_json / isoparse, _Duration.delta_to_json / delta_from_json
     (through Model/Time.v).

   The model mirrors the code WITH the repairs recorded in known_findings/fixed.txt and
   with fixes/c04-optional-default-emit.patch, fixes/c04-map-wrapper-json.patch and
   fixes/c04-repeated-wrapper-json.patch.

   INTERFACE (imported read-only by C05 C07 C14 C20 - keep stable):
     json                      the AST (JPy v = a Python object that is not JSON: bytes,
                               datetime, timedelta, a Message ...; json.dumps raises on it)
     casing := CAMEL | SNAKE
     to_dict cs incl sc o      : json          m.to_dict(casing, include_default_values)
     from_dict_init sc c j     : result (list (nat * pv))   Cls._from_dict_init(j) as (field index, value)
     from_dict_cls sc c j      : result obj    Cls.from_dict(j)
     from_dict_inst sc o j     : result obj    o.from_dict(j)    (o is the state before the call)
     text_rt j                 : json          json.loads(json.dumps(j))   (defined where dumpsable j)
     dumpsable j               : bool          json.dumps(j) does not raise
     to_json_rt / from_json_*  the text path
     cv_of_json                canonical form for the correspondence check

   Modelling decisions (all sampled by harness/props/c04.py):
   * exact on WELL-TYPED objects (every raw attribute holds a value of its declared Python type;
     implied by WellFormed.in_range).  An ill-typed attribute is printed as [JPy v].
   * the text path: json.dumps/json.loads are the identity on the AST except that object keys
     become strings (1 -> "1", True -> "true") and every NaN becomes the one NaN float("nan").
     float repr / float() are an oracle (identity on finite doubles), so are the string escapes.
   * base64 is modelled concretely (b64encode; b64decode = binascii.a2b_base64, non-strict).
   * the calendar: [civil_of_days]/[days_of_civil] are executable (proleptic Gregorian), isoformat of
     the UTC wall clock is printed from them, and [iso_parse] reads "YYYY-MM-DD?HH:MM:SS[.f+](Z|+HH:MM|-HH:MM)"
     (what timestamp_to_json and the reference printer emit); any other text is [Err EOther]
     = outside the model (dateutil reads many more formats).
   * int("..."): optional sign and ASCII digits; float("...") of a numeric string, int(float):
     [Err EFuel] = outside the model (never produced by to_dict).
   * duplicate keys inside ONE JSON map object after key conversion ("1" and "01") are outside the model.
   No proofs here (Proofs/C04*.v). *)
From BP Require Import Base.Prelude Model.Types Model.Float Model.Utf8 Model.Object Model.Eq Model.TimeCore Model.Canon.
From BP Require Import Spec.Time.
From BP Require Model.Time Model.Enum Model.Casing.
From BP Require Import gen.Tables.

(* ====================================================================================== *)
(* the AST                                                                                *)
(* ====================================================================================== *)
Inductive json :=
| JNull
| JBool (b : bool)
| JInt (z : Z)
| JFloat (bits : Z)
| JStr (s : list byte)
| JList (l : list json)
| JObj (kvs : list (json * json))     (* insertion ordered; keys are JStr / JInt / JBool before dumps *)
| JPy (v : pv).                       (* not JSON *)

Inductive casing := CAMEL | SNAKE.

(* a Python value placed in the output as it is *)
Fixpoint raw_json (v : pv) : json :=
  match v with
  | PNone => JNull
  | PBool b => JBool b
  | PInt z => JInt z
  | PFloat b => JFloat b
  | PStr s => JStr s
  | PList l => JList (map raw_json l)
  | PDict d => JObj (map (fun kx => let '(k, x) := kx in (raw_json k, raw_json x)) d)
  | _ => JPy v
  end.

(* a JSON value taken into the message as it is *)
Fixpoint py_of_json (j : json) : pv :=
  match j with
  | JNull => PNone
  | JBool b => PBool b
  | JInt z => PInt z
  | JFloat b => PFloat b
  | JStr s => PStr s
  | JList l => PList (map py_of_json l)
  | JObj d => PDict (map (fun kx => let '(k, x) := kx in (py_of_json k, py_of_json x)) d)
  | JPy v => v
  end.

(* ====================================================================================== *)
(* text: int <-> str                                                                      *)
(* ====================================================================================== *)
Definition str_of_Z (z : Z) : list byte := if z <? 0 then cMINUS :: dec (- z) else dec z.

Definition parse_int (s : list byte) : option Z :=
  let '(neg, r) := match s with
                   | b :: r => if Byte.eqb b cMINUS then (true, r) else if Byte.eqb b cPLUS then (false, r) else (false, s)
                   | [] => (false, s)
                   end in
  let '(ds, rest) := span_digits r in
  if is_nil rest && negb (is_nil ds) then Some (if neg then - dval ds else dval ds) else None.

Definition s_true : list byte := [x74; x72; x75; x65].
Definition s_false : list byte := [x66; x61; x6c; x73; x65].
Definition s_null : list byte := [x6e; x75; x6c; x6c].

(* ====================================================================================== *)
(* base64                                                                                 *)
(* ====================================================================================== *)
Definition cEQ : byte := x3d.
Definition b64_char (i : Z) : byte :=
  byte_of_Z (if i <? 26 then 65 + i else if i <? 52 then 71 + i else if i <? 62 then i - 4
             else if i =? 62 then 43 else 47).
Definition b64_index (c : byte) : option Z :=
  let n := Z_of_byte c in
  if (65 <=? n) && (n <=? 90) then Some (n - 65)
  else if (97 <=? n) && (n <=? 122) then Some (n - 71)
  else if (48 <=? n) && (n <=? 57) then Some (n + 4)
  else if n =? 43 then Some 62
  else if n =? 47 then Some 63
  else None.

Fixpoint b64encode (bs : list byte) : list byte :=
  match bs with
  | [] => []
  | [a] =>
      let n := Z_of_byte a in
      [b64_char (n / 4); b64_char ((n mod 4) * 16); cEQ; cEQ]
  | [a; b] =>
      let n := Z_of_byte a in let m := Z_of_byte b in
      [b64_char (n / 4); b64_char ((n mod 4) * 16 + m / 16); b64_char ((m mod 16) * 4); cEQ]
  | a :: b :: c :: r =>
      let n := Z_of_byte a in let m := Z_of_byte b in let k := Z_of_byte c in
      b64_char (n / 4) :: b64_char ((n mod 4) * 16 + m / 16) :: b64_char ((m mod 16) * 4 + k / 64)
      :: b64_char (k mod 64) :: b64encode r
  end.

(* binascii.a2b_base64(s, strict_mode=False): characters outside the alphabet are skipped; a
   pad that completes a quad ends the parse; leftover sextets are an error *)
Fixpoint b64_go (s : list byte) (qp pads left : Z) : result (list byte) :=
  match s with
  | [] => if qp =? 0 then Ok [] else Err EValue
  | c :: r =>
      if Byte.eqb c cEQ then
        if (2 <=? qp) && (4 <=? qp + pads + 1) then Ok []
        else b64_go r qp (if 2 <=? qp then pads + 1 else pads) left
      else
        match b64_index c with
        | None => b64_go r qp pads left
        | Some v =>
            if qp =? 0 then b64_go r 1 0 v
            else if qp =? 1 then do t <- b64_go r 2 0 (v mod 16); Ok (byte_of_Z (left * 4 + v / 16) :: t)
            else if qp =? 2 then do t <- b64_go r 3 0 (v mod 4); Ok (byte_of_Z (left * 16 + v / 4) :: t)
            else do t <- b64_go r 0 0 0; Ok (byte_of_Z (left * 64 + v) :: t)
        end
  end.

(* base64.b64decode(str): the string must be ASCII *)
Definition b64decode (s : list byte) : result (list byte) :=
  if forallb (fun c => Z_of_byte c <? 128) s then b64_go s 0 0 0 else Err EValue.

(* ====================================================================================== *)
(* calendar (proleptic Gregorian), isoformat / isoparse                                   *)
(* ====================================================================================== *)
Definition civil_of_days (z0 : Z) : Z * Z * Z :=
  let z := z0 + 719468 in
  let era := z / 146097 in
  let doe := z - era * 146097 in
  let yoe := (doe - doe / 1460 + doe / 36524 - doe / 146096) / 365 in
  let y := yoe + era * 400 in
  let doy := doe - (365 * yoe + yoe / 4 - yoe / 100) in
  let mp := (5 * doy + 2) / 153 in
  let d := doy - (153 * mp + 2) / 5 + 1 in
  let m := if mp <? 10 then mp + 3 else mp - 9 in
  ((if m <=? 2 then y + 1 else y), m, d).

Definition days_of_civil (y0 m d : Z) : Z :=
  let y := if m <=? 2 then y0 - 1 else y0 in
  let era := y / 400 in
  let yoe := y - era * 400 in
  let doy := (153 * (if 2 <? m then m - 3 else m + 9) + 2) / 5 + d - 1 in
  let doe := yoe * 365 + yoe / 4 - yoe / 100 + doy in
  era * 146097 + doe - 719468.

Definition is_leap (y : Z) : bool := ((y mod 4 =? 0) && negb (y mod 100 =? 0)) || (y mod 400 =? 0).
Definition days_in_month (y m : Z) : Z :=
  if m =? 2 then (if is_leap y then 29 else 28)
  else if (m =? 4) || (m =? 6) || (m =? 9) || (m =? 11) then 30 else 31.

Definition cCOLON : byte := x3a.
Definition cT : byte := x54.

(* datetime.isoformat() of the UTC wall clock at [s] whole seconds since the epoch, tzinfo dropped *)
Definition cal_text (s : Z) : list byte :=
  let days := s / 86400 in
  let sod := s mod 86400 in
  let '(y, m, d) := civil_of_days days in
  pad 4 y ++ [cMINUS] ++ pad 2 m ++ [cMINUS] ++ pad 2 d ++ [cT] ++
  pad 2 (sod / 3600) ++ [cCOLON] ++ pad 2 (sod mod 3600 / 60) ++ [cCOLON] ++ pad 2 (sod mod 60).

(* _Timestamp.timestamp_to_json(dt) for the aware datetime at instant [us] (any tzinfo: the
   code converts to UTC first).  The 9-digit branch of the code is dead (nanos = microsecond * 1e3). *)
Definition ts_text (us : Z) : list byte :=
  ts_json (cal_text (us / 1000000)) ((us mod 1000000) * 1000).

(* the part after the seconds: optional fraction, then Z or a numeric offset; -> (microsecond, offset seconds) *)
Definition iso_suffix (r : list byte) : option (Z * Z) :=
  let '(fr, r1) :=
    match r with
    | b :: r' =>
        if Byte.eqb b cDOT then
          let '(fp, r2) := span_digits r' in
          let fp6 := firstn 6 fp in
          (if is_nil fp then None else Some (dval fp6 * 10 ^ (6 - Z.of_nat (length fp6))), r2)
        else (Some 0, r)
    | [] => (Some 0, r)
    end in
  match fr with
  | None => None
  | Some f =>
      match r1 with
      | [z] => if Byte.eqb z cZ then Some (f, 0) else None
      | [sg; h1; h2; c; m1; m2] =>
          if (Byte.eqb sg cPLUS || Byte.eqb sg cMINUS) && is_digit h1 && is_digit h2 && Byte.eqb c cCOLON
             && is_digit m1 && is_digit m2 then
            let o := dval [h1; h2] * 3600 + dval [m1; m2] * 60 in
            if (dval [h1; h2] <? 24) && (dval [m1; m2] <? 60) then Some (f, if Byte.eqb sg cMINUS then - o else o) else None
          else None
      | _ => None
      end
  end.

(* dateutil.parser.isoparse(s) -> the instant of the aware datetime it returns *)
Definition iso_parse (s : list byte) : result Z :=
  match s with
  | y1 :: y2 :: y3 :: y4 :: a :: m1 :: m2 :: b :: d1 :: d2 :: _ :: h1 :: h2 :: c :: i1 :: i2 :: e :: s1 :: s2 :: rest =>
      if forallb is_digit [y1; y2; y3; y4; m1; m2; d1; d2; h1; h2; i1; i2; s1; s2]
         && Byte.eqb a cMINUS && Byte.eqb b cMINUS && Byte.eqb c cCOLON && Byte.eqb e cCOLON then
        let y := dval [y1; y2; y3; y4] in let m := dval [m1; m2] in let d := dval [d1; d2] in
        let h := dval [h1; h2] in let mi := dval [i1; i2] in let sec := dval [s1; s2] in
        if (1 <=? y) && (1 <=? m) && (m <=? 12) && (1 <=? d) && (d <=? days_in_month y m)
           && (h <? 24) && (mi <? 60) && (sec <? 60) then
          match iso_suffix rest with
          | Some (fr, off) =>
              Ok ((days_of_civil y m d * 86400 + h * 3600 + mi * 60 + sec - off) * 1000000 + fr)
          | None => Err EOther
          end
        else Err EValue
      else Err EOther
  | _ => Err EOther
  end.

(* ====================================================================================== *)
(* floats, enums                                                                          *)
(* ====================================================================================== *)
Definition nan_bits : Z := Z.shiftl 4095 51.          (* float("nan") *)

(* _dump_float *)
Definition dump_float (b : Z) : json :=
  if b =? f64_pos_inf then JStr JSON_INFINITY
  else if b =? f64_neg_inf then JStr JSON_NEG_INFINITY
  else if f64_is_nan b then JStr JSON_NAN
  else JFloat b.

(* float(int), exact below 2^53 *)
Definition f64_of_Z (z : Z) : option Z :=
  if z =? 0 then Some 0
  else
    let m := Z.abs z in
    if m <? 2 ^ 53 then
      let e := Z.log2 m in
      Some ((if z <? 0 then 2 ^ 63 else 0) + (e + 1023) * 2 ^ 52 + (m * 2 ^ (52 - e) - 2 ^ 52))
    else None.

(* _parse_float *)
Definition parse_float (j : json) : result pv :=
  match j with
  | JStr s =>
      if bytes_eqb s JSON_INFINITY then Ok (PFloat f64_pos_inf)
      else if bytes_eqb s JSON_NEG_INFINITY then Ok (PFloat f64_neg_inf)
      else if bytes_eqb s JSON_NAN then Ok (PFloat nan_bits)
      else Err EFuel
  | JFloat b => Ok (PFloat b)
  | JInt z => match f64_of_Z z with Some b => Ok (PFloat b) | None => Err EFuel end
  | JBool b => Ok (PFloat (if b then 1023 * 2 ^ 52 else 0))
  | _ => Err EType
  end.

Definition enum_cls (sc : schema) (e : nat) : Enum.ecls :=
  Enum.class_of (emembers (nth e (enums sc) (mkE []))).

(* _dump_enum(enum_class, value) *)
Definition dump_enum (sc : schema) (e : nat) (z : Z) : json :=
  match Enum.to_json_el (enum_cls sc e) z with
  | Enum.JName n => JStr n
  | Enum.JNum v => JInt v
  | Enum.JNull => JNull
  end.

(* from_string for str, try_value for int; anything else is left alone *)
Definition enum_from_json (sc : schema) (e : nat) (j : json) : result pv :=
  match j with
  | JStr n => do m <- Enum.from_string (enum_cls sc e) n; Ok (PInt (snd m))
  | JInt z => Ok (PInt (snd (Enum.try_value (enum_cls sc e) z)))
  | JBool b => Ok (PInt (snd (Enum.try_value (enum_cls sc e) (if b then 1 else 0))))
  | _ => Ok (py_of_json j)
  end.

(* int(value) *)
Definition int_of_json (j : json) : result pv :=
  match j with
  | JStr s => match parse_int s with Some z => Ok (PInt z) | None => Err EValue end
  | JInt z => Ok (PInt z)
  | JBool b => Ok (PInt (if b then 1 else 0))
  | JFloat _ => Err EFuel
  | _ => Err EType
  end.

(* ====================================================================================== *)
(* to_dict                                                                                *)
(* ====================================================================================== *)
Definition hint_elem (f : fdesc) : pyty :=
  match fhint f with HPlain p | HOptional p | HList p => p | HDict _ p => p end.

(* the JSON form of one scalar of proto type [t] (singular, element of a repeated field, map value,
   wrapped value): the branches of to_dict's last arm and _dump_json_value *)
Definition scalar_to_json (sc : schema) (t : ptype) (p : pyty) (v : pv) : json :=
  if tmem t INT_64_TYPES then match v with PInt z => JStr (str_of_Z z) | _ => JPy v end
  else if ptype_eqb t TBytes then match v with PBytes b => JStr (b64encode b) | _ => JPy v end
  else if ptype_eqb t TEnum then match v, p with PInt z, PyEnum e => dump_enum sc e z | _, _ => raw_json v end
  else if tmem t [TFloat; TDouble] then match v with PFloat b => dump_float b | _ => raw_json v end
  else raw_json v.

Definition elem_to_json (rec : obj -> json) (sc : schema) (t : ptype) (p : pyty) (v : pv) : json :=
  match v with
  | PDatetime us => JStr (ts_text us)
  | PTimedelta us => JStr (Model.Time.delta_to_json us)
  | PMsg o => rec o
  | _ => scalar_to_json sc t p v
  end.

Definition emit (c : bool) (j : json) : option json := if c then Some j else None.

(* the body of to_dict's loop for one field whose attribute reads as [v] (never PLACEHOLDER);
   [sel]: is this the member its oneof group selects; None = the field is left out *)
Definition field_to_json (rec : obj -> json) (sc : schema) (incl : bool) (f : fdesc)
           (sel : option bool) (v : pv) : option json :=
  let inc := incl || match sel with Some true => true | _ => false end in
  if ptype_eqb (fty f) TMessage then
    match v with
    | PDatetime us => emit (negb (us =? 0) || inc || fopt f) (JStr (ts_text us))
    | PTimedelta us => emit (negb (us =? 0) || inc || fopt f) (JStr (Model.Time.delta_to_json us))
    | _ =>
        match fwraps f with
        | Some w =>
            match v with
            | PNone => emit incl JNull
            | _ =>
                match fhint f with
                | HList p =>              (* repeated wrapper: element by element, emitted even when empty *)
                    match v with
                    | PList l => Some (JList (map (scalar_to_json sc w p) l))
                    | _ => Some (JPy v)
                    end
                | _ => Some (scalar_to_json sc w (hint_elem f) v)
                end
            end
        | None =>
            match fhint f with
            | HList p =>
                match v with
                | PList l => emit (negb (is_nil l) || incl) (JList (map (elem_to_json rec sc TMessage p) l))
                | _ => Some (JPy v)
                end
            | _ =>
                match v with
                | PNone => emit incl JNull
                | PMsg o => emit (osow o || inc || fopt f) (rec o)
                | _ => Some (JPy v)
                end
            end
        end
    end
  else if ptype_eqb (fty f) TMap then
    match v, fmap f, fhint f with
    | PDict d, Some (_, vt), HDict _ pv' =>
        emit (negb (is_nil d) || incl)
             (JObj (map (fun kx => let '(k, x) := kx in (raw_json k, elem_to_json rec sc vt pv' x)) d))
    | _, _, _ => Some (JPy v)
    end
  else if negb (is_default sc f v) || inc then
    match fhint f with
    | HList p =>
        match v with
        | PList l => Some (JList (map (scalar_to_json sc (fty f) p) l))
        | _ => Some (JPy v)
        end
    | _ =>
        match v with
        | PNone => Some JNull
        | _ => Some (scalar_to_json sc (fty f) (hint_elem f) v)
        end
    end
  else None.

Definition key_of_field (cs : casing) (f : fdesc) : list byte :=
  match cs with
  | CAMEL => Casing.camel_key (fname f)
  | SNAKE => Casing.snake_key (fname f)
  end.

(* output[key] = value on a dict under construction *)
Fixpoint jset (k : list byte) (v : json) (d : list (json * json)) : list (json * json) :=
  match d with
  | [] => [(JStr k, v)]
  | (JStr k', v') :: r => if bytes_eqb k k' then (JStr k', v) :: r else (JStr k', v') :: jset k v r
  | kv :: r => kv :: jset k v r
  end.
Definition dict_norm (items : list (list byte * json)) : list (json * json) :=
  fold_left (fun d kv => jset (fst kv) (snd kv) d) items [].

(* Cls().to_dict(casing, include_default_values=True): every field is PLACEHOLDER, no oneof
   member is selected.  Recursive message types never terminate in Python (RecursionError);
   here the fuel runs out: [JPy PPlaceholder]. *)
Fixpoint default_dict (fuel : nat) (cs : casing) (sc : schema) (c : nat) : json :=
  match fuel with
  | O => JPy PPlaceholder
  | S n =>
      JObj (dict_norm (flat_map
        (fun f =>
           match fgroup f with
           | Some _ => []
           | None =>
               match field_to_json (fun o' => default_dict n cs sc (ocls o')) sc true f None (default_of sc f) with
               | Some j => [(key_of_field cs f, j)]
               | None => []
               end
           end) (cfields (get_class sc c))))
  end.

Definition default_fuel : nat := 6.

(* m.to_dict(casing, include_default_values) *)
Fixpoint to_dict (cs : casing) (incl : bool) (sc : schema) (o : obj) {struct o} : json :=
  let 'Obj c raw sow unk cur := o in
  JObj (dict_norm
    ((fix go (i : nat) (raw : list pv) (fs : list fdesc) {struct raw} : list (list byte * json) :=
        match raw, fs with
        | x :: raw', f :: fs' =>
            let here :=
              match group_selects cur f i with
              | Some false => None                    (* getattr raised AttributeError: continue *)
              | sel =>
                  match x with
                  | PPlaceholder =>
                      field_to_json (fun o' => if incl then default_dict default_fuel cs sc (ocls o') else JObj [])
                                    sc incl f sel (default_of sc f)
                  | _ => field_to_json (to_dict cs incl sc) sc incl f sel x
                  end
              end in
            (match here with Some j => [(key_of_field cs f, j)] | None => [] end) ++ go (Datatypes.S i) raw' fs'
        | _, _ => []
        end) O raw (cfields (get_class sc c)))).

(* ====================================================================================== *)
(* from_dict                                                                              *)
(* ====================================================================================== *)
Definition mapM {A B} (f : A -> result B) : list A -> result (list B) :=
  fix go (l : list A) : result (list B) :=
    match l with
    | [] => Ok []
    | x :: r => do y <- f x; do ys <- go r; Ok (y :: ys)
    end.

(* one scalar back from its JSON form: the scalar arm of _from_dict_init / _parse_json_value *)
Definition scalar_from_json (sc : schema) (t : ptype) (p : pyty) (j : json) : result pv :=
  if tmem t INT_64_TYPES then int_of_json j
  else if ptype_eqb t TBytes then
    match j with JStr s => do b <- b64decode s; Ok (PBytes b) | _ => Err EType end
  else if ptype_eqb t TEnum then
    match p with PyEnum e => enum_from_json sc e j | _ => Ok (py_of_json j) end
  else if tmem t [TFloat; TDouble] then parse_float j
  else Ok (py_of_json j).

(* one element (of a singular / repeated message-typed field, or a map value) *)
Definition elem_from_json (rec : nat -> json -> result obj) (sc : schema) (t : ptype) (p : pyty)
           (j : json) : result pv :=
  match p with
  | PyDatetime => match j with JStr s => do us <- iso_parse s; Ok (PDatetime us) | _ => Err EType end
  | PyTimedelta => match j with JStr s => do us <- Model.Time.parse_duration s; Ok (PTimedelta us) | _ => Err EType end
  | _ =>
      if ptype_eqb t TMessage then
        match p with PyMsg c => do o <- rec c j; Ok (PMsg o) | _ => Err EAttribute end
      else scalar_from_json sc t p j
  end.

(* _parse_json_key *)
Definition key_from_json (kt : ptype) (k : json) : result pv :=
  match k with
  | JStr s =>
      if ptype_eqb kt TString then Ok (PStr s)
      else if ptype_eqb kt TBool then Ok (PBool (bytes_eqb s s_true))
      else match parse_int s with Some z => Ok (PInt z) | None => Err EValue end
  | _ => Ok (py_of_json k)
  end.

(* `[conv(x) for x in value] if isinstance(value, list) else conv(value)` *)
Definition list_or_single (conv : json -> result pv) (j : json) : result pv :=
  match j with
  | JList l => do vs <- mapM conv l; Ok (PList vs)
  | _ => conv j
  end.

(* the conversion of one (non-None) value for field [f] *)
Definition value_from_json (rec : nat -> json -> result obj) (sc : schema) (f : fdesc) (j : json) : result pv :=
  if ptype_eqb (fty f) TMessage then
    match fwraps f with
    | Some w =>
        match hint_elem f with
        | PyDatetime | PyTimedelta => Err EOther          (* not a wrapper: outside wf_schema *)
        | p => list_or_single (scalar_from_json sc w p) j
        end
    | None => list_or_single (elem_from_json rec sc TMessage (hint_elem f)) j
    end
  else
    match fmap f with
    | Some (kt, vt) =>
        match j with
        | JObj d =>
            do kvs <- mapM (fun kx => let '(k, x) := kx in
                                      do k' <- key_from_json kt k;
                                      do x' <- elem_from_json rec sc vt (hint_elem f) x;
                                      Ok (k', x')) d;
            Ok (PDict kvs)
        | _ => Err EAttribute
        end
    | None => list_or_single (scalar_from_json sc (fty f) (hint_elem f)) j
    end.

(* cls._betterproto.meta_by_field_name[field_name] as (index, descriptor) *)
Fixpoint find_field (i : nat) (fs : list fdesc) (name : list byte) : option (nat * fdesc) :=
  match fs with
  | [] => None
  | f :: r => if Casing.str_eqb name (fname f) then Some (i, f) else find_field (Datatypes.S i) r name
  end.

(* one (key, value) item of the mapping -> zero or one keyword arguments *)
Definition item_from_json (rec : nat -> json -> result obj) (sc : schema) (fs : list fdesc)
           (k v : json) : result (list (nat * pv)) :=
  match k with
  | JStr key =>
      match Casing.field_for_key (map fname fs) key with
      | None => Ok []
      | Some name =>
          match find_field O fs name with
          | None => Ok []
          | Some (i, f) =>
              match v with
              | JNull => Ok []
              | _ => do x <- value_from_json rec sc f v; Ok [(i, x)]
              end
          end
      end
  | _ => Err EType
  end.

(* init_kwargs[field_name] = value *)
Fixpoint kw_set (i : nat) (v : pv) (kw : list (nat * pv)) : list (nat * pv) :=
  match kw with
  | [] => [(i, v)]
  | (i', v') :: r => if Nat.eqb i i' then (i', v) :: r else (i', v') :: kw_set i v r
  end.
Definition kw_norm (items : list (nat * pv)) : list (nat * pv) :=
  fold_left (fun kw iv => kw_set (fst iv) (snd iv) kw) items [].

(* cls( ** kwargs); self._serialized_on_wire = True *)
Definition set_sow (o : obj) : obj := let 'Obj c raw _ unk cur := o in Obj c raw true unk cur.
Definition finish_cls (sc : schema) (c : nat) (kw : list (nat * pv)) : obj := set_sow (construct sc c kw).

(* Cls._from_dict_init(mapping) *)
Fixpoint from_dict_init (sc : schema) (c : nat) (j : json) {struct j} : result (list (nat * pv)) :=
  match j with
  | JObj kvs =>
      do items <-
        (fix go (kvs : list (json * json)) : result (list (nat * pv)) :=
           match kvs with
           | [] => Ok []
           | (k, v) :: r =>
               do here <- item_from_json (fun c' j' => do kw <- from_dict_init sc c' j'; Ok (finish_cls sc c' kw))
                                         sc (cfields (get_class sc c)) k v;
               do rest <- go r;
               Ok (here ++ rest)
           end) kvs;
      Ok (kw_norm items)
  | _ => Err EAttribute
  end.

(* Cls.from_dict(value) *)
Definition from_dict_cls (sc : schema) (c : nat) (j : json) : result obj :=
  do kw <- from_dict_init sc c j; Ok (finish_cls sc c kw).

(* obj.from_dict(value): the flag first, then one setattr per keyword *)
Definition from_dict_inst (sc : schema) (o : obj) (j : json) : result obj :=
  do kw <- from_dict_init sc (ocls o) j;
  Ok (fold_left (fun o' iv => setattr sc o' (fst iv) (snd iv)) kw (set_sow o)).

(* ====================================================================================== *)
(* the text path                                                                          *)
(* ====================================================================================== *)
(* json.dumps accepts str, int, float, bool, None as keys; float keys are outside the model *)
Definition key_text (k : json) : list byte :=
  match k with
  | JStr s => s
  | JInt z => str_of_Z z
  | JBool b => if b then s_true else s_false
  | JNull => s_null
  | _ => []
  end.

Fixpoint dumpsable (j : json) : bool :=
  match j with
  | JPy _ => false
  | JList l => forallb dumpsable l
  | JObj d =>
      forallb (fun kx => let '(k, x) := kx in
                         match k with JStr _ | JInt _ | JBool _ | JNull => dumpsable x | _ => false end) d
  | _ => true
  end.

(* json.loads(json.dumps(j)) *)
Fixpoint text_rt (j : json) : json :=
  match j with
  | JFloat b => JFloat (if f64_is_nan b then nan_bits else b)
  | JList l => JList (map text_rt l)
  | JObj d => JObj (map (fun kx => let '(k, x) := kx in (JStr (key_text k), text_rt x)) d)
  | _ => j
  end.

Definition dumps_loads (j : json) : result json := if dumpsable j then Ok (text_rt j) else Err EType.

(* Cls().from_json(m.to_json(casing=cs, include_default_values=incl)): from_json is the INSTANCE form *)
Definition json_rt_inst (cs : casing) (incl : bool) (sc : schema) (m fresh : obj) : result obj :=
  do j <- dumps_loads (to_dict cs incl sc m); from_dict_inst sc fresh j.
Definition json_rt_cls (cs : casing) (incl : bool) (sc : schema) (m : obj) : result obj :=
  do j <- dumps_loads (to_dict cs incl sc m); from_dict_cls sc (ocls m) j.

(* ====================================================================================== *)
(* canonical forms for the correspondence                                                 *)
(* ====================================================================================== *)
Fixpoint cv_of_json (j : json) : cv :=
  match j with
  | JNull => CN
  | JBool b => CL [CZ 1; cbool b]
  | JInt z => CZ z
  | JFloat b => CL [CZ 2; CZ (if f64_is_nan b then canon_nan else b)]
  | JStr s => CL [CZ 3; CB s]
  | JList l => CL [CZ 6; CL (map cv_of_json l)]
  | JObj d => CL [CZ 7; CL (map (fun kx => let '(k, x) := kx in CL [cv_of_json k; cv_of_json x]) d)]
  | JPy v => CL [CZ 9; cv_of_pv v]
  end.

Definition cv_json_res (r : result json) : cv := cres_any cv_of_json r.
