(* str(value, "utf-8"): CPython's strict UTF-8 decoder accepts exactly the
   well-formed byte sequences of Unicode Table 3-7 (no overlongs, no surrogates,
   nothing above U+10FFFF). A Python str without lone surrogates is modelled by its
   UTF-8 bytes, so decoding is this validity check and encoding is the identity. *)
From BP Require Import Base.Prelude.

Definition in_rng (lo hi : Z) (b : byte) : bool :=
  let c := Z_of_byte b in (lo <=? c) && (c <=? hi).

Fixpoint utf8_valid (bs : list byte) : bool :=
  match bs with
  | [] => true
  | b0 :: r =>
      let c := Z_of_byte b0 in
      if c <? 128 then utf8_valid r
      else if (194 <=? c) && (c <=? 223) then
        match r with b1 :: r' => in_rng 128 191 b1 && utf8_valid r' | _ => false end
      else if c =? 224 then
        match r with b1 :: b2 :: r' => in_rng 160 191 b1 && in_rng 128 191 b2 && utf8_valid r' | _ => false end
      else if ((225 <=? c) && (c <=? 236)) || (c =? 238) || (c =? 239) then
        match r with b1 :: b2 :: r' => in_rng 128 191 b1 && in_rng 128 191 b2 && utf8_valid r' | _ => false end
      else if c =? 237 then
        match r with b1 :: b2 :: r' => in_rng 128 159 b1 && in_rng 128 191 b2 && utf8_valid r' | _ => false end
      else if c =? 240 then
        match r with b1 :: b2 :: b3 :: r' =>
          in_rng 144 191 b1 && in_rng 128 191 b2 && in_rng 128 191 b3 && utf8_valid r' | _ => false end
      else if (241 <=? c) && (c <=? 243) then
        match r with b1 :: b2 :: b3 :: r' =>
          in_rng 128 191 b1 && in_rng 128 191 b2 && in_rng 128 191 b3 && utf8_valid r' | _ => false end
      else if c =? 244 then
        match r with b1 :: b2 :: b3 :: r' =>
          in_rng 128 143 b1 && in_rng 128 191 b2 && in_rng 128 191 b3 && utf8_valid r' | _ => false end
      else false
  end.
