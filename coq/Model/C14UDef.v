(* C14 / pickle with unknown fields at ANY depth: the decoded form of the encoding of a message whose nested messages
   carry unknown bytes, and the side condition.  [normu_obj] is C01Def.norm_obj except that every message keeps its
   _unknown_fields (Message.parse appends the records it does not know, verbatim: C08); [c14u_value_ok] is
   C01Def.c01_value_ok with "no unknown bytes" replaced by "the unknown bytes are complete records the class keeps
   verbatim" (unk_records_ok: what Message.parse leaves there) at every depth.  No proofs here. *)
From BP Require Import Base.Prelude Model.Types Model.Object Model.Eq Model.Encode Model.Decode Model.WellFormed.
From BP Require Import Model.C01Def Model.C08Step Model.C14Pickle.

Fixpoint normu_obj (sc : schema) (o : obj) {struct o} : obj :=
  let 'Obj c raw _ unk cur := o in
  Obj c
    ((fix go (i : nat) (raw : list pv) (fs : list fdesc) {struct raw} : list pv :=
        match raw, fs with
        | x :: raw', f :: fs' => norm_slot sc (normu_obj sc) f (group_selects cur f i) x :: go (Datatypes.S i) raw' fs'
        | _, _ => []
        end) O raw (cfields (get_class sc c)))
    true unk cur.

Definition c14u_value_ok (sc : schema) (o : obj) : bool :=
  in_range sc o &&
  deep (fun o' => oneof_clean sc o' && cur_ok sc o' && unk_records_ok sc o' && keys_unique sc o') (PMsg o).

(* the hypotheses of C14_pickle_unknown_any_depth in one boolean (evaluated by the check on every generated pickle case) *)
Definition pickle_pre_u (sc : schema) (o : obj) : bool := c01_schema_ok sc && c14u_value_ok sc o && enc_small sc o.
Definition pickle_pre_u_deep (sc : schema) (o : obj) : bool :=
  pickle_pre_u sc o && deep (sow_ok sc) (PMsg o) && deep (flags_ok sc) (PMsg o).
