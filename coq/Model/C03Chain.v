(* C03 chain — the decidable side conditions, on a DESCRIPTOR SET or on the plugin's CLASS TABLE, that stand for the
   schema-level hypotheses of the runtime theorems other than c01_schema_ok (which the bridge already proves):

     keys_ok cs sc      (C04 / C05, Proofs/C04Def.v)  every JSON key to_dict emits addresses its own field again.
                        It looks at the Python field NAMES of a class only ([names_keys_ok]); for a generated schema it is
                        [gen_keys_ok cs field_name D]: the same test on the pythonised field names of every message of a
                        generated package.  It does NOT follow from names_ok: fields_nodup says the Python names of a
                        message are pairwise distinct, keys_ok CAMEL says their camelCase keys are (`a_b` and `a__b` are
                        distinct names with the one key `aB`), and the naming functions are universally quantified in C03.
     masks_ok sc masks  (C08 / C10, Proofs/C08EvoDef.v) the deleted fields leave the bundled and the map-Entry classes alone.
                        For a generated schema: [gen_masks_ok t masks] - the masks of the 11 bundled classes and of the
                        synthetic Entry classes (the indices after the message classes) delete nothing, i.e. ANY subset of
                        the fields of ANY generated message class; [user_masks um] builds such a family from one mask per
                        generated message class.
   No proofs here. *)
From BP Require Import Base.Prelude Model.Types Spec.Descriptor Model.Object Model.WellFormed Model.Json.
From BP Require Import Model.C03Bridge Proofs.C04Def Proofs.C08EvoDef.

(* ---- keys ---- *)
(* a class with the given field names and nothing else of interest *)
Definition names_class (names : list (list byte)) : cdesc :=
  mkC (map (fun n => mkF n 0 TInt32 None None None false (HPlain PyInt) O) names) O.
Definition names_keys_ok (cs : casing) (names : list (list byte)) : bool := class_keys_ok cs (names_class names).

(* on the plugin's output *)
Definition table_keys_ok (cs : casing) (t : class_table) : bool :=
  forallb (fun fs => names_keys_ok cs (map pf_name fs)) (msg_rows (class_rows t)).

(* on the descriptor set: the messages of every generated package (as in bridge_ok: google.protobuf is not generated,
   map-entry types are not classes) *)
Definition gen_keys_ok (cs : casing) (field_name : str -> str) (D : descriptor) : bool :=
  forallb (fun f => str_eqb (fl_package f) google_protobuf
                    || forallb (fun pm => md_map_entry (snd pm)
                                          || names_keys_ok cs (map (fun x => field_name (fd_name x)) (md_fields (snd pm))))
                               (file_msgs f)) D.

(* ---- masks ---- *)
Definition n_msgs (t : class_table) : nat := length (msg_rows (class_rows t)).
Definition n_entries (t : class_table) : nat := length (flat_map map_fields (msg_rows (class_rows t))).

Definition gen_masks_ok (t : class_table) (masks : list (list bool)) : bool :=
  forallb (keeps masks) (seq 0 NB) && forallb (keeps masks) (seq (NB + n_msgs t) (n_entries t)).

(* one mask per generated message class, in the order of the table (shorter: the remaining classes keep every field) *)
Definition user_masks (um : list (list bool)) : list (list bool) := repeat [] NB ++ um.
