(* L1 mirror of the integer parts of _preprocess_single / _postprocess_single
   and of struct.pack / struct.unpack for the four integer formats. *)
From BP Require Import Base.Prelude Model.Types.

(* value << 1 if value >= 0 else (value << 1) ^ (~0) *)
Definition zigzag (v : Z) : Z :=
  if v >=? 0 then Z.shiftl v 1 else Z.lxor (Z.shiftl v 1) (Z.lnot 0).

(* (value >> 1) ^ (-(value & 1)) *)
Definition unzigzag (v : Z) : Z := Z.lxor (Z.shiftr v 1) (- (Z.land v 1)).

(* bits = 32 | 64:
     value = value & ((1 << bits) - 1); signbit = 1 << (bits - 1)
     value = (value ^ signbit) - signbit *)
Definition sign_recover (bits v : Z) : Z :=
  let v := Z.land v (Z.shiftl 1 bits - 1) in
  let signbit := Z.shiftl 1 (bits - 1) in
  Z.lxor v signbit - signbit.

(* value > 0 *)
Definition bool_of_varint (v : Z) : bool := v >? 0.

(* struct: integer formats. (lo, hi, nbytes); out of range is struct.error *)
Definition fmt_int_range (f : fmt) : option (Z * Z * nat) :=
  match f with
  | FmtI => Some (0, 2 ^ 32, 4%nat)
  | Fmti => Some (- 2 ^ 31, 2 ^ 31, 4%nat)
  | FmtQ => Some (0, 2 ^ 64, 8%nat)
  | Fmtq => Some (- 2 ^ 63, 2 ^ 63, 8%nat)
  | FmtD | FmtF => None
  end.

Definition fmt_size (f : fmt) : nat :=
  match f with FmtI | Fmti | FmtF => 4%nat | FmtQ | Fmtq | FmtD => 8%nat end.

Definition pack_int (f : fmt) (v : Z) : result (list byte) :=
  match fmt_int_range f with
  | None => Err EOther
  | Some (lo, hi, n) =>
      if (lo <=? v) && (v <? hi) then Ok (le_bytes n (v mod (hi - lo))) else Err EStruct
  end.

Definition unpack_int (f : fmt) (bs : list byte) : result Z :=
  match fmt_int_range f with
  | None => Err EOther
  | Some (lo, hi, n) =>
      if Nat.eqb (length bs) n then
        let u := le_value bs in
        Ok (if u <? hi then u else u - (hi - lo))
      else Err EStruct
  end.
