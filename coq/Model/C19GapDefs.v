(* C19 gap closing: definitions only (no proofs).  Nothing here changes Model/Casing.v.

   A message class is described by the list of the PROTO names of its fields; the plugin turns each into the
   Python attribute name pythonize_field_name s (= safe_snake_case s).  Two uniqueness rules of protoc are
   written down as decidable predicates on that list:

     legacy_rule_ok   the proto3 rule of protoc <= 21 (descriptor.cc ValidateProto3Message: "field names must be
                      unique after being converted to lowercase with underscores removed")
     json_rule_ok     the rule of protoc >= 22 (CheckFieldJsonNameUniqueness: the default JSON names ToJsonName(name)
                      are pairwise distinct; case-SENSITIVE for two default names) - what libprotoc 35.1 of this
                      sandbox enforces: it accepts  message M { int32 FooBar = 1; int32 foo_bar = 2; }  *)
From BP Require Import Base.Prelude Model.Casing.
From BP Require Spec.JsonMap.

Definition not_us (c : byte) : bool := negb (is_us c).
Definition is_alnum_b (c : byte) : bool := match classify c with Sym => false | _ => true end.

(* ToLowercaseWithoutUnderscores(name) *)
Definition legacy_key (s : list byte) : list byte := lower (filter not_us s).
(* the same with every non-alphanumeric byte removed (equal to legacy_key on strings over A-Z a-z 0-9 _ ) *)
Definition alnum_key (s : list byte) : list byte := lower (filter is_alnum_b s).

(* the Python attribute names of a class whose fields have these proto names *)
Definition fields_of (names : list (list byte)) : list (list byte) := map pythonize_field_name names.

Fixpoint distinct_by (k : list byte -> list byte) (l : list (list byte)) : bool :=
  match l with
  | [] => true
  | x :: r => negb (mem_bytes (k x) (map k r)) && distinct_by k r
  end.

Definition legacy_rule_ok (names : list (list byte)) : bool :=
  forallb proto_ident names && distinct_by legacy_key names.
Definition json_rule_ok (names : list (list byte)) : bool :=
  forallb proto_ident names && distinct_by JsonMap.protoc_json_name names.

(* executable form of "the three keys of the field named s address that field" in the class [names] *)
Definition opt_is (o : option (list byte)) (x : list byte) : bool :=
  match o with Some y => str_eqb y x | None => false end.
Definition keys_back (names : list (list byte)) (s : list byte) : bool :=
  let fs := fields_of names in
  let F := pythonize_field_name s in
  opt_is (field_for_key fs (camel_key F)) F && opt_is (field_for_key fs (snake_key F)) F && opt_is (field_for_key fs s) F.

(* class names of proto identifiers: the first character that is not "_" exists and is a letter *)
Definition first_is_letter (s : list byte) : bool :=
  match lstrip_us s with c :: _ => negb (is_digit_b c) | [] => false end.
Definition class_name_ok_ident (s : list byte) : bool :=
  first_is_letter s && negb (mem_bytes (snake_case s) (map lower capital_keywords)).
