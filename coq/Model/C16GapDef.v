(* C16 gap closing: the per-kind value ranges of the protobuf language guide and the unsigned integer the
   encoding specification puts on the wire for a varint kind.  Specification-side definitions used only in the
   statements of Proofs/C16GapB.v; nothing here mirrors code. *)
From Coq Require Import ZArith.
From BP Require Import Base.Prelude Model.Types Spec.Varint.
Open Scope Z_scope.

(* int32 / int64 / uint32 / uint64 / sint32 / sint64 : [lo, hi) *)
Definition varint_kind_range (t : ptype) : option (Z * Z) :=
  match t with
  | TInt32 | TSInt32 => Some (- 2 ^ 31, 2 ^ 31)
  | TInt64 | TSInt64 => Some (- 2 ^ 63, 2 ^ 63)
  | TUInt32 => Some (0, 2 ^ 32)
  | TUInt64 => Some (0, 2 ^ 64)
  | _ => None
  end.

(* int32 / int64: sign-extended to 64 bits, i.e. the value mod 2^64; sint: zig-zag; uint: the value *)
Definition wire_of (t : ptype) (v : Z) : Z :=
  match t with
  | TSInt32 | TSInt64 => zigzag_spec v
  | _ => v mod 2 ^ 64
  end.
