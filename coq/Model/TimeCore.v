(* datetime / timedelta <-> (seconds, nanos) as Message.dump / Message.load use them.
   datetime = microseconds since the epoch (aware datetimes compare as instants),
   timedelta = microseconds.  Mirrors _Timestamp.from_datetime / to_datetime and
   _Duration.from_timedelta / to_timedelta (integer arithmetic). The full treatment
   (ranges, JSON forms, agreement with the reference) is property C15's model
   (Model/Time.v); this file is what the message codec needs. *)
From BP Require Import Base.Prelude.

(* seconds, us = divmod(offset_us, 10**6); Timestamp(seconds, us * 1000) *)
Definition ts_pair_of_us (us : Z) : Z * Z := (us / 1000000, (us mod 1000000) * 1000).

(* _Duration.from_timedelta: seconds and nanos carry the sign of the span (truncation) *)
Definition dur_pair_of_us (us : Z) : Z * Z := (Z.quot us 1000000, Z.rem us 1000000 * 1000).

(* datetime.min .. datetime.max (UTC) in microseconds since the epoch *)
Definition dt_min_us : Z := -62135596800000000.
Definition dt_max_us : Z := 253402300799999999.
(* timedelta.min .. timedelta.max: |days| <= 999999999 *)
Definition td_min_us : Z := -999999999 * 86400000000.
Definition td_max_us : Z := 1000000000 * 86400000000 - 1.

Definition td_ok (us : Z) : bool := (td_min_us <=? us) && (us <=? td_max_us).

(* timedelta(seconds=s, microseconds=n // 1000); DATETIME_ZERO + offset.  Both steps raise OverflowError out of range. *)
Definition us_of_ts (s n : Z) : result Z :=
  let us := s * 1000000 + n / 1000 in
  if td_ok us && (dt_min_us <=? us) && (us <=? dt_max_us) then Ok us else Err EOverflow.

(* us = abs(nanos) // 1000 with the sign of nanos; timedelta(seconds=self.seconds, microseconds=us) *)
Definition us_of_dur (s n : Z) : result Z :=
  let us := s * 1000000 + Z.quot n 1000 in
  if td_ok us then Ok us else Err EOverflow.
