(* C07: a small record-level reader of the protobuf wire format, written independently of
   betterproto's codec (it is a specification device, not a mirror of any Python function):
   what does a reader that knows NO schema see in a byte string?  A sequence of records, each a
   tag varint (field number * 8 + wire type) followed by a payload delimited by the wire type
   alone:   0 varint | 1 eight bytes | 2 length varint + that many bytes | 5 four bytes.
   Groups (3/4) and the unassigned wire types 6/7 are not read ([records] gives None).
   A varint is read up to and including the first byte below 128, whatever its length, so the
   reader also frames what an out-of-range Python int encodes to.

   [records bs = Some rs]: bs is exactly a sequence of such records, rs their
   (field number, wire type) in order.  Used to state "the encoding contains that member and
   no other member of the group" (C07_observable) and "the last member record wins"
   (C07_parse_last).  harness/wiregen.read_records is the same reader on the Python side. *)
From BP Require Import Base.Prelude.

Fixpoint rd_varint (s : list byte) : option (Z * list byte) :=
  match s with
  | [] => None
  | b :: r =>
      if Z_of_byte b <? 128 then Some (Z_of_byte b, r)
      else match rd_varint r with
           | Some (v, rest) => Some (Z_of_byte b - 128 + 128 * v, rest)
           | None => None
           end
  end.

Definition rd_skip (n : Z) (s : list byte) : option (list byte) :=
  if (0 <=? n) && (n <=? Zlength s) then Some (skipn (Z.to_nat n) s) else None.

(* the stream after the payload of a record of wire type wt *)
Definition rd_payload (wt : Z) (s : list byte) : option (list byte) :=
  if wt =? 0 then match rd_varint s with Some (_, s') => Some s' | None => None end
  else if wt =? 1 then rd_skip 8 s
  else if wt =? 2 then match rd_varint s with Some (n, s') => rd_skip n s' | None => None end
  else if wt =? 5 then rd_skip 4 s
  else None.

Fixpoint rd_records (fuel : nat) (s : list byte) : option (list (Z * Z)) :=
  match fuel with
  | O => None
  | S fuel' =>
      match s with
      | [] => Some []
      | _ =>
          match rd_varint s with
          | None => None
          | Some (tag, s1) =>
              if tag / 8 <? 1 then None
              else match rd_payload (tag mod 8) s1 with
                   | None => None
                   | Some s2 =>
                       match rd_records fuel' s2 with
                       | Some rs => Some ((tag / 8, tag mod 8) :: rs)
                       | None => None
                       end
                   end
          end
      end
  end.

Definition records (s : list byte) : option (list (Z * Z)) := rd_records (S (length s)) s.

(* the field numbers seen *)
Definition numbers (rs : list (Z * Z)) : list Z := map fst rs.
