(* C07 gap closing: the side condition [op_ok] of the *_reachable theorems (Proofs/C07ValP.v, a Prop) as a BOOLEAN function of
   the operation and the class, so that it can be evaluated on a history: an assignment / kwargs entry / dict entry that targets a
   oneof member carries a value (not None, not a list, not a dict); everything else is unrestricted. *)
From Coq Require Import ZArith List Bool.
From BP Require Import Base.Prelude Model.Types Model.Object Model.Encode Model.History Model.C07Ops.
Import ListNotations.

Definition member_valb (v : pv) : bool := match v with PNone | PList _ | PDict _ => false | _ => true end.

Definition is_memberb (sc : schema) (c i : nat) : bool :=
  match nth_error (cfields (get_class sc c)) i with Some f => is_some (fgroup f) | None => false end.

Definition kw_okb (sc : schema) (c : nat) (kw : list (nat * pv)) : bool :=
  forallb (fun iv => negb (is_memberb sc c (fst iv)) || member_valb (snd iv)) kw.

Definition op_okb (sc : schema) (c : nat) (p : op7) : bool :=
  match p with
  | OBase (OSet [] i v) => negb (is_memberb sc c i) || member_valb v
  | OBase _ => true
  | OConstruct kw | OFromDictCls kw | OFromDictInst kw => kw_okb sc c kw
  end.
