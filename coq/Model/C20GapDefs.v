(* C20 gap closing: definitions only (no proofs).  One example schema holding an enum in each of the five positions
   (a copy of the schema of the examples in Properties/C20.v) and one history of public-API operations on it, used by the
   witnesses and non-vacuity examples of Proofs/C20GapB.v.
     enum 0:  ZERO=0 RED=1 ROUGE=1 (alias) NEG=-1 MIN=-2^31 MAX=2^31-1
     class 11: s: E = 1; r: repeated E = 2; m: map<string, E> = 3; oneof g0 { a: E = 4; b: string = 5 }; o: optional E = 6
     class 12: the synthetic Entry class of m *)
From BP Require Import Base.Prelude Model.Types Model.Object Model.History Model.C07Ops.

Definition gap_enum : edesc :=
  mkE [([x5a; x45; x52; x4f], 0); ([x52; x45; x44], 1); ([x52; x4f; x55; x47; x45], 1); ([x4e; x45; x47], -1);
       ([x4d; x49; x4e], -2147483648); ([x4d; x41; x58], 2147483647)].
Definition gap_schema : schema :=
  mkS (builtin_classes ++
       [mkC [mkF [x73] 1 TEnum None None None false (HPlain (PyEnum 0)) 0;
             mkF [x72] 2 TEnum None None None false (HList (PyEnum 0)) 0;
             mkF [x6d] 3 TMap (Some (TString, TEnum)) None None false (HDict PyStr (PyEnum 0)) 12;
             mkF [x61] 4 TEnum None (Some 0%nat) None false (HPlain (PyEnum 0)) 0;
             mkF [x62] 5 TString None (Some 0%nat) None false (HPlain PyStr) 0;
             mkF [x6f] 6 TEnum None None None true (HOptional (PyEnum 0)) 0] 1;
        mkC [mkF [x6b; x65; x79] 1 TString None None None false (HPlain PyStr) 0;
             mkF [x76; x61; x6c; x75; x65] 2 TEnum None None None false (HPlain (PyEnum 0)) 0] 0])
      [gap_enum].

(* Cls(s=-1); m.r = [1, 5, -2^31]; m.m = {"k": 7}; m.a = 2^31-1; read m.o; m.o = 0; copy; bytes; pickle *)
Definition gap_hist : list op7 :=
  [OConstruct [(0%nat, PInt (-1))];
   OBase (OSet [] 1 (PList [PInt 1; PInt 5; PInt (-2147483648)]));
   OBase (OSet [] 2 (PDict [(PStr [x6b], PInt 7)]));
   OBase (OSet [] 3 (PInt 2147483647));
   OBase (OGet [] 5);
   OBase (OSet [] 5 (PInt 0));
   OBase OCopy; OBase OBytes; OBase OPickle].
