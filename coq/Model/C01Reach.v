(* C01 over REACHABLE objects: decidable conditions on the operations of a history (Model/History.v [op],
   Model/C07Ops.v [op7]) under which the side conditions of the round-trip theorem ([c01_value_ok], [sow_ok],
   Model/C01Def.v) are invariants of the state.  No code is modelled here: these are predicates over the
   existing operation model.

   [val_ok sc f v]      the value handed to the constructor / __setattr__ / from_dict for field f is a value of
                        the field's type, in range (exactly what [in_range] asks of the raw attribute it becomes:
                        ints in the declared range, valid UTF-8, float32-representable, datetimes / timedeltas in
                        range, a sub-message of the declared class that is itself in range; None only for an
                        Optional field; never PLACEHOLDER), every message inside it is itself clean (oneof
                        discipline, _group_current names members of its own group, no unknown bytes, dict keys
                        distinct), and a dict value has distinct keys.
   [kw_groups_ok]       the keyword arguments of a constructor call name at most one member of each oneof group
                        (the dataclass __init__ assigns before _group_current exists, so NO sibling is reset: with two
                        members both raw values stay and the hidden one breaks == after the round trip, see
                        C01_constructor_two_members_refuted).
   [flag_ok sc f v]     a sub-message handed in with its _serialized_on_wire flag DOWN is an all-default message
                        going into a plain field outside every oneof group (the exception Properties/C01.v names:
                        Cls(member=Sub()) / Cls(opt=Sub()) with an all-default Sub() has the flag down and comes
                        back with it up).
   [set_flags_ok]       in a nested assignment m.a.b.….x = v every holder strictly between m and the object that
                        is assigned to has its flag up (holders are NOT notified of an assignment below them: a
                        lazily created intermediate keeps its flag down - known finding K12).

   A history is judged by running it: [hist_ok okp sc o ops] evaluates [okp sc o p] on the state each operation
   starts from.  For everything except parse the predicates look at the operation and at the class of the object
   only (nested assignments: at the objects on the path; pickle: bytes(m) is shorter than 2^64 bytes, the size
   hypothesis of C01_roundtrip itself).  m.parse(bytes) on an existing object is NOT discharged: for it the predicate
   is the check of the resulting state itself ([post_value_ok] / [post_sow_ok]) - arbitrary bytes can carry unknown
   fields and out-of-range numbers (a 10-byte varint in a uint32 field), which [c01_value_ok] excludes, and parse
   into a non-fresh object merges. *)
From BP Require Import Base.Prelude Model.Types Model.Object Model.Eq Model.Encode Model.Decode Model.WellFormed.
From BP Require Import Model.History Model.C07Ops Model.C01Def.

(* the four clauses c01_value_ok asks of every message nested anywhere in the value *)
Definition clean_ok (sc : schema) (o : obj) : bool :=
  oneof_clean sc o && cur_ok sc o && no_unknown o && keys_unique sc o.

(* what [in_range] asks of one raw attribute (the body of the loop of WellFormed.elem_in_range, given a name) *)
Definition field_in_range (sc : schema) (f : fdesc) (x : pv) : bool :=
  match x with
  | PPlaceholder => true
  | PNone => match fhint f with HOptional _ => true | _ => false end
  | _ =>
      match fhint f with
      | HPlain p' => elem_in_range sc (fty f) p' x
      | HOptional p' => elem_in_range sc (match fwraps f with Some w => w | None => fty f end) p' x
      | HList p' =>
          match x with
          | PList l => (fix all (l : list pv) : bool :=
                          match l with [] => true | y :: l' => elem_in_range sc (fty f) p' y && all l' end) l
          | _ => false
          end
      | HDict pk pv' =>
          match x, fmap f with
          | PDict d, Some (kt, vt) =>
              (fix all (d : list (pv * pv)) : bool :=
                 match d with
                 | [] => true
                 | (k, y) :: d' => scalar_in_range kt k && elem_in_range sc vt pv' y && all d'
                 end) d
          | _, _ => false
          end
      end
  end.

Definition dict_keys_ok (sc : schema) (v : pv) : bool :=
  match v with PDict d => keys_nodup sc d | _ => true end.

(* a raw attribute as c01_value_ok wants it *)
Definition slot_ok (sc : schema) (f : fdesc) (x : pv) : bool :=
  field_in_range sc f x && deep (clean_ok sc) x && dict_keys_ok sc x.

(* a value handed in from outside: the same, and not the PLACEHOLDER sentinel *)
Definition val_ok (sc : schema) (f : fdesc) (v : pv) : bool :=
  match v with PPlaceholder => false | _ => true end && slot_ok sc f v.

Definition field_of (sc : schema) (c i : nat) : option fdesc := nth_error (cfields (get_class sc c)) i.

(* every keyword argument / dict item is a value of its field (an index that names no field is ignored by the model) *)
Definition kw_vals_ok (sc : schema) (c : nat) (kw : list (nat * pv)) : bool :=
  forallb (fun iv => match field_of sc c (fst iv) with Some f => val_ok sc f (snd iv) | None => true end) kw.

Definition same_group (sc : schema) (c i j : nat) : bool :=
  match field_of sc c i, field_of sc c j with
  | Some f, Some f' => match fgroup f with Some g => opt_nat_eqb (fgroup f') (Some g) | None => false end
  | _, _ => false
  end.

Fixpoint kw_groups_ok (sc : schema) (c : nat) (kw : list (nat * pv)) : bool :=
  match kw with
  | [] => true
  | iv :: r => forallb (fun jv => Nat.eqb (fst iv) (fst jv) || negb (same_group sc c (fst iv) (fst jv))) r &&
               kw_groups_ok sc c r
  end.

(* m.<path>.<i> = v, following the very reads set_in performs *)
Fixpoint set_ok (sc : schema) (o : obj) (path : list nat) (i : nat) (v : pv) {struct path} : bool :=
  match path with
  | [] => match field_of sc (ocls o) i with Some f => val_ok sc f v | None => true end
  | j :: path' =>
      match getattr sc o j with
      | (_, Ok (PMsg child)) => set_ok sc child path' i v
      | _ => true                                   (* the assignment raises: no new state *)
      end
  end.

Definition post_value_ok (sc : schema) (o : obj) (p : op7) : bool :=
  match step7 sc o p with Ok (o', _) => c01_value_ok sc o' | Err _ => true end.

(* pickle.loads(pickle.dumps(m)) goes through the wire: bytes(m) must be shorter than 2^64 bytes *)
Definition pickle_small (sc : schema) (o : obj) : bool :=
  match enc_obj sc o with Ok bs => Zlength bs <? 2 ^ 64 | Err _ => true end.

(* ---- (1) the condition under which c01_value_ok is an invariant ---- *)
Definition op_value_ok (sc : schema) (o : obj) (p : op7) : bool :=
  match p with
  | OBase (OSet path i v) => set_ok sc o path i v
  | OBase (OParse _) => post_value_ok sc o p                        (* not discharged: checked on the result *)
  | OBase OPickle => pickle_small sc o
  | OBase _ => true                                                 (* reads, copies, observers: unrestricted *)
  | OConstruct kw | OFromDictCls kw => kw_vals_ok sc (ocls o) kw && kw_groups_ok sc (ocls o) kw
  | OFromDictInst kw => kw_vals_ok sc (ocls o) kw
  end.

(* ---- (2) the additional condition under which sow_ok is an invariant ---- *)
Definition stored (sc : schema) (v : pv) : pv := if fieldless sc v then mark_sow v else v.

Definition flag_ok (sc : schema) (f : fdesc) (v : pv) : bool :=
  match stored sc v, fhint f with
  | PMsg o', (HPlain _ | HOptional _) =>
      osow o' || (is_default sc f (stored sc v) && negb (fopt f) && negb (is_some (fgroup f)))
  | _, _ => true
  end.

Definition kw_flags_ok (sc : schema) (c : nat) (kw : list (nat * pv)) : bool :=
  forallb (fun iv => match field_of sc c (fst iv) with Some f => flag_ok sc f (snd iv) | None => true end) kw.

Fixpoint set_flags_ok (sc : schema) (o : obj) (path : list nat) (i : nat) (v : pv) {struct path} : bool :=
  match path with
  | [] => match field_of sc (ocls o) i with Some f => flag_ok sc f v | None => false end   (* the attribute is a field *)
  | j :: path' =>
      match getattr sc o j with
      | (_, Ok (PMsg child)) =>
          (match path' with [] => true | _ => osow child end) && set_flags_ok sc child path' i v
      | _ => true
      end
  end.

Definition post_sow_ok (sc : schema) (o : obj) (p : op7) : bool :=
  match step7 sc o p with Ok (o', _) => sow_ok sc o' | Err _ => true end.

Definition op_sow_ok (sc : schema) (o : obj) (p : op7) : bool :=
  match p with
  | OBase (OSet path i v) => set_flags_ok sc o path i v
  | OBase (OParse _) => post_sow_ok sc o p
  | OBase _ => true
  | OConstruct kw | OFromDictCls kw | OFromDictInst kw => kw_flags_ok sc (ocls o) kw
  end.

Definition op_reach_ok (sc : schema) (o : obj) (p : op7) : bool := op_value_ok sc o p && op_sow_ok sc o p.

(* ---- a history, judged along its run ---- *)
Fixpoint hist_ok (okp : schema -> obj -> op7 -> bool) (sc : schema) (o : obj) (ops : list op7) {struct ops} : bool :=
  match ops with
  | [] => true
  | p :: r =>
      okp sc o p &&
      match step7 sc o p with
      | Ok (o', _) => hist_ok okp sc o' r
      | Err _ => true
      end
  end.

(* no parse in the history: then the conditions above never look at a result state *)
Definition op_static (p : op7) : bool :=
  match p with OBase (OParse _) => false | _ => true end.
