(* C14 aliasing: what the correspondence stage of harness/props/c14.py evaluates.  One case = a value tree (the raw state
   of a real message), mutations that may alias objects inside it, one of copy / deepcopy / pickle, mutations through the
   copy.  The answer lists the sharing the heap model predicts (pairs of paths that end at the same cell), the aliasing
   inside the copy, the value of the copy, and the value of the ORIGINAL after the copy was mutated. *)
From BP Require Import Base.Prelude Model.Types Model.Object Model.Eq Model.Encode Model.Decode Model.History Model.Canon.
From BP Require Import Model.C14Heap.
Local Open Scope nat_scope.

Definition cv_key (k : pv) : cv :=
  match k with
  | PInt z => CL [CZ 0; CZ z]
  | PBool b => CL [CZ 1; cbool b]
  | PStr s => CL [CZ 2; CB s]
  | _ => CN
  end.

Definition cv_step (s : pstep) : cv :=
  match s with
  | PField i => CL [CZ 0; CZ (Z.of_nat i)]
  | PItem k => CL [CZ 1; CZ (Z.of_nat k)]
  | PKey key => CL [CZ 2; cv_key key]
  end.

Definition cv_path (p : list pstep) : cv := CL (map cv_step p).
Definition cv_pairs (l : list (list pstep * list pstep)) : cv :=
  CL (map (fun pq => CL [cv_path (fst pq); cv_path (snd pq)]) l).

Definition cv_abs (o : option pv) : cv :=
  match o with Some v => cv_of_pv v | None => CN end.

(* kind: 0 copy, 1 deepcopy, 2 pickle, 3 pickle of an original with aliasing inside *)
Definition alias_case (sc : schema) (o : obj) (pre : list mut) (kind : nat) (post : list mut) : cv :=
  let '(h0, r0) := alloc_tree [] o in
  let h1 := h_muts sc h0 r0 pre in
  let n1 := S (length h1) in
  let res := match kind with
             | O => h_copy sc h1 r0
             | S O => h_deepcopy sc n1 h1 r0
             | _ => h_pickle_rt sc n1 h1 r0
             end in
  match res with
  | None => CE EOther
  | Some (h2, r2) =>
      let n2 := S (length h2) in
      let h3 := h_muts sc h2 r2 post in
      let n3 := S (length h3) in
      CL [cv_abs (abs n1 h1 r0);                 (* the original when the copy is taken *)
          cv_pairs (shared n2 h2 r0 r2);         (* objects the original and the copy have in common *)
          cv_pairs (shared_within n2 h2 r2);     (* aliasing inside the copy *)
          cv_abs (abs n2 h2 r2);                 (* the copy *)
          (* the original after the copy was mutated; pickling ran bytes(m) on it, whose lazy write-back (Model/History.v
             touch, the subject of the observer theorems) the heap model does not perform: compared up to it *)
          cv_abs (match kind with
                  | O | S O => abs n3 h3 r0
                  | S (S O) => match abs n3 h3 r0 with Some v => Some (touch_pv sc v) | None => None end
                  | _ => None     (* an original with aliasing inside: the tree-level touch does not apply; not compared *)
                  end);
          cv_abs (abs n3 h3 r2)]                 (* the copy after it was mutated *)
  end.
