(* C17: "every field holds a value of its declared Python type" as a decidable predicate on
   object states, and the range facts that make a decoded message encodable again.

   [typed_val strict sc t p v]: [v] is a value of Python type [p] (the resolved type hint)
   for a field of proto type [t].  With [strict = false] this is typing only:
     int kinds / enums hold PInt, bool PBool, float PFloat, str PStr with VALID UTF-8, bytes PBytes,
     datetime PDatetime, timedelta PTimedelta, message fields PMsg of the declared class whose
     own raw attributes are typed recursively, whose raw list has one entry per field and whose
     _group_current is consistent.
   With [strict = true] it adds exactly what the decoder guarantees about the numbers it produces
   (this is the invariant that makes bytes(result) succeed):
     int32 / enum / sfixed32 in [-2^31, 2^31), int64 / sfixed64 in [-2^63, 2^63),
     fixed32 in [0, 2^32), fixed64 in [0, 2^64),
     uint32 / uint64 in [0, 2^70)  (a 10-byte varint carries 70 payload bits and the decoder does not mask:
                                    the field holds what load_varint returned),
     sint32 / sint64 in [-2^69, 2^69) (zig-zag undone on such a value),
     double patterns in [0, 2^64), float32 fields hold a value struct.pack("<f") accepts,
     datetimes inside datetime.min..max, timedeltas inside timedelta.min..max.
   No proofs here. *)
From BP Require Import Base.Prelude Model.Types Model.Float Model.Utf8 Model.Object Model.TimeCore.
From BP Require Import Model.WellFormed.
From BP Require Import gen.Tables.

(* f bound outside the fix, so that functions recursive over the nested type [pv] can be passed *)
Definition forallb2 {A B} (f : A -> B -> bool) : list A -> list B -> bool :=
  fix go (l1 : list A) (l2 : list B) : bool :=
    match l1, l2 with
    | [], [] => true
    | x :: l1', y :: l2' => f x y && go l1' l2'
    | _, _ => false
    end.

Definition int_range (t : ptype) : Z * Z :=
  match t with
  | TInt32 | TEnum | TSFixed32 => (- 2 ^ 31, 2 ^ 31)
  | TInt64 | TSFixed64 => (- 2 ^ 63, 2 ^ 63)
  | TFixed32 => (0, 2 ^ 32)
  | TFixed64 => (0, 2 ^ 64)
  | TUInt32 | TUInt64 => (0, 2 ^ 70)
  | TSInt32 | TSInt64 => (- 2 ^ 69, 2 ^ 69)
  | _ => (0, 0)
  end.

Definition int_ok (strict : bool) (t : ptype) (z : Z) : bool :=
  negb strict || (let '(lo, hi) := int_range t in (lo <=? z) && (z <? hi)).

Definition float_ok (strict : bool) (t : ptype) (b : Z) : bool :=
  negb strict ||
  (if ptype_eqb t TFloat then match d2f b with Some _ => true | None => false end
   else (0 <=? b) && (b <? 2 ^ 64)).

Definition datetime_ok (strict : bool) (us : Z) : bool :=
  negb strict || ((dt_min_us <=? us) && (us <=? dt_max_us)).
Definition timedelta_ok (strict : bool) (us : Z) : bool := negb strict || td_ok us.

(* _group_current: one entry per oneof group; a selection names a field of that very group *)
Definition cur_ok (cd : cdesc) (cur : list (option nat)) : bool :=
  Nat.eqb (length cur) (cngroups cd) &&
  forallb2 (fun (g : nat) (sel : option nat) =>
              match sel with
              | None => true
              | Some i => match nth_error (cfields cd) i with
                          | Some f => opt_nat_eqb (fgroup f) (Some g)
                          | None => false
                          end
              end) (seq 0 (length cur)) cur.

(* the element proto type of an Optional field: the wrapped scalar for a wrapper field *)
Definition opt_elem_type (f : fdesc) : ptype :=
  match fwraps f with
  | Some w => match wrapper_value_type w with Some vt => vt | None => w end
  | None => fty f
  end.

Section Typed.
  Variable strict : bool.
  Variable sc : schema.

  Fixpoint typed_val (t : ptype) (p : pyty) (v : pv) {struct v} : bool :=
    match p, v with
    | (PyInt | PyEnum _), PInt z => int_ok strict t z
    | PyBool, PBool _ => true
    | PyFloat, PFloat b => float_ok strict t b
    | PyStr, PStr s => utf8_valid s
    | PyBytes, PBytes _ => true
    | PyDatetime, PDatetime us => datetime_ok strict us
    | PyTimedelta, PTimedelta us => timedelta_ok strict us
    | PyMsg c, PMsg (Obj c' raw _ _ cur) =>
        Nat.eqb c c' && cur_ok (get_class sc c') cur &&
        forallb2 (fun (x : pv) (f : fdesc) =>
                    match x with
                    | PPlaceholder => true
                    | PNone => match fhint f with HOptional _ => true | _ => false end
                    | _ =>
                        match fhint f with
                        | HPlain p' => typed_val (fty f) p' x
                        | HOptional p' => typed_val (opt_elem_type f) p' x
                        | HList p' =>
                            match x with
                            | PList l => forallb (typed_val (fty f) p') l
                            | _ => false
                            end
                        | HDict pk pv' =>
                            match x, fmap f with
                            | PDict d, Some (kt, vt) =>
                                forallb (fun kv : pv * pv =>
                                           let (k, y) := kv in typed_val kt pk k && typed_val vt pv' y) d
                            | _, _ => false
                            end
                        end
                    end) raw (cfields (get_class sc c'))
    | _, _ => false
    end.

  (* one raw attribute against its field *)
  Definition typed_attr (x : pv) (f : fdesc) : bool :=
    match x with
    | PPlaceholder => true
    | PNone => match fhint f with HOptional _ => true | _ => false end
    | _ =>
        match fhint f with
        | HPlain p' => typed_val (fty f) p' x
        | HOptional p' => typed_val (opt_elem_type f) p' x
        | HList p' => match x with PList l => forallb (typed_val (fty f) p') l | _ => false end
        | HDict pk pv' =>
            match x, fmap f with
            | PDict d, Some (kt, vt) =>
                forallb (fun kv : pv * pv => let (k, y) := kv in typed_val kt pk k && typed_val vt pv' y) d
            | _, _ => false
            end
        end
    end.

  Definition typed_obj (o : obj) : bool :=
    let 'Obj c raw _ _ cur := o in
    cur_ok (get_class sc c) cur && forallb2 typed_attr raw (cfields (get_class sc c)).
End Typed.

(* the statement of the property: every raw attribute is PLACEHOLDER, None (Optional hints only) or a
   value of the declared Python type, recursively; _group_current consistent *)
Definition well_typed (sc : schema) (o : obj) : bool := typed_obj false sc o.

(* ... and additionally within the ranges the decoder produces, which is what encoding needs *)
Definition decoded_range (sc : schema) (o : obj) : bool := typed_obj true sc o.

(* Two side conditions on the schema beyond wf_schema, both true of every class table the
   runtime can build (and of every schema harness/msggen.py prints):
   - the class table starts with the bundled classes exactly as betterproto defines them
     (wf_schema pins only their numbers and proto types; a Timestamp whose `seconds` were declared
     List[int] is not a schema of this library);
   - the synthetic Entry class of a map field annotates key and value with the same Python types
     as the Dict[...] hint of the field (wf_schema pins their proto types only; for enum and message
     values the proto type does not determine the Python class). *)
Definition has_builtins (sc : schema) : Prop := exists user, classes sc = builtin_classes ++ user.

Definition pyty_eqb (a b : pyty) : bool :=
  match a, b with
  | PyInt, PyInt | PyFloat, PyFloat | PyBool, PyBool | PyStr, PyStr | PyBytes, PyBytes
  | PyDatetime, PyDatetime | PyTimedelta, PyTimedelta => true
  | PyEnum x, PyEnum y => Nat.eqb x y
  | PyMsg x, PyMsg y => Nat.eqb x y
  | _, _ => false
  end.

Definition entry_hints_agree (sc : schema) (f : fdesc) : bool :=
  match fhint f with
  | HDict k v =>
      match cfields (get_class sc (fentry f)) with
      | [fk; fv] =>
          match fhint fk, fhint fv with
          | HPlain k', HPlain v' => pyty_eqb k' k && pyty_eqb v' v
          | _, _ => false
          end
      | _ => false
      end
  | _ => true
  end.

Definition entries_agree (sc : schema) : bool :=
  forallb (fun cd => forallb (entry_hints_agree sc) (cfields cd)) (classes sc).

(* struct.pack("<f", struct.unpack("<f", w)) never overflows: the one fact about the float32
   conversions that re-encodability of a decoded float field rests on (checked as a boolean on a
   given list of patterns; Proofs/C17FloatP.v proves it for all 2^32 patterns) *)
Definition f32_reencodable (w : Z) : bool :=
  match d2f (f2d w) with Some _ => true | None => false end.
