(* C18 behavioural part: the example schema of the non-vacuity Examples and of the refutation witnesses
   (definitions only).  In proto terms (the file the witnesses were replayed with against the real plugin):
     message Leaf  { int32 v = 1; }
     message Inner { oneof pick { int32 a = 1; string b = 2; Leaf m = 3; } }
     message Mid   { Inner n = 1; }
     message Outer { oneof g { int32 x = 1; string y = 2; } optional int32 o = 3; map<string,int32> p = 4;
                     Mid q = 5; Inner r = 6; repeated Inner s = 7; }
   class indices: 11 Leaf, 12 Inner, 13 Mid, 14 Outer, 15 the Entry class of Outer.p (0..10 are the bundled classes). *)
From BP Require Import Base.Prelude Model.Types Model.Object Model.History Model.C07Ops Model.C18Beh.

Definition nm (b : byte) : list byte := [b].
Definition ex_Leaf := mkC [mkF (nm x76) 1 TInt32 None None None false (HPlain PyInt) 0] 0.
Definition ex_Inner := mkC [mkF (nm x61) 1 TInt32 None (Some 0%nat) None false (HPlain PyInt) 0;
                            mkF (nm x62) 2 TString None (Some 0%nat) None false (HPlain PyStr) 0;
                            mkF (nm x6d) 3 TMessage None (Some 0%nat) None false (HPlain (PyMsg 11)) 0] 1.
Definition ex_Mid := mkC [mkF (nm x6e) 1 TMessage None None None false (HPlain (PyMsg 12)) 0] 0.
Definition ex_Outer := mkC [mkF (nm x78) 1 TInt32 None (Some 0%nat) None false (HPlain PyInt) 0;
                            mkF (nm x79) 2 TString None (Some 0%nat) None false (HPlain PyStr) 0;
                            mkF (nm x6f) 3 TInt32 None None None true (HOptional PyInt) 0;
                            mkF (nm x70) 4 TMap (Some (TString, TInt32)) None None false (HDict PyStr PyInt) 15;
                            mkF (nm x71) 5 TMessage None None None false (HPlain (PyMsg 13)) 0;
                            mkF (nm x72) 6 TMessage None None None false (HPlain (PyMsg 12)) 0;
                            mkF (nm x73) 7 TMessage None None None false (HList (PyMsg 12)) 0] 1.
Definition ex_Entry := mkC [mkF [x6b; x65; x79] 1 TString None None None false (HPlain PyStr) 0;
                            mkF value_name 2 TInt32 None None None false (HPlain PyInt) 0] 0.
Definition ex18 : schema := mkS (builtin_classes ++ [ex_Leaf; ex_Inner; ex_Mid; ex_Outer; ex_Entry]) [].

(* Inner(a=0): member a selected at its zero value *)
Definition ex_inner_a0 : obj := Obj 12 [PInt 0; PPlaceholder; PPlaceholder] true [] [Some 0%nat].
(* Outer(x=0, o=5, p={"k": 7}, q=Mid(n=Inner(a=0)), r=Inner(a=0), s=[Inner(a=0)]) *)
Definition ex_outer : obj :=
  Obj 14 [PInt 0; PPlaceholder; PInt 5; PDict [(PStr [x6b], PInt 7)]; PMsg (Obj 13 [PMsg ex_inner_a0] true [] []);
          PMsg ex_inner_a0; PList [PMsg ex_inner_a0]] true [] [Some 0%nat].
(* the same value as a pydantic dataclass built by the constructor holds it *)
Definition ex_inner_a0_pyd : obj := Obj 12 [PInt 0; PNone; PNone] true [] [Some 0%nat].
Definition ex_outer_pyd : obj :=
  Obj 14 [PInt 0; PNone; PInt 5; PDict [(PStr [x6b], PInt 7)]; PMsg (Obj 13 [PMsg ex_inner_a0_pyd] true [] []);
          PMsg ex_inner_a0_pyd; PList [PMsg ex_inner_a0_pyd]] true [] [Some 0%nat].

(* witness 1:  o = Outer(); o.q.n.a = 0   (Mid is materialised by the read, its flag stays down) *)
Definition ex_ops_nested : list op7 := [OBase (OSet [4%nat; 0%nat] 0 (PInt 0))].
(* witness 2:  i = Inner(); i.a = PLACEHOLDER *)
Definition ex_ops_ph : list op7 := [OBase (OSet [] 0 PPlaceholder)].

(* (1) FieldMetadata alone does not determine the class: `int32 v = 1` and `repeated int32 v = 1` carry the same
   FieldMetadata; only the annotation (int / List[int]) tells them apart *)
Definition ex_one := mkS (builtin_classes ++ [mkC [mkF (nm x76) 1 TInt32 None None None false (HPlain PyInt) 0] 0]) [].
Definition ex_rep := mkS (builtin_classes ++ [mkC [mkF (nm x76) 1 TInt32 None None None false (HList PyInt) 0] 0]) [].
