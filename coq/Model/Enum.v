(* L1 mirror of src/betterproto/enum.py (EnumType / Enum) and of the enum paths of
   src/betterproto/__init__.py (_preprocess_single / _postprocess_single for TYPE_ENUM,
   the packed loop of Message.load, the enum default generator, the enum element
   conversion of to_dict / _from_dict_init).  No proofs here (Proofs/EnumP.v).

   A class body is a list of assignments  NAME = number  in source order.  Executing it
   gives the namespace dict (Python dict semantics: re-assigning a name keeps its first
   position and takes the last value).  EnumType.__new__ then walks the namespace.

   A member object is the pair (name, number): Enum.__new__(cls, name=, value=) makes an
   int with two attributes.  The objects stored in the class tables are the canonical
   members; [in_table] is the model of "is the very object stored in _value_map_". *)
From BP Require Import Base.Prelude Model.Varint Model.Scalar.

Definition name := list byte.
Definition defn := list (name * Z).
Definition member := (option name * Z)%type.

(* ---- insertion-ordered dicts (Python dict semantics) ---- *)
Fixpoint zget {V} (k : Z) (d : list (Z * V)) : option V :=
  match d with
  | [] => None
  | (k', v) :: r => if k =? k' then Some v else zget k r
  end.

Fixpoint zset {V} (k : Z) (v : V) (d : list (Z * V)) : list (Z * V) :=
  match d with
  | [] => [(k, v)]
  | (k', v') :: r => if k =? k' then (k', v) :: r else (k', v') :: zset k v r
  end.

Fixpoint nget {V} (k : name) (d : list (name * V)) : option V :=
  match d with
  | [] => None
  | (k', v) :: r => if bytes_eqb k k' then Some v else nget k r
  end.

Fixpoint nset {V} (k : name) (v : V) (d : list (name * V)) : list (name * V) :=
  match d with
  | [] => [(k, v)]
  | (k', v') :: r => if bytes_eqb k k' then (k', v) :: r else (k', v') :: nset k v r
  end.

Definition nmem {V} (k : name) (d : list (name * V)) : bool :=
  match nget k d with Some _ => true | None => false end.

(* ---- the class body: namespace, then the members EnumType.__new__ selects ----
     members = {name: value for name, value in namespace.items()
                if not _is_descriptor(value) and not name.startswith("__")}
   (numbers are never descriptors) *)
Definition ns_of (assigns : defn) : defn :=
  fold_left (fun d nv => nset (fst nv) (snd nv) d) assigns [].

Definition starts_dunder (n : name) : bool :=
  match n with
  | a :: b :: _ => Byte.eqb a x5f && Byte.eqb b x5f
  | _ => false
  end.

Definition members_of (assigns : defn) : defn :=
  filter (fun nv => negb (starts_dunder (fst nv))) (ns_of assigns).

(* ---- class state: _value_map_ and _member_map_ ---- *)
Record ecls := mkcls { vmap : list (Z * member); mmap : list (name * member) }.

Definition empty_cls : ecls := mkcls [] [].

(* Enum.__new__(cls, *, name, value) *)
Definition enum_new (n : option name) (v : Z) : member := (n, v).

(*   for name, value in members.items():
         member = value_map.get(value)
         if member is None:
             member = cls.__new__(cls, name=name, value=value)
             value_map[value] = member
         member_map[name] = member
         type.__setattr__(new_mcs, name, member)      (same table as member_map) *)
Definition build_step (c : ecls) (nv : name * Z) : ecls :=
  let '(n, v) := nv in
  match zget v (vmap c) with
  | Some m => mkcls (vmap c) (nset n m (mmap c))
  | None => let m := enum_new (Some n) v in
            mkcls (zset v m (vmap c)) (nset n m (mmap c))
  end.

Definition build (ms : defn) : ecls := fold_left build_step ms empty_cls.

Definition class_of (assigns : defn) : ecls := build (members_of assigns).

(* ---- EnumType API ---- *)
(* cls(value): _value_map_[value], KeyError -> ValueError *)
Definition call (c : ecls) (v : Z) : result member :=
  match zget v (vmap c) with Some m => Ok m | None => Err EValue end.

(* cls[name]: _member_map_[name], KeyError propagates *)
Definition getitem (c : ecls) (n : name) : result member :=
  match nget n (mmap c) with Some m => Ok m | None => Err EKey end.

(* cls.NAME for a member name: attribute of the per-class metaclass; AttributeError otherwise *)
Definition getattr_cls (c : ecls) (n : name) : result member :=
  match nget n (mmap c) with Some m => Ok m | None => Err EAttribute end.

(* Enum.from_string: KeyError -> ValueError *)
Definition from_string (c : ecls) (n : name) : result member :=
  match nget n (mmap c) with Some m => Ok m | None => Err EValue end.

(* Enum.try_value: the table member, or a fresh nameless instance *)
Definition try_value (c : ecls) (v : Z) : member :=
  match zget v (vmap c) with Some m => m | None => enum_new None v end.

(* the enum default generator is [t.try_value], called without arguments: value = 0 *)
Definition enum_default (c : ecls) : member := try_value c 0.

(* __iter__ / __reversed__ / __len__: over _member_map_.values() — aliases are yielded too *)
Definition iter (c : ecls) : list member := map snd (mmap c).
Definition reversed (c : ecls) : list member := rev (map snd (mmap c)).
Definition len (c : ecls) : Z := Zlength (mmap c).

(* __contains__(member): isinstance(member, cls) and member.name in cls._member_map_ *)
Inductive arg :=
| AInt (z : Z)              (* a plain int *)
| AMem (m : member)         (* an instance of this class *)
| AForeign (m : member).    (* an instance of another enum class *)

Definition contains (c : ecls) (a : arg) : bool :=
  match a with
  | AMem (Some n, _) => nmem n (mmap c)
  | AMem (None, _) => false          (* None in dict *)
  | AInt _ | AForeign _ => false
  end.

(* "is the object stored in _value_map_ under its own number" *)
Definition member_eqb (a b : member) : bool :=
  match fst a, fst b with
  | Some x, Some y => bytes_eqb x y && (snd a =? snd b)
  | None, None => snd a =? snd b
  | _, _ => false
  end.

Definition in_table (c : ecls) (m : member) : bool :=
  match zget (snd m) (vmap c) with Some m' => member_eqb m m' | None => false end.

(* int.__eq__ : members are ints *)
Definition eq_int (m : member) (z : Z) : bool := snd m =? z.

(* __str__: self.name or "None";  __repr__: f"{cls.__name__}.{self.name}" *)
Definition s_None : name := [x4e; x6f; x6e; x65].
Definition m_str (m : member) : name :=
  match fst m with
  | Some (b :: r) => b :: r
  | Some [] | None => s_None
  end.
Definition m_repr (cn : name) (m : member) : name :=
  cn ++ [x2e] ++ match fst m with Some n => n | None => s_None end.

(* __copy__ / __deepcopy__ return self; pickling goes through __getnewargs_ex__ =
   ((), {"name": self.name, "value": self.value}) and Enum.__new__ *)
Definition copy (m : member) : member := m.
Definition deepcopy (m : member) : member := m.
Definition getnewargs_ex (m : member) : option name * Z := (fst m, snd m).
Definition pickle_roundtrip (m : member) : member :=
  let '(n, v) := getnewargs_ex m in enum_new n v.

(* the guards: EnumType.__setattr__/__delattr__ and Enum.__setattr__/__delattr__ raise
   unconditionally; the state they would have changed is returned only on success *)
Definition cls_setattr (c : ecls) (n : name) (x : Z) : result ecls := Err EAttribute.
Definition cls_delattr (c : ecls) (n : name) : result ecls := Err EAttribute.
Definition mem_setattr (m : member) (key : name) (x : Z) : result member := Err EAttribute.
Definition mem_delattr (m : member) (key : name) : result member := Err EAttribute.

(* ---- histories: every public operation as a state transition ---- *)
Inductive op :=
| OCall (v : Z) | OGetitem (n : name) | OGetattr (n : name) | OFromString (n : name)
| OTry (v : Z) | ODefault
| OIter | OReversed | OLen | OContains (a : arg)
| OSetattrCls (n : name) (x : Z) | ODelattrCls (n : name)
| OSetattrMem (v : Z) (key : name) (x : Z) | ODelattrMem (v : Z) (key : name)  (* on try_value v *)
| OCopy (v : Z) | ODeepcopy (v : Z) | OPickle (v : Z)
| OStr (v : Z) | ORepr (v : Z) | OEqInt (v z : Z).

Definition cmem (m : member) : cv := CL [copt CB (fst m); CZ (snd m)].
(* with the identity flag *)
Definition cmem_id (c : ecls) (m : member) : cv := CL [copt CB (fst m); CZ (snd m); cbool (in_table c m)].

Definition cstate (c : ecls) : cv :=
  CL [CL (map (fun km => CL [CZ (fst km); cmem (snd km)]) (vmap c));
      CL (map (fun nm => CL [CB (fst nm); cmem (snd nm)]) (mmap c))].

Definition is_mutator (o : op) : bool :=
  match o with
  | OSetattrCls _ _ | ODelattrCls _ | OSetattrMem _ _ _ | ODelattrMem _ _ => true
  | _ => false
  end.

Definition step (cn : name) (c : ecls) (o : op) : ecls * cv :=
  match o with
  | OCall v => (c, cres (cmem_id c) (call c v))
  | OGetitem n => (c, cres (cmem_id c) (getitem c n))
  | OGetattr n => (c, cres (cmem_id c) (getattr_cls c n))
  | OFromString n => (c, cres (cmem_id c) (from_string c n))
  | OTry v => (c, cmem_id c (try_value c v))
  | ODefault => (c, cmem_id c (enum_default c))
  | OIter => (c, CL (map (cmem_id c) (iter c)))
  | OReversed => (c, CL (map (cmem_id c) (reversed c)))
  | OLen => (c, CZ (len c))
  | OContains a => (c, cbool (contains c a))
  | OSetattrCls n x => match cls_setattr c n x with Ok c' => (c', CN) | Err k => (c, CE k) end
  | ODelattrCls n => match cls_delattr c n with Ok c' => (c', CN) | Err k => (c, CE k) end
  | OSetattrMem v key x => (c, cres cmem (mem_setattr (try_value c v) key x))
  | ODelattrMem v key => (c, cres cmem (mem_delattr (try_value c v) key))
  (* copy: the result and "result is the argument" (copy returns self, so always true) *)
  | OCopy v => let m := try_value c v in (c, CL [cmem_id c (copy m); cbool (member_eqb (copy m) m)])
  | ODeepcopy v => let m := try_value c v in (c, CL [cmem_id c (deepcopy m); cbool (member_eqb (deepcopy m) m)])
  | OPickle v => (c, cmem (pickle_roundtrip (try_value c v)))
  | OStr v => (c, CB (m_str (try_value c v)))
  | ORepr v => (c, CB (m_repr cn (try_value c v)))
  | OEqInt v z => (c, cbool (eq_int (try_value c v) z))
  end.

Fixpoint run (cn : name) (c : ecls) (ops : list op) : ecls * list cv :=
  match ops with
  | [] => (c, [])
  | o :: r => let '(c1, out) := step cn c o in
              let '(c2, outs) := run cn c1 r in (c2, out :: outs)
  end.

(* what the correspondence check evaluates: the class built from a body, the outcomes of a
   history on it, and the tables afterwards *)
Definition run_case (cn : name) (assigns : defn) (ops : list op) : cv :=
  let c0 := class_of assigns in
  let '(c1, outs) := run cn c0 ops in
  CL [cstate c0; CL outs; cstate c1].

(* ---- enum scalar path of the binary codec ----
   _preprocess_single(TYPE_ENUM, "", value) = encode_varint(value)  (a member is its number)
   _len_preprocessed_single(TYPE_ENUM, ..)  = size_varint(value) *)
Definition enum_pre (m : member) : result (list byte) := encode_varint (snd m).
Definition enum_len (m : member) : result Z := size_varint (snd m).

(* _postprocess_single(WIRE_VARINT, TYPE_ENUM) on the original snapshot e3745e3 (before fix commit
   bdf150b): try_value(raw varint) *)
Definition enum_post_pinned (c : ecls) (raw : Z) : member := try_value c raw.

(* the current tree (fixes/c20-f3-enum-int32-decode.patch, applied as /repo commit bdf150b):
     value = ((value & 0xFFFFFFFF) ^ 0x80000000) - 0x80000000
     value = cls.try_value(value) *)
Definition enum_post (c : ecls) (raw : Z) : member := try_value c (sign_recover 32 raw).

(* packed repeated field (dump): buf += _preprocess_single(TYPE_ENUM, "", item) per item *)
Fixpoint enum_pack (vs : list Z) : result (list byte) :=
  match vs with
  | [] => Ok []
  | v :: r => do a <- encode_varint v; do b <- enum_pack r; Ok (a ++ b)
  end.

(* packed repeated field (load):
     pos = 0; value = []
     while pos < len(buf):
         decoded, pos = decode_varint(buf, pos)
         value.append(self._postprocess_single(WIRE_VARINT, meta, field_name, decoded))
   every successful decode_varint advances pos, so fuel = len(buf) is never exhausted. *)
Fixpoint enum_unpack_go (post : Z -> member) (fuel : nat) (buf : list byte) (pos : Z)
  : result (list member) :=
  if pos <? Zlength buf then
    match fuel with
    | O => Err EFuel
    | S f => do (raw, pos') <- decode_varint buf pos;
             do r <- enum_unpack_go post f buf pos';
             Ok (post raw :: r)
    end
  else Ok [].

Definition enum_unpack (c : ecls) (buf : list byte) : result (list member) :=
  enum_unpack_go (enum_post c) (length buf) buf 0.
Definition enum_unpack_pinned (c : ecls) (buf : list byte) : result (list member) :=
  enum_unpack_go (enum_post_pinned c) (length buf) buf 0.

(* ---- enum element of the dict / JSON codec ---- *)
Inductive jv := JName (n : name) | JNum (z : Z) | JNull.

(* to_dict on the original snapshot (before fix commit f0e3c24): enum_class(value).name — raises
   ValueError for a number without a name *)
Definition to_json_el_pinned (c : ecls) (v : Z) : result jv :=
  do m <- call c v;
  Ok (match fst m with Some n => JName n | None => JNull end).

(* the current tree (fixes/c20-f8-unnamed-enum-json.patch, applied as /repo commit f0e3c24): _dump_enum,
   used for singular, optional, oneof, repeated elements and (since a49c080) map values:
     name = enum_class.try_value(value).name
     return int(value) if name is None else name *)
Definition to_json_el (c : ecls) (v : Z) : jv :=
  match fst (try_value c v) with Some n => JName n | None => JNum v end.

(* _from_dict_init / _parse_json_value, one element: str -> from_string; int -> try_value (the original
   snapshot passed a singular int through unchanged and called from_string on list elements) *)
Definition from_json_el (c : ecls) (j : jv) : result member :=
  match j with
  | JName n => from_string c n
  | JNum z => Ok (try_value c z)
  | JNull => Err EOther            (* None never reaches this branch: skipped earlier *)
  end.

Definition cjv (j : jv) : cv :=
  match j with JName n => CB n | JNum z => CZ z | JNull => CN end.

(* list forms used by repeated fields: a comprehension, left to right, first failure wins *)
Definition to_json_list (c : ecls) (vs : list Z) : list jv := map (to_json_el c) vs.
Fixpoint from_json_list (c : ecls) (js : list jv) : result (list member) :=
  match js with
  | [] => Ok []
  | j :: r => do m <- from_json_el c j; do ms <- from_json_list c r; Ok (m :: ms)
  end.
