(* C17 gap closing, specification side: WHICH bytes of an input end up in _unknown_fields.
   Written over Model/C17Wire.v's record specification and the schema only (the reader does not occur):

     kept cd nw        a record whose tag has value nw is kept verbatim by class cd: its number is declared by no
                       field (field_by_number = None) or the declared type cannot arrive with its wire type
                       (Message._wire_type_fits false; groups are the case wire type 3).  kept = "known_fit = None".
     unk_of cd bs u    u is the concatenation, in order, of the complete top-level records of bs that cd keeps.
   No proofs here. *)
From BP Require Import Base.Prelude Model.Types Model.Object Model.Decode Model.C17Wire Spec.Varint.

Definition kept (cd : cdesc) (nw : Z) : bool :=
  match field_by_number cd (tag_num nw) with
  | None => true
  | Some (_, f) => negb (wire_type_fits f (tag_wt nw))
  end.

Inductive unk_of (cd : cdesc) : list byte -> list byte -> Prop :=
| UNil : unk_of cd [] []
| UKeep nw tag pl rs u :
    VarintRep nw tag -> wpayload nw pl -> kept cd nw = true -> unk_of cd rs u ->
    unk_of cd (tag ++ pl ++ rs) (tag ++ pl ++ u)
| UDrop nw tag pl rs u :
    VarintRep nw tag -> wpayload nw pl -> kept cd nw = false -> unk_of cd rs u ->
    unk_of cd (tag ++ pl ++ rs) u.
