(* C07: the snapshot of Model/C07Ops.v extended with the keys of m.to_dict(...) according to the dict/JSON model of
   property C04 (Model/Json.v, read-only), so that the histories of the C07 check also tie the JSON clause of the
   theorems (C07_json_observable) to the implementation.  [incl_ok] = the class is not recursive
   (include_default_values=True does not terminate on a recursive message type). *)
From BP Require Import Base.Prelude Model.Types Model.Object Model.History Model.C07Ops Model.Json.

Definition jkeys_cv (j : json) : cv :=
  match j with
  | JObj d => CL (flat_map (fun kv => match fst kv with JStr k => [CB k] | _ => [] end) d)
  | _ => CN
  end.

Definition snapshot_j (incl_ok : bool) (sc : schema) (o : obj) (x : out) : cv :=
  CL [snapshot sc o x;
      jkeys_cv (to_dict CAMEL false sc o);
      jkeys_cv (to_dict SNAKE false sc o);
      if incl_ok then jkeys_cv (to_dict CAMEL true sc o) else CN].

Fixpoint trace7j (incl_ok : bool) (sc : schema) (o : obj) (ops : list op7) : list cv :=
  match ops with
  | [] => []
  | p :: r =>
      match step7 sc o p with
      | Ok (o', x) => snapshot_j incl_ok sc o' x :: trace7j incl_ok sc o' r
      | Err _ => [CE EOther]
      end
  end.
