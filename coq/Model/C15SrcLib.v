(* Semantics of the ADDITIONAL Python vocabulary that harness/gen_c15_src.py maps the bodies of
     datetime_default_gen (and the module constant DATETIME_ZERO),
     _Timestamp.from_datetime / to_datetime / timestamp_to_json,
     _Duration.from_timedelta / to_timedelta / delta_to_json
   onto (the vocabulary of harness/gen_c16_src.py, Model/C16SrcLib.v, is reused unchanged).  Hand-written and small:
   with the translator this is what the "source-translation tie" of C15 trusts.  No proofs here; every definition is
   a plain total function, and each datetime / timedelta operation is the hand-written model's OWN primitive for it
   (Model/Time.v: dt_sub, dt_add, timedelta_new, td_days / td_seconds / td_microseconds, fmt0; Spec/Time.v: dec;
   Model/Json.v: cal_text, days_of_civil), so that the translated functions are composed of the primitives of the model.

   Static types the translator assigns (beyond int = Z, bytes = list byte, bool):
     datetime          -> Model.Time.datetime   DOMAIN ASSUMPTION: the parameter is an AWARE datetime with a fixed UTC
                                                offset: (wall, off) in microseconds.  Naive datetimes are outside
                                                (from_datetime raises TypeError on them, `dt - DATETIME_ZERO`).
     timedelta         -> Z                     total microseconds (CPython's normal form is a function of it)
     naive_s           -> Z                     a NAIVE datetime with microsecond = 0: wall-clock microseconds since
                                                1970-01-01T00:00:00 (only made by .replace(microsecond=0, tzinfo=None))
     str               -> list byte             UTF-8 of the text (every string here is ASCII)
     ifloat            -> Z                     a Python float that is INTEGER-VALUED with magnitude below 2^53, held as
                                                its integer value.  ASSUMPTION (listed in the evidence): every float
                                                operation the translator accepts (int * literal, % literal, // literal,
                                                == int literal, int()) is exact on such values; true here because the
                                                only float made is dt.microsecond * 1e3 with 0 <= microsecond < 10^6.
     msg2              -> Z * Z                 cls(seconds, nanos): the Timestamp / Duration message as its two fields
                                                (positional order seconds, nanos: checked by the translator against the
                                                bundled classes and by the theorem C15_field_layout against gen/Tables.v);
                                                `self` of a plain method is the same pair, self.seconds / self.nanos ints. *)
From BP Require Import Base.Prelude Model.Time Spec.Time.
From BP Require Model.Json.

(* ZeroDivisionError is none of the classes errkind distinguishes *)
Definition EZeroDivision : errkind := EOther.

(* ---------- int ---------- *)
(* abs(x) *)
Definition py_abs (x : Z) : Z := Z.abs x.
(* divmod(a, b), b a NON-ZERO constant expression (checked by the translator): floor quotient and remainder *)
Definition py_divmod (a b : Z) : Z * Z := (a / b, a mod b).

(* ---------- timedelta ---------- *)
(* timedelta(seconds=s, microseconds=u) with int arguments (an omitted one is 0): OverflowError beyond 999999999 days *)
Definition py_timedelta_s_us (s u : Z) : result Z := timedelta_new s u.
(* td.days / td.seconds / td.microseconds: CPython's normal form *)
Definition py_td_days (d : Z) : Z := td_days d.
Definition py_td_seconds (d : Z) : Z := td_seconds d.
Definition py_td_microseconds (d : Z) : Z := td_microseconds d.
(* td // td -> int (floor); ZeroDivisionError for a zero divisor *)
Definition py_td_floordiv_td (a b : Z) : result Z := if b =? 0 then Err EZeroDivision else Ok (a / b).

(* ---------- datetime ---------- *)
(* datetime(y, m, d, tzinfo=timezone.utc): ValueError outside year 1..9999 / month 1..12 / the days of the month *)
Definition py_datetime_ymd_utc (y m d : Z) : result datetime :=
  if (1 <=? y) && (y <=? 9999) && (1 <=? m) && (m <=? 12) && (1 <=? d) && (d <=? Model.Json.days_in_month y m)
  then Ok (mkdt (Model.Json.days_of_civil y m d * DAY_US) 0) else Err EValue.
(* aware - aware: by instant *)
Definition py_dt_sub (a b : datetime) : Z := dt_sub a b.
(* datetime + timedelta: same tzinfo; OverflowError outside year 1..9999 *)
Definition py_dt_add (a : datetime) (d : Z) : result datetime := dt_add a d.
(* `dt.tzinfo is not None`: the datetime type of this library is the AWARE datetimes (domain assumption above) *)
Definition py_dt_tzinfo_is_not_none (dt : datetime) : bool := true.
(* dt.astimezone(timezone.utc) on an aware datetime: the same instant with offset 0; OverflowError when the UTC wall clock
   would leave year 1..9999 (e.g. datetime.min carrying a positive offset) *)
Definition py_dt_astimezone_utc (dt : datetime) : result datetime :=
  let w := instant dt in
  if (w <? DT_MIN_US) || (DT_MAX_US <? w) then Err EOverflow else Ok (mkdt w 0).
(* dt.microsecond: of the wall clock *)
Definition py_dt_microsecond (dt : datetime) : Z := wall dt mod 1000000.
(* dt.replace(microsecond=0, tzinfo=None): the naive whole-second wall clock *)
Definition py_dt_replace_us0_naive (dt : datetime) : Z := wall dt - wall dt mod 1000000.
(* isoformat() of a naive datetime with microsecond = 0: "YYYY-MM-DDTHH:MM:SS", the proleptic Gregorian calendar of
   Model/Json.v (civil_of_days; tied to CPython by the checks of C04 / C15 on every sampled datetime) *)
Definition py_isoformat_naive_s (w : Z) : list byte := Model.Json.cal_text (w / 1000000).

(* ---------- integer-valued floats (see ifloat above) ---------- *)
(* int * float literal *)
Definition py_int_mul_float (i f : Z) : Z := i * f.
(* float % positive float literal, float // positive float literal: floor semantics, as for ints *)
Definition py_float_mod (a b : Z) : Z := a mod b.
Definition py_float_floordiv (a b : Z) : Z := a / b.
(* int(float) *)
Definition py_int_of_float (a : Z) : Z := a.
(* format(float, "0kd"): format code 'd' is not defined for floats - ValueError, whatever the value *)
Definition py_format_d_float (k : nat) (a : Z) : result (list byte) := Err EValue.

(* ---------- str ---------- *)
(* str(int) / f"{x}" *)
Definition py_str_of_int (x : Z) : list byte := if x <? 0 then cMINUS :: dec (- x) else dec x.
(* f"{x:0kd}": sign first, then zeros up to a total width of k *)
Definition py_format_0d (k : nat) (x : Z) : list byte := if x <? 0 then cMINUS :: fmt0 (k - 1) (- x) else fmt0 k x.

(* ---------- messages ---------- *)
(* cls(a, b) of _Timestamp / _Duration: seconds = a, nanos = b (no validation happens in the constructor) *)
Definition py_msg2 (a b : Z) : Z * Z := (a, b).
