(* C04, gap closure: the definitions the new theorems are stated with (no proofs here).
   strip_unk m      m without its (top-level) unknown-field bytes: what to_dict can see of m *)
From BP Require Import Base.Prelude Model.Types Model.Object.

Definition strip_unk (o : obj) : obj := let 'Obj c raw sow _ cur := o in Obj c raw sow [] cur.
