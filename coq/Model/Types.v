(* Proto type names and struct formats: the vocabulary of the regenerated
   tables (coq/gen/Tables.v is written by harness/gen_tables.py from the live
   betterproto module on every run; this file is the hand-written alphabet
   those tables are expressed in). *)
From BP Require Import Base.Prelude.

Inductive ptype :=
| TEnum | TBool | TInt32 | TInt64 | TUInt32 | TUInt64 | TSInt32 | TSInt64
| TFloat | TDouble | TFixed32 | TSFixed32 | TFixed64 | TSFixed64
| TString | TBytes | TMessage | TMap.

Definition ptype_tag (t : ptype) : Z :=
  match t with
  | TEnum => 0 | TBool => 1 | TInt32 => 2 | TInt64 => 3 | TUInt32 => 4
  | TUInt64 => 5 | TSInt32 => 6 | TSInt64 => 7 | TFloat => 8 | TDouble => 9
  | TFixed32 => 10 | TSFixed32 => 11 | TFixed64 => 12 | TSFixed64 => 13
  | TString => 14 | TBytes => 15 | TMessage => 16 | TMap => 17
  end.

Definition ptype_eqb (a b : ptype) : bool := Z.eqb (ptype_tag a) (ptype_tag b).

Lemma ptype_eqb_eq a b : ptype_eqb a b = true <-> a = b.
Proof. split; [destruct a, b; cbv; congruence | intros ->; destruct b; reflexivity]. Qed.

(* Python's `t in LIST` *)
Definition tmem (t : ptype) (l : list ptype) : bool := existsb (ptype_eqb t) l.

(* struct format strings that _pack_fmt can return *)
Inductive fmt := FmtD | FmtF | FmtI | Fmti | FmtQ | Fmtq.   (* "<d" "<f" "<I" "<i" "<Q" "<q" *)

Definition all_ptypes : list ptype :=
  [TEnum; TBool; TInt32; TInt64; TUInt32; TUInt64; TSInt32; TSInt64; TFloat; TDouble;
   TFixed32; TSFixed32; TFixed64; TSFixed64; TString; TBytes; TMessage; TMap].
