(* C17 gap closing: evaluation helpers for the executable tie (harness/props/c17.py, stage "gap").

     unk_fn n cd s        an executable reading of the RELATION [unk_of cd s u] of Model/C17GapDefs.v: split s into
                          complete records (tag by load_varint, payload by load_field, the functions Proofs/VarintP.v and
                          Proofs/C17FieldP.v prove sound for VarintRep / wpayload), keep the raw bytes of those with
                          [kept cd nw] = true.  Proofs/C17GapCvP.v proves  unk_fn n cd s = Some u -> unk_of cd s u,
                          so (C17_unk_of_unique) a value Some u computed here IS the u of the specification.  None = s is
                          not a sequence of complete records (or the fuel n <= number of records).
     cv_unk / cv_kept     the canonical values the harness compares with the real _unknown_fields / with its Python reading
     cv_into              the model's parse_into on an object that already holds unknown bytes: (old bytes, all bytes)
     cv_delim             the model's load_delimited: message and the unread rest
     cv_err               the error KIND of the model's parse (CN when it accepts)
   No proofs here. *)
From BP Require Import Base.Prelude Model.Types Model.Varint Model.Object Model.Decode Model.Canon.
From BP Require Import Model.C17Wire Model.C17GapDefs.

Fixpoint unk_fn (n : nat) (cd : cdesc) (s : list byte) : option (list byte) :=
  match n with
  | O => None
  | S n' =>
      match s with
      | [] => Some []
      | _ :: _ =>
          match load_varint s with
          | Ok (nw, r, s1) =>
              match load_field (length s) s1 nw r with
              | Ok (p, s') =>
                  match unk_fn n' cd s' with
                  | Some u => Some (if kept cd nw then praw p ++ u else u)
                  | None => None
                  end
              | Err _ => None
              end
          | Err _ => None
          end
      end
  end.

Definition unk_of_bytes (cd : cdesc) (s : list byte) : option (list byte) := unk_fn (S (length s)) cd s.

Definition cv_unk (sc : schema) (c : nat) (s : list byte) : cv := copt CB (unk_of_bytes (get_class sc c) s).

Definition cv_kept (sc : schema) (c : nat) (nws : list Z) : cv := CL (map (fun nw => cbool (kept (get_class sc c) nw)) nws).

(* Cls().parse(old) then .parse(bs) on the same object *)
Definition cv_into (sc : schema) (c : nat) (old bs : list byte) : cv :=
  match parse sc c old with
  | Ok o => match parse_into sc o bs with
            | Ok m => CL [CB (ounk o); CB (ounk m); cbool (Nat.eqb (ocls o) c)]
            | Err _ => CE EOther
            end
  | Err _ => CE EOther
  end.

Definition cv_delim (sc : schema) (c : nat) (s : list byte) : cv :=
  match load_delimited sc c s with
  | Ok (m, rest) => CL [cv_of_obj m; CB rest]
  | Err _ => CE EOther
  end.

Definition cv_err (sc : schema) (c : nat) (s : list byte) : cv :=
  match parse sc c s with Ok _ => CN | Err e => CE e end.
