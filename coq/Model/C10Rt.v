(* C10, round-trip layer: the vocabulary of the stream-level round-trip / evolution / truncation theorems
   (Properties/C10.v: C10_stream_roundtrip, C10_stream_older_reader, C10_truncate_roundtrip).
   Nothing of the code is modelled anew here: these are side conditions and specification functions over
   [enc_obj] / [dump] / [parse] / [load_delimited] / [norm_obj]. *)
From BP Require Import Base.Prelude Model.Types Model.Varint Model.Object Model.Eq.
From BP Require Import Model.Encode Model.Len Model.Decode Model.WellFormed Model.C01Def Model.C08Step Model.C10Stream.

(* the size bound of C01, per message: bytes(m) exists and is shorter than 2^64 bytes
   (a longer length does not fit the 10-byte varint load_varint accepts; no Python object reaches it) *)
Definition msg_small (sc : schema) (m : obj) : bool :=
  match enc_obj sc m with Ok bs => Zlength bs <? 2 ^ 64 | Err _ => false end.

(* the number of frames of the stream written for [ms] that lie wholly within its first [k] bytes *)
Fixpoint whole_frames (sc : schema) (ms : list obj) (k : nat) : nat :=
  match ms with
  | [] => O
  | m :: r =>
      match dump sc m true with
      | Ok F => if (length F <=? k)%nat then Datatypes.S (whole_frames sc r (k - length F)) else O
      | Err _ => O
      end
  end.

(* what one message written by the newer schema [sn] looks like to a reader of the older schema
   [drop_fields masks sn]: [mo] is what the older class parses from bytes(m); its delimited load consumes exactly
   the frame of m whatever follows; re-encoding [mo] with the older schema gives as many bytes, which the newer class
   parses to the decoded form [norm_obj sn m] of the original *)
Definition older_view (sn : schema) (masks : list (list bool)) (m mo : obj) : Prop :=
  let so := drop_fields masks sn in
  exists b1 F b2,
    enc_obj sn m = Ok b1 /\ dump sn m true = Ok F /\
    parse so (ocls m) b1 = Ok mo /\ ocls mo = ocls m /\
    (forall r, load_delimited so (ocls m) (F ++ r) = Ok (mo, r)) /\
    enc_obj so mo = Ok b2 /\ length b2 = length b1 /\
    parse sn (ocls m) b2 = Ok (norm_obj sn m).

(* what the reader gets back is the message written: == with either operand on the left (when no NaN sits directly
   inside a container: K7 of C01), the same bytes and delimited frame again, the same class, the same which_one_of for
   every group, and (when the written message's sub-messages carry their serialized_on_wire flag: sow_ok, what
   constructor / setattr / parse maintain) the same readability / None-ness / serialized_on_wire of every attribute *)
Definition same_message (sc : schema) (m m' : obj) : Prop :=
  (deep nan_free (PMsg m) = true -> obj_eq sc m m' = true /\ obj_eq sc m' m = true) /\
  enc_obj sc m' = enc_obj sc m /\ dump sc m' true = dump sc m true /\ ocls m' = ocls m /\
  (forall g, which_one_of m' g = which_one_of m g) /\
  (sow_ok sc m = true -> obs_top sc m m' = true).
