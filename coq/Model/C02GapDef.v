(* C02, gap closure: definitions only.  Everything here is stated over the independent specification
   Spec/Wire.v (records, [gather], [sem]); nothing looks at betterproto's decoder.

   [slot]      the declared field a record is delivered to (None: kept as an unknown field)
   [proj]      ONE field's view of [gather]: the payloads field k holds after the records rs
   [unk_of]    the unknown-field list of [gather], as a filter
   [indep]     two records that do not interact: not both unknown, and when both are delivered, to
               different fields that are not members of one oneof group
   [reorder]   the record lists reachable by exchanging neighbouring independent records (this is the
               permutation of harness/wiregen.py reencode: relative order kept inside one field number,
               inside one oneof group and among the unknown fields)
   [later_for] a later record delivered to field i exists *)
From BP Require Import Base.Prelude Model.Types Model.Object Spec.Varint Spec.Wire.

Definition slot (sc : schema) (fs : list fdesc) (r : record) : option (nat * fdesc) :=
  match find_field fs (fst r) with
  | Some (i, f) => if accepts sc f (snd r) then Some (i, f) else None
  | None => None
  end.

Definition proj_step (sc : schema) (fs : list fdesc) (k : nat) (fk : fdesc) (ps : list payload) (r : record)
  : list payload :=
  match slot sc fs r with
  | Some (i, f) => if Nat.eqb i k then ps ++ [snd r] else if same_group f fk then [] else ps
  | None => ps
  end.
Definition proj (sc : schema) (fs : list fdesc) (k : nat) (fk : fdesc) (rs : list record) : list payload :=
  fold_left (proj_step sc fs k fk) rs [].

Definition unk_of (sc : schema) (fs : list fdesc) (rs : list record) : list record :=
  filter (fun r => negb (is_some (slot sc fs r))) rs.

Definition indep (sc : schema) (fs : list fdesc) (r1 r2 : record) : bool :=
  match slot sc fs r1, slot sc fs r2 with
  | Some (i, f), Some (j, g) => negb (Nat.eqb i j) && negb (same_group f g)
  | None, None => false
  | _, _ => true
  end.

Inductive reorder (sc : schema) (fs : list fdesc) : list record -> list record -> Prop :=
| ro_refl rs : reorder sc fs rs rs
| ro_swap pre r1 r2 post : indep sc fs r1 r2 = true ->
                           reorder sc fs (pre ++ r1 :: r2 :: post) (pre ++ r2 :: r1 :: post)
| ro_trans a b c : reorder sc fs a b -> reorder sc fs b c -> reorder sc fs a c.

Definition slot_is (sc : schema) (fs : list fdesc) (i : nat) (r : record) : bool :=
  match slot sc fs r with Some (j, _) => Nat.eqb j i | None => false end.
Definition later_for (sc : schema) (fs : list fdesc) (i : nat) (rs : list record) : bool :=
  existsb (slot_is sc fs i) rs.

(* a singular field without a oneof group whose elements are scalars (last one wins) *)
Definition singular_scalar (f : fdesc) : bool :=
  match fgroup f, msg_class f, card_of f with
  | None, None, Implicit | None, None, Explicit => true
  | _, _, _ => false
  end.

(* a oneof member whose elements are scalars *)
Definition oneof_scalar (f : fdesc) : bool :=
  match msg_class f, card_of f with
  | None, Oneof _ => true
  | _, _ => false
  end.

(* the fields of a denotation, the unknown fields apart *)
Definition fields_of (a : option aval) : option (list aval) :=
  match a with Some (AMsg fields _) => Some fields | _ => None end.
Definition unknown_of_aval (a : option aval) : list record :=
  match a with Some (AMsg _ u) => u | _ => [] end.
