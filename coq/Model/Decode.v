(* L1 mirror of load_varint's callers: _read_exactly, _load_field, load_fields,
   Message._wire_type_fits, Message._postprocess_single and Message.load / parse /
   FromString (src/betterproto/__init__.py).  A stream is the list of bytes not yet
   read.  Recursion is on fuel; [parse] supplies enough (lemma in Proofs/DecodeP.v), the
   exhausted-fuel result [Err EFuel] is not a Python outcome. *)
From BP Require Import Base.Prelude Model.Types Model.Varint Model.Scalar Model.Float Model.Utf8.
From BP Require Import Model.Object Model.Eq Model.TimeCore.
From BP Require Import gen.Tables.

Record parsed := mkP {
  pnum : Z;                 (* ParsedField.number *)
  pwt : Z;                  (* ParsedField.wire_type *)
  pint : Z;                 (* value when it is an int (varint) *)
  pbytes : list byte;       (* value when it is bytes (fixed32/64, length-delimited) *)
  praw : list byte }.       (* ParsedField.raw *)

(* _read_exactly(stream, size) *)
Definition read_exactly (s : list byte) (n : Z) : result (list byte * list byte) :=
  if (0 <=? n) && (n <=? Zlength s) then Ok (firstn (Z.to_nat n) s, skipn (Z.to_nat n) s)
  else Err EEof.

(* _load_field(stream, num_wire, raw): the payload of the field whose tag was just read.
   The group loop and the recursion into nested groups both consume fuel. *)
Fixpoint load_field (fuel : nat) (s : list byte) (num_wire : Z) (raw : list byte)
  : result (parsed * list byte) :=
  let number := Z.shiftr num_wire 3 in
  let wire_type := Z.land num_wire 7 in
  if number =? 0 then Err EValue
  else if wire_type =? WIRE_VARINT then
    do (v, r, s') <- load_varint s; Ok (mkP number wire_type v [] (raw ++ r), s')
  else if wire_type =? WIRE_FIXED_64 then
    do (d, s') <- read_exactly s 8; Ok (mkP number wire_type 0 d (raw ++ d), s')
  else if wire_type =? WIRE_LEN_DELIM then
    do (len, r, s1) <- load_varint s;
    do (d, s') <- read_exactly s1 len;
    Ok (mkP number wire_type 0 d (raw ++ r ++ d), s')
  else if wire_type =? WIRE_FIXED_32 then
    do (d, s') <- read_exactly s 4; Ok (mkP number wire_type 0 d (raw ++ d), s')
  else if wire_type =? WIRE_START_GROUP then
    match fuel with
    | O => Err EFuel
    | S fuel' =>
        (fix group (n : nat) (s : list byte) (raw : list byte) {struct n} : result (parsed * list byte) :=
           match n with
           | O => Err EFuel
           | S n' =>
               do (inner, r, s1) <- load_varint s;
               if Z.land inner 7 =? WIRE_END_GROUP then
                 if Z.shiftr inner 3 =? number then Ok (mkP number wire_type 0 [] (raw ++ r), s1)
                 else Err EValue
               else
                 do (p, s2) <- load_field fuel' s1 inner (raw ++ r);
                 group n' s2 (praw p)
           end) fuel s raw
    end
  else Err EValue.

(* Message._wire_type_fits *)
Definition wire_type_fits (f : fdesc) (wire_type : Z) : bool :=
  if wire_type =? WIRE_VARINT then tmem (fty f) WIRE_VARINT_TYPES
  else if wire_type =? WIRE_FIXED_32 then tmem (fty f) WIRE_FIXED_32_TYPES
  else if wire_type =? WIRE_FIXED_64 then tmem (fty f) WIRE_FIXED_64_TYPES
  else if wire_type =? WIRE_LEN_DELIM then
    tmem (fty f) WIRE_LEN_DELIM_TYPES ||
    (tmem (fty f) PACKED_TYPES && match fhint f with HList _ => true | _ => false end)
  else false.

(* field_name_by_number.get(number): dict built in declaration order, later entries win *)
Definition field_by_number (cd : cdesc) (num : Z) : option (nat * fdesc) :=
  (fix go (i : nat) (fs : list fdesc) (acc : option (nat * fdesc)) : option (nat * fdesc) :=
     match fs with
     | [] => acc
     | f :: fs' => go (Datatypes.S i) fs' (if fnum f =? num then Some (i, f) else acc)
     end) O (cfields cd) None.

(* struct.unpack(_pack_fmt(proto_type), value)[0] *)
Definition unpack_value (t : ptype) (bs : list byte) : result pv :=
  match pack_fmt t with
  | None => Err EKey
  | Some FmtD => if Nat.eqb (length bs) 8 then Ok (PFloat (le_value bs)) else Err EStruct
  | Some FmtF => if Nat.eqb (length bs) 4 then Ok (PFloat (f2d (le_value bs))) else Err EStruct
  | Some f => do z <- unpack_int f bs; Ok (PInt z)
  end.

(* the WIRE_VARINT branch of _postprocess_single *)
Definition postprocess_varint (t : ptype) (v : Z) : pv :=
  if ptype_eqb t TInt32 then PInt (sign_recover 32 v)
  else if ptype_eqb t TInt64 then PInt (sign_recover 64 v)
  else if tmem t [TSInt32; TSInt64] then PInt (unzigzag v)
  else if ptype_eqb t TBool then PBool (bool_of_varint v)
  else if ptype_eqb t TEnum then PInt (sign_recover 32 v)   (* truncated to int32, then cls.try_value *)
  else PInt v.                                   (* uint32 / uint64 *)

Definition hint_elem (h : hint) : pyty :=
  match h with HPlain t | HOptional t | HList t => t | HDict _ v => v end.

Definition dict_set (d : list (pv * pv)) (sc : schema) (k v : pv) : list (pv * pv) :=
  (fix go (d : list (pv * pv)) : list (pv * pv) :=
     match d with
     | [] => [(k, v)]
     | (k', v') :: r => if pv_eq sc k' k then (k', v) :: r else (k', v') :: go r
     end) d.

(* packed payload: a run of varints or of fixed-width items *)
Fixpoint unpack_packed (n : nat) (t : ptype) (buf : list byte) : result (list pv) :=
  match n with
  | O => Err EFuel
  | S n' =>
      match buf with
      | [] => Ok []
      | _ =>
          if tmem t [TFloat; TFixed32; TSFixed32] then
            do x <- unpack_value t (firstn 4 buf);
            do r <- unpack_packed n' t (skipn 4 buf); Ok (x :: r)
          else if tmem t [TDouble; TFixed64; TSFixed64] then
            do x <- unpack_value t (firstn 8 buf);
            do r <- unpack_packed n' t (skipn 8 buf); Ok (x :: r)
          else
            do (v, _, rest) <- load_varint buf;
            do r <- unpack_packed n' t rest; Ok (postprocess_varint t v :: r)
      end
  end.

(* Message.load(stream, size) on object [o]; returns the object and the unread stream.
   size: None | Some n (n = SIZE_DELIMITED means: read the prefix). *)
Fixpoint load (fuel : nat) (sc : schema) (o : obj) (s : list byte) (size : option Z)
  {struct fuel} : result (obj * list byte) :=
  match fuel with
  | O => Err EFuel
  | S fuel' =>
      do (size, s) <- match size with
                      | Some n => if n =? SIZE_DELIMITED
                                  then do (n', _, s') <- load_varint s; Ok (Some n', s')
                                  else Ok (Some n, s)
                      | None => Ok (None, s)
                      end;
      let 'Obj c raw _ unk cur := o in
      let o := Obj c raw true unk cur in                  (* self._serialized_on_wire = True *)
      let cd := get_class sc c in
      (* cls().parse(payload) for a nested message class / Entry class / bundled class *)
      let parse_new (c' : nat) (bs : list byte) : result obj :=
        do (o', _) <- load fuel' sc (new sc c') bs None; Ok o' in
      (* the WIRE_LEN_DELIM branch of _postprocess_single for a non-packed field *)
      let post_len (f : fdesc) (t : ptype) (ety : pyty) (wraps : option ptype) (bs : list byte) : result pv :=
        if ptype_eqb t TString then
          if utf8_valid bs then Ok (PStr bs) else Err EUnicode
        else if ptype_eqb t TMessage then
          match ety, wraps with
          | PyDatetime, _ =>
              do m <- parse_new timestamp_cls bs;
              match snd (getattr sc m 0), snd (getattr sc m 1) with
              | Ok (PInt sec), Ok (PInt nan) => do us <- us_of_ts sec nan; Ok (PDatetime us)
              | _, _ => Err EType
              end
          | PyTimedelta, _ =>
              do m <- parse_new duration_cls bs;
              match snd (getattr sc m 0), snd (getattr sc m 1) with
              | Ok (PInt sec), Ok (PInt nan) => do us <- us_of_dur sec nan; Ok (PTimedelta us)
              | _, _ => Err EType
              end
          | _, Some w =>
              match wrapper_cls w with
              | None => Err EKey
              | Some wc => do m <- parse_new wc bs; snd (getattr sc m 0)
              end
          | PyMsg c', None => do m <- parse_new c' bs; Ok (mark_sow (PMsg m))
          | _, None => Err EType
          end
        else Ok (PBytes bs) in
      match size with Some 0 => Ok (o, s) | _ =>         (* size == 0: no field is read *)
      (fix loop (n : nat) (o : obj) (s : list byte) (read : Z) {struct n} : result (obj * list byte) :=
         match n with
         | O => Err EFuel
         | S n' =>
             match s with
             | [] =>                                            (* load_fields: EOF before a tag *)
                 match size with
                 | Some sz => if read <? sz then Err EValue else Ok (o, s)
                 | None => Ok (o, s)
                 end
             | _ =>
                 do (num_wire, r, s1) <- load_varint s;
                 do (p, s2) <- load_field fuel' s1 num_wire r;
                 do read <- match size with
                            | Some sz => let read' := read + Zlength (praw p) in
                                         if sz <? read' then Err EValue else Ok read'
                            | None => Ok read
                            end;
                 let finished := match size with Some sz => read =? sz | None => false end in
                 let continue (o : obj) := if finished then Ok (o, s2) else loop n' o s2 read in
                 let 'Obj c raw sow unk cur := o in
                 match field_by_number cd (pnum p) with
                 | None => continue (Obj c raw sow (unk ++ praw p) cur)
                 | Some (i, f) =>
                     if negb (wire_type_fits f (pwt p)) then continue (Obj c raw sow (unk ++ praw p) cur)
                     else
                       do value <-
                         (if (pwt p =? WIRE_LEN_DELIM) && tmem (fty f) PACKED_TYPES then
                            do l <- unpack_packed (Datatypes.S (length (pbytes p))) (fty f) (pbytes p); Ok (PList l)
                          else if pwt p =? WIRE_VARINT then Ok (postprocess_varint (fty f) (pint p))
                          else if (pwt p =? WIRE_FIXED_32) || (pwt p =? WIRE_FIXED_64) then unpack_value (fty f) (pbytes p)
                          else if ptype_eqb (fty f) TMap then
                            do e <- parse_new (fentry f) (pbytes p); Ok (PMsg e)
                          else post_len f (fty f) (hint_elem (fhint f)) (fwraps f) (pbytes p));
                       (* try: current = getattr(self, name) except AttributeError: current = default; setattr(self, name, current) *)
                       let '(o, current) :=
                         match getattr sc o i with
                         | (o', Ok cur_v) => (o', cur_v)
                         | (_, Err _) => let d := default_of sc f in (setattr sc o i d, d)
                         end in
                       let 'Obj c raw sow unk cur := o in
                       if ptype_eqb (fty f) TMap then
                         match value, current with
                         | PMsg e, PDict d =>
                             match getattr sc e 0, getattr sc e 1 with
                             | (_, Ok k), (_, Ok v) => continue (Obj c (set_nth i (PDict (dict_set d sc k v)) raw) sow unk cur)
                             | _, _ => Err EAttribute
                             end
                         | _, _ => Err EType
                         end
                       else
                         match current with
                         | PList l =>
                             let l' := match value with PList vs => l ++ vs | _ => l ++ [value] end in
                             continue (Obj c (set_nth i (PList l') raw) sow unk cur)
                         | _ => continue (setattr sc o i value)
                         end
                 end
             end
         end) (Datatypes.S (length s)) o s 0
      end
  end.

(* Message.parse(data) on an existing object; the stream is read to its end *)
Definition parse_into (sc : schema) (o : obj) (bs : list byte) : result obj :=
  do (o', _) <- load (Datatypes.S (length bs)) sc o bs None; Ok o'.

(* Cls().parse(data) / Cls.FromString(data) *)
Definition parse (sc : schema) (c : nat) (bs : list byte) : result obj :=
  parse_into sc (new sc c) bs.

(* Cls().load(stream, SIZE_DELIMITED) *)
Definition load_delimited (sc : schema) (c : nat) (s : list byte) : result (obj * list byte) :=
  load (Datatypes.S (length s)) sc (new sc c) s (Some SIZE_DELIMITED).
