(* C19: the normal form of snake_case values (a decidable description of the IMAGE of snake_case), used by the
   statements C19_snake_image / C19_snake_fixed_iff.  No proofs here (Proofs/CasingX3.v).

   A value of snake_case is a string over [a-z0-9_] with no "_" at either end, no "__", and no digit directly
   followed by a lower-case letter (the regex would have started a new word there: "a1b" -> "a1_b").
   The walk remembers what the previous character was. *)
From BP Require Import Base.Prelude Model.Casing.

Inductive nfst := NU | NL | ND.   (* start or after "_";  after a lower-case letter;  after a digit *)
Fixpoint snake_nf_go (p : nfst) (x : list byte) : bool :=
  match x with
  | [] => match p with NU => false | _ => true end
  | c :: r =>
      if is_lower_b c then match p with ND => false | _ => snake_nf_go NL r end
      else if is_digit_b c then snake_nf_go ND r
      else if is_us c then match p with NU => false | _ => snake_nf_go NU r end
      else false
  end.
Definition snake_nf (x : list byte) : bool := match x with [] => true | _ => snake_nf_go NU x end.

(* the alphabet of snake_case values *)
Definition snake_alphabet (c : byte) : bool := is_lower_b c || is_digit_b c || is_us c.
