(* Semantics of the ADDITIONAL Python vocabulary that harness/gen_c01_src.py maps the body of
   Message._postprocess_single onto (the vocabularies of harness/gen_c16_src.py, Model/C16SrcLib.v, and of
   harness/gen_c09_src.py, Model/C09SrcLib.v, are reused unchanged).  Hand-written and small: with the translators this is
   what the "source-translation tie" of C01 trusts.  No proofs here; every definition is a plain total function.

   Static types the translator assigns (beyond int = Z, bytes = list byte, bool, proto types = ptype, Any = pv):
     self                       -> py_self         ABSTRACT (a Section variable of the generated file): only handed on to the
                                                    delegated arms and named in the enum pattern below
     field_name : str           -> py_field_name   ABSTRACT, likewise
     meta : FieldMetadata       -> py_meta         the two attributes that are read: meta.proto_type (DOMAIN ASSUMPTION, as in
                                                    C09SrcLib.v: one of the 18 TYPE_* strings) and meta.wraps (None or a type name).
                                                    FieldMetadata must be a frozen dataclass declaring both (checked by the translator)
     fmt = _pack_fmt(..)        -> fmt             one of the six struct formats (Types.fmt)
   The parameter `value: Any` follows the control flow: after `value = <int expression>` it is a Z, after `value = value > 0`
   a bool; where two branches of an `if` leave it with different static types each side is INJECTED into pv
   (PInt / PBool / PBytes).  A bool result is PBool, an int result PInt.

   Where the DYNAMIC value meets an int operator (`value & m`, `value >> 1`, `value > 0`) it is coerced by C09SrcLib.py_int_arg
   AFTER both operands have been evaluated (Python applies the operator last): int and bool pass, every other type raises
   TypeError.  Exact for bytes / str / None / list / dict / message operands; NOT EXACT for a float under a COMPARISON
   (`1.5 > 0` is True in Python, TypeError here) - the same abstraction as C09SrcLib.py_int_arg; the decoder never passes a float. *)
From Coq Require Import String Ascii.
From BP Require Import Base.Prelude Model.Types Model.Scalar Model.Float Model.Utf8 Model.Object gen.Tables.

(* the attributes of a FieldMetadata instance that _postprocess_single reads *)
Record py_meta : Type := mk_meta { meta_proto_type : ptype; meta_wraps : option ptype }.

(* `x in (A, B, ...)` for an int x and module-level int constants *)
Definition py_int_in (v : Z) (l : list Z) : bool := existsb (Z.eqb v) l.

(* the 18 proto type names (the strings the TYPE_* constants are bound to; the translator chooses the constructor by
   the same strings, gen_c09_src.PTYPE_OF_STRING) *)
Definition ptype_name (t : ptype) : string :=
  match t with
  | TEnum => "enum" | TBool => "bool" | TInt32 => "int32" | TInt64 => "int64" | TUInt32 => "uint32"
  | TUInt64 => "uint64" | TSInt32 => "sint32" | TSInt64 => "sint64" | TFloat => "float" | TDouble => "double"
  | TFixed32 => "fixed32" | TSFixed32 => "sfixed32" | TFixed64 => "fixed64" | TSFixed64 => "sfixed64"
  | TString => "string" | TBytes => "bytes" | TMessage => "message" | TMap => "map"
  end%string.

(* s[n:] for a non-negative literal n (shorter strings give "") *)
Fixpoint str_drop (n : nat) (s : string) : string :=
  match n, s with
  | O, _ => s
  | S n', String _ r => str_drop n' r
  | S _, EmptyString => EmptyString
  end.

(* int(s) for a str of ASCII letters and digits (every suffix of a type name is one): the decimal value of a non-empty
   run of digits, ValueError otherwise.  (Python also accepts surrounding whitespace, a sign and single underscores:
   none of these characters occurs in a type name.) *)
Fixpoint digits_value (acc : Z) (s : string) : option Z :=
  match s with
  | EmptyString => Some acc
  | String c r =>
      let n := Z.of_nat (nat_of_ascii c) in
      if (48 <=? n) && (n <=? 57) then digits_value (acc * 10 + (n - 48)) r else None
  end.
Definition py_int_of_str (s : string) : result Z :=
  match s with
  | EmptyString => Err EValue
  | _ => match digits_value 0 s with Some z => Ok z | None => Err EValue end
  end.

(* int(<proto type>[n:]) *)
Definition py_int_of_ptype_suffix (n : nat) (t : ptype) : result Z := py_int_of_str (str_drop n (ptype_name t)).

(* _pack_fmt(proto_type): a dict lookup, KeyError outside the six fixed-width kinds.  The dict itself is reflected into
   gen/Tables.v (pack_fmt) by harness/gen_tables.py on every run *)
Definition py_pack_fmt (t : ptype) : result fmt :=
  match pack_fmt t with Some f => Ok f | None => Err EKey end.

(* struct.unpack(fmt, value)[0] for the six formats: the buffer must be a bytes object (TypeError otherwise) of exactly
   the format's size (struct.error otherwise); "<d" / "<f" give a float (binary64 pattern; float32 widened by Float.f2d),
   the four integer formats an int (Scalar.unpack_int).  Same right-hand sides as Model/Decode.v unpack_value *)
Definition py_struct_unpack0 (f : fmt) (v : pv) : result pv :=
  match v with
  | PBytes bs =>
      match f with
      | FmtD => if Nat.eqb (length bs) 8 then Ok (PFloat (le_value bs)) else Err EStruct
      | FmtF => if Nat.eqb (length bs) 4 then Ok (PFloat (f2d (le_value bs))) else Err EStruct
      | f => bind (unpack_int f bs) (fun z => Ok (PInt z))
      end
  | _ => Err EType
  end.

(* str(value, "utf-8"): strict UTF-8 decoding of a bytes object (Model/Utf8.v; the str IS its UTF-8 bytes),
   UnicodeDecodeError on malformed input, TypeError for a value that is not bytes-like *)
Definition py_str_decode_utf8 (v : pv) : result pv :=
  match v with
  | PBytes bs => if utf8_valid bs then Ok (PStr bs) else Err EUnicode
  | _ => Err EType
  end.

(* self._betterproto.cls_by_field[field_name].try_value(n), n an int: the member of the field's enum class with that
   number or a fresh nameless member carrying it (betterproto/enum.py try_value: never raises for an int); either way an
   int-subclass instance whose int value is n, which is ALL the model's pv keeps of an enum member (Object.v, PInt).
   DOMAIN ASSUMPTION: field_name names an enum field of self (the caller passes the field the record belongs to) *)
Definition py_enum_try_value {S F : Type} (self : S) (field_name : F) (n : Z) : pv := PInt n.

(* ---- delegated arms (not translated; their source text is PINNED in the translator, any change of it is a rejection) ----
   `elif meta.proto_type == TYPE_MESSAGE:` (datetime / timedelta / wrapper / nested message, each through a nested parse)
   and `elif meta.proto_type == TYPE_MAP:` (the Entry class parsed) are whatever the Section variables [msgarm] / [maparm] of
   the generated file say: functions of exactly the four names the pinned text reads (self, field_name, meta, value). *)
Definition delegated_post_message {S F : Type} (msgarm : S -> F -> py_meta -> pv -> result pv)
           (self : S) (field_name : F) (meta : py_meta) (v : pv) : result pv := msgarm self field_name meta v.
Definition delegated_post_map {S F : Type} (maparm : S -> F -> py_meta -> pv -> result pv)
           (self : S) (field_name : F) (meta : py_meta) (v : pv) : result pv := maparm self field_name meta v.
