(* C06 gap closing: definitions only (no proofs).
   implicit_exact_kind                    the implicit-presence kinds whose non-default values have a non-empty payload
   has_field_bytes / which_oneof_bytes   the reference's verdict (Spec/C06Wire.v has_record / last_member) as a FUNCTION OF THE
                                         BYTES: None when the bytes are not a sequence of complete records of the four data wire types *)
From BP Require Import Base.Prelude Model.Types Model.Object Spec.C06Wire.

Definition has_field_bytes (f : fdesc) (bs : list byte) : option bool :=
  match parse_records bs with Some rs => Some (has_record f rs) | None => None end.
Definition which_oneof_bytes (cd : cdesc) (g : nat) (bs : list byte) : option (option nat) :=
  match parse_records bs with Some rs => Some (last_member cd g rs) | None => None end.

(* the kinds for which "holds a non-default value" forces a non-empty payload: every varint / fixed-width kind, str, bytes *)
Definition implicit_exact_kind (f : fdesc) : Prop :=
  base_wire_type (fty f) <> 2 \/ (fty f = TString /\ fhint f = HPlain PyStr) \/ (fty f = TBytes /\ fhint f = HPlain PyBytes).

