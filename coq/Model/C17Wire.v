(* C17, specification side: what "a complete record" of the protobuf wire format is, written
   independently of betterproto's reader (only Spec/Varint.v's [VarintRep]: every legal, possibly
   padded, varint of at most 10 bytes).  A record is a tag followed by the payload its wire type
   announces; a group's payload is a sequence of complete records closed by the end-group tag of
   the same field number.  Field number 0 and wire types 4 (outside a group), 6, 7 start no record.
   harness/wiregen.read_records is the executable twin of this definition. *)
From BP Require Import Base.Prelude Spec.Varint.

Definition tag_num (nw : Z) : Z := Z.shiftr nw 3.
Definition tag_wt (nw : Z) : Z := Z.land nw 7.

(* [wpayload nw pl]: [pl] is a complete payload for a record whose tag has value [nw];
   [wrecs bs]: [bs] is a concatenation of complete records *)
Inductive wpayload : Z -> list byte -> Prop :=
| PVarint nw v vb :
    tag_num nw <> 0 -> tag_wt nw = 0 -> VarintRep v vb -> wpayload nw vb
| PFixed64 nw d :
    tag_num nw <> 0 -> tag_wt nw = 1 -> length d = 8%nat -> wpayload nw d
| PLen nw lb d :
    tag_num nw <> 0 -> tag_wt nw = 2 -> VarintRep (Zlength d) lb -> wpayload nw (lb ++ d)
| PGroup nw inner enw etag :
    tag_num nw <> 0 -> tag_wt nw = 3 -> wrecs inner ->
    VarintRep enw etag -> tag_wt enw = 4 -> tag_num enw = tag_num nw ->
    wpayload nw (inner ++ etag)
| PFixed32 nw d :
    tag_num nw <> 0 -> tag_wt nw = 5 -> length d = 4%nat -> wpayload nw d
with wrecs : list byte -> Prop :=
| WNil : wrecs []
| WCons nw tag pl rs :
    VarintRep nw tag -> wpayload nw pl -> wrecs rs -> wrecs (tag ++ pl ++ rs).

Scheme wpayload_mind := Minimality for wpayload Sort Prop
  with wrecs_mind := Minimality for wrecs Sort Prop.
Combined Scheme wire_mutind from wpayload_mind, wrecs_mind.

(* one complete record: tag bytes ++ payload *)
Definition wrec (nw : Z) (r : list byte) : Prop :=
  exists tag pl, VarintRep nw tag /\ wpayload nw pl /\ r = tag ++ pl.
