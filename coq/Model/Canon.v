(* Canonical [cv] forms of model values, for the correspondence check: the harness
   prints the snapshot of the real Python object as a [pv]/[obj] literal and both sides
   go through these functions. NaN payloads are canonicalised (any NaN -> one value). *)
From BP Require Import Base.Prelude Model.Types Model.Float Model.Object.

Definition canon_nan : Z := Z.shiftl 4095 51.    (* 0x7ff8000000000000 *)

Fixpoint cv_of_pv (v : pv) : cv :=
  match v with
  | PPlaceholder => CL [CZ 0]
  | PNone => CN
  | PInt z => CZ z
  | PBool b => CL [CZ 1; cbool b]
  | PFloat b => CL [CZ 2; CZ (if f64_is_nan b then canon_nan else b)]
  | PStr s => CL [CZ 3; CB s]
  | PBytes b => CB b
  | PDatetime us => CL [CZ 4; CZ us]
  | PTimedelta us => CL [CZ 5; CZ us]
  | PList l => CL [CZ 6; CL (map cv_of_pv l)]
  | PDict d =>
      CL [CZ 7; CL ((fix go (d : list (pv * pv)) : list cv :=
                       match d with
                       | [] => []
                       | (k, x) :: r => CL [cv_of_pv k; cv_of_pv x] :: go r
                       end) d)]
  | PMsg (Obj c raw sow unk cur) =>
      CL [CZ 8; CZ (Z.of_nat c); CL (map cv_of_pv raw); cbool sow; CB unk;
          CL (map (copt (fun n => CZ (Z.of_nat n))) cur)]
  end.

Definition cv_of_obj (o : obj) : cv := cv_of_pv (PMsg o).

Definition cv_obj_res (r : result obj) : cv := cres_any cv_of_obj r.
Definition cv_bytes_res (r : result (list byte)) : cv := cres_any CB r.
Definition cv_z_res (r : result Z) : cv := cres_any CZ r.
Definition cv_pv_res (r : result pv) : cv := cres_any cv_of_pv r.
Definition cv_obj_rest_res (r : result (obj * list byte)) : cv :=
  cres_any (fun '(o, rest) => CL [cv_of_obj o; CZ (Zlength rest)]) r.
