(* C06: the presence observers of betterproto and the operations the C06 matrix uses, on top of
   the shared object model (Model/Object.v).  No proofs here.

   is_set            Message.is_set(name): the raw attribute is not its dataclass default
                     (None for a proto3-optional field, PLACEHOLDER otherwise)
   value_not_none    `m.name is not None` (what a user tests for optional and wrapper fields)
   child_on_wire     betterproto.serialized_on_wire(m.name) for a field holding a Message
   assign_path       `m.a.b.x = v`: every intermediate is obtained with getattr (which stores the
                     lazily created default into its parent with object.__setattr__, flags
                     untouched), the leaf is set with __setattr__.  Python objects are aliased, so
                     the mutated child IS the object its parent holds: the tree model writes it
                     back as a raw replacement.  No parent is notified: its _serialized_on_wire
                     stays as it was (DESIGN section 5, K12).
   c06_obs           everything the correspondence compares after one history. *)
From BP Require Import Base.Prelude Model.Types Model.Object Model.Eq Model.Encode Model.Canon.
From BP Require Import Spec.C06Wire.

Definition field_at (sc : schema) (o : obj) (i : nat) : option fdesc :=
  nth_error (cfields (get_class sc (ocls o))) i.

Definition raw_at (o : obj) (i : nat) : pv := nth i (oraw o) PPlaceholder.

Definition is_set (sc : schema) (o : obj) (i : nat) : bool :=
  match field_at sc o i with
  | None => false
  | Some f =>
      match raw_at o i with
      | PNone => negb (fopt f)
      | PPlaceholder => fopt f
      | _ => true
      end
  end.

Definition value_not_none (sc : schema) (o : obj) (i : nat) : bool :=
  match read sc o i with
  | Ok PNone => false
  | Ok _ => true
  | Err _ => false
  end.

Definition child_on_wire (o : obj) (i : nat) : bool :=
  match raw_at o i with
  | PMsg ch => osow ch
  | _ => false
  end.

Definition set_raw (o : obj) (i : nat) (v : pv) : obj :=
  let 'Obj c raw sow unk cur := o in Obj c (set_nth i v raw) sow unk cur.

Fixpoint assign_path (sc : schema) (o : obj) (path : list nat) (i : nat) (v : pv) : result obj :=
  match path with
  | [] => Ok (setattr sc o i v)
  | j :: rest =>
      match getattr sc o j with
      | (o1, Ok (PMsg ch)) =>
          do ch' <- assign_path sc ch rest i v;
          Ok (set_raw o1 j (PMsg ch'))
      | (_, Ok _) => Err EAttribute           (* None / a scalar has no such attribute *)
      | (_, Err e) => Err e
      end
  end.

(* the object reached by reading along a path (no write-back needed: used for observation only) *)
Fixpoint descend (sc : schema) (o : obj) (path : list nat) : result obj :=
  match path with
  | [] => Ok o
  | j :: rest =>
      match read sc o j with
      | Ok (PMsg ch) => descend sc ch rest
      | Ok _ => Err EAttribute
      | Err e => Err e
      end
  end.

Definition nfields (sc : schema) (o : obj) : nat := length (cfields (get_class sc (ocls o))).

(* snapshot, bytes, is_set per field, the value each field reads as (each read from the same state) *)
Definition c06_obs (sc : schema) (r : result obj) : cv :=
  match r with
  | Err _ => CE EOther
  | Ok o =>
      CL [cv_of_obj o;
          cv_bytes_res (enc_obj sc o);
          CL (map (fun i => cbool (is_set sc o i)) (seq 0 (nfields sc o)));
          CL (map (fun i => cv_pv_res (read sc o i)) (seq 0 (nfields sc o)))]
  end.

(* a history: constructor kwargs, then attribute assignments (direct or through a path), then
   optionally parse() of more bytes into the same object is added by the caller *)
Definition apply_sets (sc : schema) (o : obj) (ops : list (list nat * nat * pv)) : result obj :=
  fold_left (fun r '(path, i, v) => do o' <- r; assign_path sc o' path i v) ops (Ok o).

(* ---- the loop of Message.dump, one field at a time ---- *)
Definition here (sc : schema) (cur : list (option nat)) (i : nat) (x : pv) (f : fdesc) : result (list byte) :=
  match group_selects cur f i with
  | Some false => Ok []
  | sel =>
      match x with
      | PNone => Ok []
      | PPlaceholder =>
          match default_of sc f with
          | PNone => Ok []
          | d => emit_field (fun _ => Ok []) sc f sel d
          end
      | _ => emit_field (enc_obj sc) sc f sel x
      end
  end.

Fixpoint body (sc : schema) (cur : list (option nat)) (i : nat) (raw : list pv) (fs : list fdesc)
  : result (list byte) :=
  match raw, fs with
  | x :: raw', f :: fs' =>
      do h <- here sc cur i x f; do rest <- body sc cur (S i) raw' fs'; Ok (h ++ rest)
  | _, _ => Ok []
  end.


(* a raw attribute that holds a value (neither None nor the PLACEHOLDER sentinel), and not a list *)
Definition is_value (x : pv) : Prop := x <> PNone /\ x <> PPlaceholder.
Definition singular_value (x : pv) : Prop := forall l, x <> PList l.


(* bytes(m) contains, as a contiguous segment, a contribution of field i that starts with the tag
   (number of f, wire type of f's proto type) *)
Definition emitted_in (sc : schema) (o : obj) (i : nat) (f : fdesc) : Prop :=
  forall all, enc_obj sc o = Ok all ->
  exists pre h post, all = pre ++ h ++ post /\ here sc (ocur o) i (raw_at o i) f = Ok h /\
                     starts_with_tag (fnum f) (base_wire_type (fty f)) h.

