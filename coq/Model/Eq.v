(* Python's == between the values a message attribute can hold, including
   Message.__eq__ (raw attributes, PLACEHOLDER standing for the field default, two
   NaNs in the same float field considered equal).  Object identity is not modelled:
   list/dict comparison here is purely by value, so a NaN inside a container makes
   two containers unequal (CPython's identity shortcut can make `l == l` true for one
   and the same list object; see known finding K7). *)
From BP Require Import Base.Prelude Model.Types Model.Float Model.Object.

Definition pv_is_nan (v : pv) : bool :=
  match v with PFloat b => f64_is_nan b | _ => false end.

(* default_of S f == v, by structural recursion on v *)
Fixpoint is_default (S : schema) (f : fdesc) (v : pv) {struct v} : bool :=
  match fhint f with
  | HOptional _ => match v with PNone => true | _ => false end
  | HList _ => match v with PList [] => true | _ => false end
  | HDict _ _ => match v with PDict [] => true | _ => false end
  | HPlain t =>
      match t, v with
      | (PyInt | PyEnum _ | PyBool), PInt z => z =? 0
      | (PyInt | PyEnum _ | PyBool), PBool b => negb b
      | PyFloat, PFloat b => f64_is_zero b
      | PyStr, PStr [] => true
      | PyBytes, PBytes [] => true
      | PyDatetime, PDatetime us => us =? 0
      | PyTimedelta, PTimedelta us => us =? 0
      | PyMsg c, PMsg (Obj c' raw _ _ _) =>
          Nat.eqb c c' &&
          (fix go (raw : list pv) (fs : list fdesc) {struct raw} : bool :=
             match raw, fs with
             | x :: raw', f' :: fs' =>
                 (match x with PPlaceholder => true | _ => is_default S f' x end) && go raw' fs'
             | _, _ => true
             end) raw (cfields (get_class S c'))
      | _, _ => false
      end
  end.

Fixpoint pv_eq (S : schema) (a b : pv) {struct a} : bool :=
  match a, b with
  | PPlaceholder, PPlaceholder => true
  | PNone, PNone => true
  | PInt x, PInt y => x =? y
  | PInt x, PBool y => x =? (if y then 1 else 0)
  | PBool x, PInt y => (if x then 1 else 0) =? y
  | PBool x, PBool y => Bool.eqb x y
  | PFloat x, PFloat y => f64_eq x y
  | PStr x, PStr y => bytes_eqb x y
  | PBytes x, PBytes y => bytes_eqb x y
  | PDatetime x, PDatetime y => x =? y
  | PTimedelta x, PTimedelta y => x =? y
  | PList x, PList y =>
      (fix go (x y : list pv) : bool :=
         match x, y with
         | [], [] => true
         | u :: x', v :: y' => pv_eq S u v && go x' y'
         | _, _ => false
         end) x y
  | PDict x, PDict y =>
      Nat.eqb (length x) (length y) &&
      (fix go (x : list (pv * pv)) : bool :=
         match x with
         | [] => true
         | (k, u) :: x' =>
             (fix find (y : list (pv * pv)) : bool :=
                match y with
                | [] => false
                | (k', v) :: y' => if pv_eq S k k' then pv_eq S u v else find y'
                end) y && go x'
         end) x
  | PMsg (Obj c ra _ _ _), PMsg (Obj c' rb _ _ _) =>
      Nat.eqb c c' &&
      (fix go (ra rb : list pv) (fs : list fdesc) {struct ra} : bool :=
         match ra, rb, fs with
         | u :: ra', v :: rb', f :: fs' =>
             (match u, v with
              | PPlaceholder, PPlaceholder => true
              | PPlaceholder, _ => is_default S f v
              | _, PPlaceholder => is_default S f u
              | _, _ => pv_eq S u v || (pv_is_nan u && pv_is_nan v)
              end) && go ra' rb' fs'
         | _, _, _ => true
         end) ra rb (cfields (get_class S c))
  | _, _ => false
  end.

(* Message.__eq__ *)
Definition obj_eq (S : schema) (x y : obj) : bool := pv_eq S (PMsg x) (PMsg y).

(* Message.__bool__: any raw attribute that is neither PLACEHOLDER nor == its default *)
Definition obj_bool (S : schema) (o : obj) : bool :=
  (fix go (raw : list pv) (fs : list fdesc) {struct raw} : bool :=
     match raw, fs with
     | x :: raw', f :: fs' =>
         (match x with PPlaceholder => false | _ => negb (is_default S f x) end) || go raw' fs'
     | _, _ => false
     end) (oraw o) (cfields (get_class S (ocls o))).
