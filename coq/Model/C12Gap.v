(* C12 — definitions used by the gap-closing theorems of Proofs/C12GapA.v / C12GapB.v.  Observations over the configuration
   and the state of Model/Channel.v only: nothing here changes the transition system.  No proofs here. *)
From BP Require Import Base.Prelude Model.Channel Model.C12X.
From Coq Require Import Arith.
Local Open Scope nat_scope.

(* the configurations for which the delivery clauses hold: the repaired receive/__anext__ (F10), or the pinned code as long as
   nobody cancels / times out *)
Definition cfg_sound (c : config) : bool := negb (c_pinned c) || cfg_nocancel c.

(* every task has finished *)
Definition all_finished (s : state) : bool := forallb (fun T => is_fin (st T)) (tasks s).

(* the wait_for flag of task t of the configuration (false for the internal _flush_queue tasks) *)
Definition cfg_tmo (c : config) (t : nat) : bool :=
  match nth_error (c_progs c) t with Some pb => snd pb | None => false end.

(* some task of the configuration issues cancel() against task t (or: the wait_for timer of task t) *)
Definition is_ucancel_of (t : nat) (o : uop) : bool := match o with UCancel u => Nat.eqb u t | _ => false end.
Definition cancel_target (c : config) (t : nat) : bool :=
  existsb (fun pb => existsb (is_ucancel_of t) (fst pb)) (c_progs c).

(* the task carries a cancellation: requested and not yet delivered, or delivered *)
Definition carries_cancel (T : task) : bool :=
  mc T || match st T with CancGet | CancPut | Fin OCancelled | Fin OTimeout => true | _ => false end.
