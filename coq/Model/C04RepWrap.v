(* C04: the extension of WellFormed.wf_schema / in_range that admits REPEATED WRAPPER fields
   (`repeated google.protobuf.BytesValue x = 1;` -> List[bytes] with meta.proto_type = "message" and
   meta.wraps = "bytes": commit 09cc975 of /repo, harness/props/c04.py JSchema / wrapper_schema).
   The shared predicate WellFormed.wf_field demands `wraps is None` of every List field, and
   WellFormed.elem_in_range judges the elements of a List field by meta.proto_type (= "message" here,
   which no scalar fits), so such a class is outside wf_schema and a non-empty list is outside in_range.

     repwrap_field sc f   f is what the plugin builds for `repeated google.protobuf.XxxValue`
     wfx_field            wf_field, or a repeated wrapper field
     wfx_schema           wf_schema with wfx_field in place of wf_field   (wf_schema -> wfx_schema: Proofs/C04InclBaseP.v)
     elem_in_rangex       elem_in_range, the elements of a List field judged by meta.wraps when it is set
     in_rangex            in_range with elem_in_rangex   (in_range -> in_rangex on a wf_schema: Proofs/C04InclBaseP.v)
   No proofs here. *)
From BP Require Import Base.Prelude Model.Types Model.Float Model.Utf8 Model.Object Model.TimeCore Model.WellFormed.
From BP Require Import gen.Tables.

(* ---- schema ---- *)
Definition repwrap_field (sc : schema) (f : fdesc) : bool :=
  match fhint f, fwraps f with
  | HList p, Some w =>
      negb (fopt f) && negb (is_some' (fmap f)) && negb (is_some' (fgroup f)) &&
      ptype_eqb (fty f) TMessage && is_some' (wrapper_cls w) &&
      match wrapper_value_type w with
      | Some vt => pyty_fits (length (classes sc)) (length (enums sc)) vt p
      | None => false
      end
  | _, _ => false
  end.

Definition wfx_field (sc : schema) (ngroups : nat) (f : fdesc) : bool :=
  wf_field sc ngroups f || ((1 <=? fnum f) && (fnum f <? 2 ^ 29) && repwrap_field sc f).

Definition wfx_class (sc : schema) (cd : cdesc) : bool :=
  forallb (wfx_field sc (cngroups cd)) (cfields cd) && nodup_z (map fnum (cfields cd)).

Definition wfx_schema (sc : schema) : bool :=
  let nb := length builtin_classes in
  Nat.leb nb (length (classes sc)) &&
  forallb (fun '(a, b) => Nat.eqb (length (cfields a)) (length (cfields b)) &&
                          forallb (fun '(f, g) => (fnum f =? fnum g) && ptype_eqb (fty f) (fty g)) (combine (cfields a) (cfields b)))
          (combine (firstn nb (classes sc)) builtin_classes) &&
  forallb (wfx_class sc) (classes sc).

(* ---- values ---- *)
(* the proto type the elements of a List / Optional field are judged by *)
Definition elem_ptype (f : fdesc) : ptype := match fwraps f with Some w => w | None => fty f end.

Fixpoint elem_in_rangex (sc : schema) (t : ptype) (p : pyty) (v : pv) {struct v} : bool :=
  match p, v with
  | PyDatetime, PDatetime us => (dt_min_us <=? us) && (us <=? dt_max_us)
  | PyTimedelta, PTimedelta us => (- 315576000000000000 <=? us) && (us <=? 315576000000000000)
  | PyMsg c, PMsg (Obj c' raw _ _ cur) =>
      Nat.eqb c c' &&
      Nat.eqb (length raw) (length (cfields (get_class sc c))) &&
      Nat.eqb (length cur) (cngroups (get_class sc c)) &&
      (fix go (raw : list pv) (fs : list fdesc) {struct raw} : bool :=
         match raw, fs with
         | x :: raw', f :: fs' =>
             (match x with
              | PPlaceholder => true
              | PNone => match fhint f with HOptional _ => true | _ => false end
              | _ =>
                  match fhint f with
                  | HPlain p' => elem_in_rangex sc (fty f) p' x
                  | HOptional p' => elem_in_rangex sc (elem_ptype f) p' x
                  | HList p' =>
                      match x with
                      | PList l => (fix all (l : list pv) : bool :=
                                      match l with [] => true | y :: l' => elem_in_rangex sc (elem_ptype f) p' y && all l' end) l
                      | _ => false
                      end
                  | HDict pk pv' =>
                      match x, fmap f with
                      | PDict d, Some (kt, vt) =>
                          (fix all (d : list (pv * pv)) : bool :=
                             match d with
                             | [] => true
                             | (k, y) :: d' => scalar_in_range kt k && elem_in_rangex sc vt pv' y && all d'
                             end) d
                      | _, _ => false
                      end
                  end
              end) && go raw' fs'
         | _, _ => true
         end) raw (cfields (get_class sc c))
  | (PyInt | PyFloat | PyBool | PyStr | PyBytes | PyEnum _), _ => scalar_in_range t v
  | _, _ => false
  end.

Definition in_rangex (sc : schema) (o : obj) : bool :=
  elem_in_rangex sc TMessage (PyMsg (ocls o)) (PMsg o).
