(* Model/Grpc.v — executable mirror of what python-betterproto generates for a
   `service` (client stub class + server base class, templates/template.py.j2),
   of plugin/models.py ServiceMethodCompiler.route and of the runtime in
   grpc/grpclib_client.py / grpc/grpclib_server.py.

   No proofs here.  The model follows the code site by site:

     template, Stub class body      -> [stub_helper], [stub_method], [stub_class]
     grpclib_client.ServiceStub     -> [helper_card], [resolve_kwargs], [client_send], [client_recv]
     template, Base class body      -> [base_defaults], [base_adapters], [run_adapter]
     template, Base.__mapping__     -> [mapping_card], [mapping_entry], [mapping]
     grpclib_server.ServiceBase     -> the [ss = true] arm of [run_adapter]
     grpclib (Server / Stream)      -> [dispatch], [send_all]  (only the checks that decide
                                       which messages and which status reach the caller;
                                       HTTP/2 framing, deadlines, cancellation and asyncio
                                       scheduling are NOT modelled)

   The two template sites that must agree (which helper a stub method calls, and
   which Cardinality / types / adapter a __mapping__ entry names) are written as
   separate functions on purpose; the theorems relate them.

   Python names: both classes are ordinary class bodies, so when two methods get
   the same Python name the LATER `def` replaces the earlier one ([assoc_last]);
   a dict literal with a repeated key keeps the last value (same function). *)
From BP Require Import Base.Prelude.

Definition str := list byte.
Definition str_eqb : str -> str -> bool := bytes_eqb.

(* ---------------------------------------------------------------------------
   what the plugin is given (MethodDescriptorProto + the Python name it derives)
   --------------------------------------------------------------------------- *)
Record method := Method {
  m_name : str;      (* proto_name: proto_obj.name *)
  m_py   : str;      (* py_name: pythonize_method_name(proto_obj.name) — casing itself is C19's subject;
                        the harness reads it from the live function *)
  m_cs   : bool;     (* client_streaming *)
  m_ss   : bool;     (* server_streaming *)
  m_in   : str;      (* identity of the class py_input_message_type resolves to (proto full name) *)
  m_out  : str       (* identity of the class py_output_message_type resolves to *)
}.

Record service := Service {
  s_pkg : str;       (* output_file.package, "" when the file has none *)
  s_name : str;      (* parent.proto_name *)
  s_methods : list method
}.

(* grpclib.const.Cardinality *)
Inductive card := UNARY_UNARY | UNARY_STREAM | STREAM_UNARY | STREAM_STREAM.
Definition card_cs (c : card) : bool := match c with STREAM_UNARY | STREAM_STREAM => true | _ => false end.
Definition card_ss (c : card) : bool := match c with UNARY_STREAM | STREAM_STREAM => true | _ => false end.
Definition card_eqb (a b : card) : bool :=
  match a, b with
  | UNARY_UNARY, UNARY_UNARY | UNARY_STREAM, UNARY_STREAM
  | STREAM_UNARY, STREAM_UNARY | STREAM_STREAM, STREAM_STREAM => true
  | _, _ => false
  end.

(* the four call helpers of ServiceStub *)
Inductive helper := H_unary_unary | H_unary_stream | H_stream_unary | H_stream_stream.

(* grpclib.const.Status values that occur *)
Definition ST_UNKNOWN : Z := 2.
Definition ST_UNIMPLEMENTED : Z := 12.

(* ---------------------------------------------------------------------------
   models.py: ServiceMethodCompiler.route
     package_part = f"{package}." if package else ""
     f"/{package_part}{self.parent.proto_name}/{self.proto_name}"
   --------------------------------------------------------------------------- *)
Definition ch_slash : byte := x2f.
Definition ch_dot : byte := x2e.

Definition package_part (pkg : str) : str :=
  match pkg with [] => [] | _ => pkg ++ [ch_dot] end.

Definition route_prefix (svc : service) : str :=
  ch_slash :: package_part (s_pkg svc) ++ s_name svc ++ [ch_slash].

Definition route (svc : service) (m : method) : str := route_prefix svc ++ m_name m.

(* ---------------------------------------------------------------------------
   Python name spaces: class body / dict literal, last definition wins
   --------------------------------------------------------------------------- *)
Fixpoint assoc_last {A} (l : list (str * A)) (k : str) : option A :=
  match l with
  | [] => None
  | (k', v) :: r =>
      match assoc_last r k with
      | Some x => Some x
      | None => if str_eqb k' k then Some v else None
      end
  end.

(* ---------------------------------------------------------------------------
   template site 1: class <Service>Stub
   --------------------------------------------------------------------------- *)
Record stub_def := StubDef {
  sd_helper : helper;   (* which of self._unary_unary / ... the body calls *)
  sd_route : str;       (* "{{ method.route }}" *)
  sd_in : str;          (* {{ method.py_input_message_type }}  (passed by the two stream helpers only) *)
  sd_out : str          (* {{ method.py_output_message_type }} with the quotes stripped *)
}.

(* {% if method.server_streaming %}{% if method.client_streaming %} ... nesting of the template *)
Definition stub_helper (m : method) : helper :=
  if m_ss m then (if m_cs m then H_stream_stream else H_unary_stream)
  else (if m_cs m then H_stream_unary else H_unary_unary).

Definition stub_method (svc : service) (m : method) : stub_def :=
  StubDef (stub_helper m) (route svc m) (m_in m) (m_out m).

Definition stub_class (svc : service) : list (str * stub_def) :=
  map (fun m => (m_py m, stub_method svc m)) (s_methods svc).

(* ---------------------------------------------------------------------------
   grpclib_client.py: the Cardinality each helper hands to channel.request,
   and whether it takes / returns an iterator
   --------------------------------------------------------------------------- *)
Definition helper_card (h : helper) : card :=
  match h with
  | H_unary_unary => UNARY_UNARY
  | H_unary_stream => UNARY_STREAM
  | H_stream_unary => STREAM_UNARY
  | H_stream_stream => STREAM_STREAM
  end.

Definition helper_takes_iterator (h : helper) : bool :=
  match h with H_stream_unary | H_stream_stream => true | _ => false end.

Definition helper_returns_iterator (h : helper) : bool :=
  match h with H_unary_stream | H_stream_stream => true | _ => false end.

(* __resolve_request_kwargs:  self.x if x is None else x.
   The test is `is None`, not truthiness: a value that is set but falsy (timeout=0, metadata={} / [] / ()) is
   [Some v] here like any other value and wins over the stub-level default. *)
Definition is_none {A} (o : option A) : bool := match o with None => true | Some _ => false end.
Definition resolve1 {A} (self_v call_v : option A) : option A :=
  if is_none call_v then self_v else call_v.

Record kw := Kw { k_timeout : option Z; k_deadline : option Z; k_metadata : option Z }.

Definition resolve_kwargs (stub call : kw) : kw :=
  Kw (resolve1 (k_timeout stub) (k_timeout call))
     (resolve1 (k_deadline stub) (k_deadline call))
     (resolve1 (k_metadata stub) (k_metadata call)).

(* ---------------------------------------------------------------------------
   messages on the wire.  A message object is (identity of its class, its
   serialised bytes); grpclib's ProtoCodec.encode checks isinstance against the
   type given to channel.request / Handler and calls SerializeToString;
   decode is  message_type.FromString(bytes).  bytes <-> object is C01's subject.
   (isinstance is modelled as class equality: subclasses of generated messages
   are outside the model.)
   --------------------------------------------------------------------------- *)
Definition msg := (str * list byte)%type.

Definition decode_as (t : str) (b : list byte) : msg := (t, b).

Fixpoint encode_all (t : str) (ms : list msg) : option (list (list byte)) :=
  match ms with
  | [] => Some []
  | m :: r =>
      if str_eqb (fst m) t
      then match encode_all t r with Some bs => Some (snd m :: bs) | None => None end
      else None
  end.

(* ---------------------------------------------------------------------------
   template site 2: class <Service>Base
   --------------------------------------------------------------------------- *)
(* the default method bodies:  raise GRPCError(UNIMPLEMENTED)  [+ unreachable yield when server streaming] *)
Definition base_defaults (svc : service) : list (str * bool) :=
  map (fun m => (m_py m, m_ss m)) (s_methods svc).

(* the adapters  async def __rpc_<py_name>(self, stream)  : (client_streaming, server_streaming) it was rendered with *)
Definition base_adapters (svc : service) : list (str * (bool * bool)) :=
  map (fun m => (m_py m, (m_cs m, m_ss m))) (s_methods svc).

Record handler_entry := HEntry {
  h_rpc : str;      (* self.__rpc_<py_name> *)
  h_card : card;
  h_in : str;       (* request_type *)
  h_out : str       (* reply_type *)
}.

(* {% if not cs and not ss %} UU {% elif not cs and ss %} US {% elif cs and not ss %} SU {% else %} SS *)
Definition mapping_card (m : method) : card :=
  if negb (m_cs m) && negb (m_ss m) then UNARY_UNARY
  else if negb (m_cs m) && m_ss m then UNARY_STREAM
  else if m_cs m && negb (m_ss m) then STREAM_UNARY
  else STREAM_STREAM.

Definition mapping_entry (svc : service) (m : method) : str * handler_entry :=
  (route svc m, HEntry (m_py m) (mapping_card m) (m_in m) (m_out m)).

Definition mapping (svc : service) : list (str * handler_entry) :=
  map (mapping_entry svc) (s_methods svc).

(* grpclib.server.request_handler:  method = mapping.get(headers[':path']) *)
Definition dispatch (mp : list (str * handler_entry)) (r : str) : option handler_entry :=
  assoc_last mp r.

(* ---------------------------------------------------------------------------
   user code: a subclass of <Service>Base overriding methods by PYTHON name
   --------------------------------------------------------------------------- *)
Inductive hinput :=
| InOne (r : option msg)     (* await stream.recv_message(): None when the client ended without a message *)
| InMany (l : list msg).     (* stream.__aiter__(): everything the client sends, in order *)

Inductive ret1 := RetMsg (m : msg) | RetNone | Raise1 (st : Z).

Inductive hbody :=
| HCoro (f : hinput -> ret1)                       (* `async def` without yield: returns a message / None, or raises GRPCError(st) *)
| HGen (f : hinput -> list msg * option Z).        (* async generator: yields in order, then returns (None) or raises GRPCError(st) *)

Definition impl := str -> option hbody.

Definition default_body (ss : bool) : hbody :=
  if ss then HGen (fun _ => ([], Some ST_UNIMPLEMENTED))
  else HCoro (fun _ => Raise1 ST_UNIMPLEMENTED).

(* attribute lookup self.<py>: the subclass first, then the (last) default of the base class *)
Definition resolve_handler (svc : service) (im : impl) (py : str) : option hbody :=
  match im py with
  | Some h => Some h
  | None => option_map default_body (assoc_last (base_defaults svc) py)
  end.

(* request = await stream.recv_message()   |   request = stream.__aiter__() *)
Definition adapter_input (cs : bool) (reqs : list msg) : hinput :=
  if cs then InMany reqs else InOne (hd_error reqs).

(* the adapter body. Result: (handler bodies that ran, with their input; messages handed to
   stream.send_message in order; exception that left the adapter as a gRPC status).
     not ss:  response = await self.<py>(request); await stream.send_message(response)
     ss:      ServiceBase._call_rpc_handler_server_stream — an AsyncIterable is drained into
              send_message; a coroutine object (method body without `yield`) is awaited: it sends
              nothing, but it runs and its GRPCError is raised.
              [this mirrors the tree WITH fixes/c11-server-stream-coroutine.patch; the pinned code
               calls .close() on the coroutine instead, so the body never runs — see
               GrpcP.pinned_close_skips_handler and C11_ss_coroutine_pinned_refuted] *)
Definition run_adapter (ss : bool) (py : str) (h : hbody) (inp : hinput)
  : list (str * hinput) * list msg * option Z :=
  if ss then
    match h with
    | HGen f => let '(ys, st) := f inp in ([(py, inp)], ys, st)
    | HCoro f =>
        match f inp with
        | Raise1 st => ([(py, inp)], [], Some st)
        | _ => ([(py, inp)], [], None)
        end
    end
  else
    match h with
    | HCoro f =>
        match f inp with
        | RetMsg y => ([(py, inp)], [y], None)
        | RetNone => ([(py, inp)], [], Some ST_UNKNOWN)      (* send_message(None): codec TypeError *)
        | Raise1 st => ([(py, inp)], [], Some st)
        end
    | HGen _ => ([], [], Some ST_UNKNOWN)                    (* `await <async generator>`: TypeError *)
    end.

(* grpclib.server.Stream.send_message / __aexit__ for the Cardinality of the mapping entry:
   a non-server-streaming entry accepts one message ("Message was already sent" -> UNKNOWN) and
   needs one for an OK status; every message must be an instance of reply_type (else UNKNOWN);
   messages already sent stay sent. *)
Fixpoint send_all (single sent : bool) (out_ty : str) (ys : list msg) (st : option Z)
  : list msg * option Z :=
  match ys with
  | [] =>
      ([], if single && negb sent
           then match st with None => Some ST_UNKNOWN | Some s => Some s end
           else st)
  | y :: r =>
      if single && sent then ([], Some ST_UNKNOWN)
      else if str_eqb (fst y) out_ty
           then let '(a, s) := send_all single true out_ty r st in (y :: a, s)
           else ([], Some ST_UNKNOWN)
  end.

Record server_out := SOut {
  so_trace : list (str * hinput);     (* user/default handler bodies that ran *)
  so_wire : list (list byte);         (* response messages, serialised, in order *)
  so_status : option Z                (* None = OK *)
}.

Definition serve (svc : service) (im : impl) (r : str) (wire_reqs : list (list byte)) : server_out :=
  match dispatch (mapping svc) r with
  | None => SOut [] [] (Some ST_UNIMPLEMENTED)         (* grpclib: 'Method not found' *)
  | Some e =>
      match assoc_last (base_adapters svc) (h_rpc e), resolve_handler svc im (h_rpc e) with
      | Some (cs, ss), Some h =>
          let reqs := map (decode_as (h_in e)) wire_reqs in
          let '(tr, ys, st) := run_adapter ss (h_rpc e) h (adapter_input cs reqs) in
          let '(sent, st') := send_all (negb (card_ss (h_card e))) false (h_out e) ys st in
          SOut tr (map snd sent) st'
      | _, _ => SOut [] [] (Some ST_UNKNOWN)           (* unreachable: see GrpcP.mapping_adapter_defined *)
      end
  end.

(* ---------------------------------------------------------------------------
   the caller's side
   --------------------------------------------------------------------------- *)
Inductive cend := CDone | CGrpc (st : Z) | CExc.   (* returned / GRPCError(st) / some other exception *)

Record cres := CRes { cr_msgs : list msg; cr_end : cend }.

Definition end_of (st : option Z) : cend := match st with None => CDone | Some s => CGrpc s end.

(* _unary_unary/_stream_unary: response = await stream.recv_message(); leaving the `async with`
   raises GRPCError for a non-OK status; then `assert response is not None`.
   _unary_stream/_stream_stream: every message is yielded, then the status is raised. *)
Definition client_recv (h : helper) (resp_ty : str) (so : server_out) : cres :=
  let ms := map (decode_as resp_ty) (so_wire so) in
  if helper_returns_iterator h then CRes ms (end_of (so_status so))
  else match so_status so with
       | Some s => CRes [] (CGrpc s)
       | None => match ms with [] => CRes [] CExc | r :: _ => CRes [r] CDone end
       end.

Inductive carg := ArgOne (r : msg) | ArgIter (l : list msg).

Record request_info := RInfo {
  ri_route : str; ri_card : card; ri_req_ty : str; ri_resp_ty : str; ri_kw : kw
}.

Record observation := Obs {
  ob_req : request_info;                 (* what reached channel.request *)
  ob_trace : list (str * hinput);        (* which handler bodies ran, with what *)
  ob_res : cres                          (* what the caller got *)
}.

(* WHAT THE MODEL CANNOT EXPRESS about a stream-stream call: [call] takes the whole request stream as a list
   and returns the whole response stream as a list, so it says WHICH messages travel and in WHAT ORDER on each
   side, not how sending and receiving are interleaved in time.  ServiceStub._stream_stream sends from a
   background task (asyncio.ensure_future(self._send_messages(...))) while it yields responses; a caller whose
   request iterator produces request i+1 only after it has seen response i (a conversation) depends on that
   overlap.  Whether the overlap exists is a property of the asyncio schedule, outside this model: it is checked
   by the harness only (real "ping-pong" calls under a watchdog, for every stream-stream method), and the
   theorems are labelled partial for it.

   stub.<py>(arg, timeout=, deadline=, metadata=) on a stub constructed with [skw].
   None: outside the model (no such attribute; an iterator where a message is expected or
   the reverse — Python raises before anything is sent). A stream containing a message of the
   wrong class makes the codec raise on the client after the request was opened; the model
   reports CExc with an empty trace and that case is NOT tied to the implementation. *)
Definition call (svc : service) (im : impl) (skw : kw) (py : str) (arg : carg) (ckw : kw)
  : option observation :=
  match assoc_last (stub_class svc) py with
  | None => None
  | Some d =>
      let h := sd_helper d in
      let kwr := resolve_kwargs skw ckw in
      match helper_takes_iterator h, arg with
      | false, ArgOne r =>
          (* type(request) is what the two unary helpers pass as request_type *)
          let so := serve svc im (sd_route d) [snd r] in
          Some (Obs (RInfo (sd_route d) (helper_card h) (fst r) (sd_out d) kwr)
                    (so_trace so) (client_recv h (sd_out d) so))
      | true, ArgIter rs =>
          let ri := RInfo (sd_route d) (helper_card h) (sd_in d) (sd_out d) kwr in
          match encode_all (sd_in d) rs with
          | Some bs =>
              let so := serve svc im (sd_route d) bs in
              Some (Obs ri (so_trace so) (client_recv h (sd_out d) so))
          | None => Some (Obs ri [] (CRes [] CExc))
          end
      | _, _ => None
      end
  end.

(* a call that bypasses the stub (another gRPC client): used to exhibit what a
   route of the mapping does when Python names collide *)
Definition raw_call (svc : service) (im : impl) (r : str) (resp_streaming : bool) (resp_ty : str)
  (wire_reqs : list (list byte)) : list (str * hinput) * cres :=
  let so := serve svc im r wire_reqs in
  (so_trace so,
   client_recv (if resp_streaming then H_unary_stream else H_unary_unary) resp_ty so).

(* ---------------------------------------------------------------------------
   canonical values for the correspondence check
   --------------------------------------------------------------------------- *)
Definition cv_str (s : str) : cv := CB s.
Definition cv_card (c : card) : cv :=
  CZ (match c with UNARY_UNARY => 0 | UNARY_STREAM => 1 | STREAM_UNARY => 2 | STREAM_STREAM => 3 end).
Definition cv_helper (h : helper) : cv :=
  CZ (match h with H_unary_unary => 0 | H_unary_stream => 1 | H_stream_unary => 2 | H_stream_stream => 3 end).
Definition cv_optz (o : option Z) : cv := copt CZ o.
Definition cv_msg (m : msg) : cv := CL [CB (fst m); CB (snd m)].
Definition cv_msgs (l : list msg) : cv := CL (map cv_msg l).
Definition cv_kw (k : kw) : cv := CL [cv_optz (k_timeout k); cv_optz (k_deadline k); cv_optz (k_metadata k)].
Definition cv_hinput (i : hinput) : cv :=
  match i with InOne r => CL [CZ 0; copt cv_msg r] | InMany l => CL [CZ 1; cv_msgs l] end.
Definition cv_trace (t : list (str * hinput)) : cv :=
  CL (map (fun e => CL [CB (fst e); cv_hinput (snd e)]) t).
Definition cv_end (e : cend) : cv :=
  match e with CDone => CZ 0 | CGrpc s => CL [CZ 1; CZ s] | CExc => CZ 2 end.
Definition cv_cres (r : cres) : cv := CL [cv_msgs (cr_msgs r); cv_end (cr_end r)].
Definition cv_rinfo (r : request_info) : cv :=
  CL [CB (ri_route r); cv_card (ri_card r); CB (ri_req_ty r); CB (ri_resp_ty r); cv_kw (ri_kw r)].
Definition cv_obs (o : option observation) : cv :=
  copt (fun o => CL [cv_rinfo (ob_req o); cv_trace (ob_trace o); cv_cres (ob_res o)]) o.
(* the same without the trace (calls whose handler the harness cannot instrument: defaults) *)
Definition cv_obs_notrace (o : option observation) : cv :=
  copt (fun o => CL [cv_rinfo (ob_req o); cv_cres (ob_res o)]) o.

(* only what reached channel.request (calls whose resolved timeout is 0: expired before they start) *)
Definition cv_obs_reqonly (o : option observation) : cv := copt (fun o => cv_rinfo (ob_req o)) o.

(* reflected class contents *)
(* the two unary helpers are not given the declared input type: nothing to reflect there *)
Definition cv_stub_def (d : stub_def) : cv :=
  CL [cv_helper (sd_helper d); CB (sd_route d);
      CB (if helper_takes_iterator (sd_helper d) then sd_in d else []); CB (sd_out d)].
(* getattr(Stub, py) for every py in [pys] *)
Definition cv_stub_lookup (svc : service) (pys : list str) : cv :=
  CL (map (fun p => copt cv_stub_def (assoc_last (stub_class svc) p)) pys).
Definition cv_entry (e : handler_entry) : cv :=
  CL [CB (h_rpc e); cv_card (h_card e); CB (h_in e); CB (h_out e)].
(* Base().__mapping__().get(route) for every route in [rs] *)
Definition cv_dispatch (svc : service) (rs : list str) : cv :=
  CL (map (fun r => copt cv_entry (dispatch (mapping svc) r)) rs).
(* which (cs, ss) the adapter that __rpc_<py> resolves to was rendered with *)
Definition cv_adapters (svc : service) (pys : list str) : cv :=
  CL (map (fun p => copt (fun f => CL [cbool (fst f); cbool (snd f)]) (assoc_last (base_adapters svc) p)) pys).
Definition cv_raw (r : list (str * hinput) * cres) : cv := CL [cv_trace (fst r); cv_cres (snd r)].

(* scripted handlers the harness installs: kind, fixed responses, final status *)
Definition scripted (gen : bool) (ys : list msg) (st : option Z) : hbody :=
  if gen then HGen (fun _ => (ys, st))
  else HCoro (fun _ => match st with
                       | Some s => Raise1 s
                       | None => match ys with y :: _ => RetMsg y | [] => RetNone end
                       end).

Definition impl_of (l : list (str * hbody)) : impl :=
  fun py => assoc_last l py.

(* ---------------------------------------------------------------------------
   T1: comparison of reflection tables (harness/gen_c11.py: what a probe service rendered by the
   live plugin does) with the functions above.  Parameterised by the tables so that the harness can
   also evaluate it on a reflection made during the run (independent of coq/gen/C11Tables.v).
   --------------------------------------------------------------------------- *)
Definition flags_method (cs ss : bool) : method := Method [] [] cs ss [] [].

Definition helper_eqb (a c : helper) : bool :=
  match a, c with
  | H_unary_unary, H_unary_unary | H_unary_stream, H_unary_stream
  | H_stream_unary, H_stream_unary | H_stream_stream, H_stream_stream => true
  | _, _ => false
  end.

Fixpoint str_pairs_eqb (a c : list (str * str)) : bool :=
  match a, c with
  | [], [] => true
  | (x, y) :: a', (x', y') :: c' => str_eqb x x' && str_eqb y y' && str_pairs_eqb a' c'
  | _, _ => false
  end.

Definition routes_of (svc : service) : list (str * str) := map (fun m => (m_name m, route svc m)) (s_methods svc).

Section TablesOk.
  Variable stub_sites : list (bool * bool * helper * bool).
  Variable helper_sites : list (helper * card * bool * bool * bool).
  Variable mapping_sites : list (bool * bool * card * bool).
  Variable default_status : list (bool * bool * Z).
  Variable status_unimplemented status_unknown : Z.
  Variable probe_service : service.
  Variable probe_stub_routes probe_mapping_routes : list (str * str).
  Variable bare_service : service.
  Variable bare_mapping_route : str.

  (* each check: a row for the flags exists, and every row for the flags says what the model says *)
  Definition stub_site_ok (cs ss : bool) : bool :=
    existsb (fun '(c, s, h, ok) => Bool.eqb c cs && Bool.eqb s ss && helper_eqb h (stub_helper (flags_method cs ss)) && ok)
            stub_sites
    && forallb (fun '(c, s, h, ok) => negb (Bool.eqb c cs && Bool.eqb s ss) || (helper_eqb h (stub_helper (flags_method cs ss)) && ok))
            stub_sites.

  Definition helper_site_ok (h : helper) : bool :=
    existsb (fun '(h', c, o1, o2, o3) => helper_eqb h' h && card_eqb c (helper_card h) && o1 && o2 && o3) helper_sites
    && forallb (fun '(h', c, o1, o2, o3) => negb (helper_eqb h' h) || (card_eqb c (helper_card h) && o1 && o2 && o3)) helper_sites.

  Definition mapping_site_ok (cs ss : bool) : bool :=
    existsb (fun '(c, s, cd, ok) => Bool.eqb c cs && Bool.eqb s ss && card_eqb cd (mapping_card (flags_method cs ss)) && ok)
            mapping_sites
    && forallb (fun '(c, s, cd, ok) => negb (Bool.eqb c cs && Bool.eqb s ss) || (card_eqb cd (mapping_card (flags_method cs ss)) && ok))
            mapping_sites.

  Definition default_site_ok (cs ss : bool) : bool :=
    existsb (fun '(c, s, st) => Bool.eqb c cs && Bool.eqb s ss && Z.eqb st ST_UNIMPLEMENTED) default_status
    && forallb (fun '(c, s, st) => negb (Bool.eqb c cs && Bool.eqb s ss) || Z.eqb st ST_UNIMPLEMENTED) default_status.

  Definition tables_ok_of : bool :=
    forallb (fun cs => forallb (fun ss => stub_site_ok cs ss && mapping_site_ok cs ss && default_site_ok cs ss) [false; true]) [false; true]
    && forallb helper_site_ok [H_unary_unary; H_unary_stream; H_stream_unary; H_stream_stream]
    && Z.eqb status_unimplemented ST_UNIMPLEMENTED && Z.eqb status_unknown ST_UNKNOWN
    && str_pairs_eqb (routes_of probe_service) probe_stub_routes
    && str_pairs_eqb (routes_of probe_service) probe_mapping_routes
    && match s_methods bare_service with
       | [m] => str_eqb (route bare_service m) bare_mapping_route
       | _ => false
       end.
End TablesOk.
