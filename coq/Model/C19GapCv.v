(* C19, evaluation helpers of the check (harness/props/c19.py, stage "gap tie"): observables of the SPECIFICATION-side
   predicates the gap-closing theorems are stated over (keys_back / legacy_rule_ok / json_rule_ok / fields_of:
   Model/C19GapDefs.v) as canonical values, so that the check can compare them with what a real message class built from
   the same proto field names does (from_dict on the keys to_dict emits and on the proto names), with a second, Python-side
   reading of the two protoc rules, and with the verdict of the real protoc.
   No proofs, nothing of the model is changed. *)
From BP Require Import Base.Prelude Model.Casing Model.C19GapDefs.
From BP Require Spec.JsonMap.

Definition cvb (x : bool) : cv := CZ (if x then 1 else 0)%Z.

(* the three conjuncts of keys_back, one by one: camelCase key, snake_case key, proto name *)
Definition keys_back3 (names : list (list byte)) (s : list byte) : cv :=
  let fs := fields_of names in
  let F := pythonize_field_name s in
  CL [cvb (opt_is (field_for_key fs (camel_key F)) F);
      cvb (opt_is (field_for_key fs (snake_key F)) F);
      cvb (opt_is (field_for_key fs s) F)].

(* what depends on the names only: attributes, the two rules, the keys and the two keys protoc compares *)
Definition gap_names (names : list (list byte)) : cv :=
  CL [CL (map CB (fields_of names));
      cvb (legacy_rule_ok names);
      cvb (json_rule_ok names);
      CL (map (fun s => CL [CB (camel_key (pythonize_field_name s)); CB (snake_key (pythonize_field_name s))]) names);
      CL (map (fun s => CL [CB (legacy_key s); CB (JsonMap.protoc_json_name s)]) names)].

(* ... and what the class does with the keys: keys_back itself and its conjuncts per field, "every field" per conjunct *)
Definition gap_class (names : list (list byte)) : cv :=
  CL [gap_names names;
      CL (map (fun s => cvb (keys_back names s)) names);
      CL (map (keys_back3 names) names);
      cvb (forallb (keys_back names) names)].

(* attributes and the two rules only (lists with an attribute no class can be built with: a name of the Message API) *)
Definition gap_rules (names : list (list byte)) : cv :=
  CL [CL (map CB (fields_of names)); cvb (legacy_rule_ok names); cvb (json_rule_ok names)].

Definition gap_json_rule (names : list (list byte)) : cv := cvb (json_rule_ok names).
