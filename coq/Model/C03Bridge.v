(* C03 bridge — from the plugin model's class table (Spec/Descriptor.v [class_table], what
   [reflect (compile D)] / [class_table_of D] produce) to the runtime codec model's schema
   (Model/Object.v [schema]), the way harness/msggen.py numbers things:

     * the 11 bundled classes first ([builtin_classes]: Timestamp, Duration, the nine wrappers);
     * then ONE [cdesc] per generated MESSAGE class, in the order of the table (modules in order, classes
       in definition order; enum classes skipped): model index = NB + position;
     * then one synthetic Entry class per map field, in the order (class, field): index
       NB + #message classes + k for the k-th map field of the whole table;
     * the enum table: one [edesc] per generated ENUM class, in the order of the table;
     * a resolved hint [PyRef module cls] becomes [PyMsg i] / [PyEnum j] by looking the class up BY NAME
       in the table (first class of that module with that name, as Python's module namespace does);
     * oneof groups are numbered per class in order of first appearance among its fields;
     * [wraps] / [proto_type] / [map_types] strings (the values of the betterproto.TYPE_ constants) become [ptype]s;
       Optional[X] (proto3 optional, wrapper) / List[X] / Dict[K, V] become HOptional / HList / HDict;
       datetime / timedelta become PyDatetime / PyTimedelta (decoded through bundled classes 0 / 1).

   [schema_of_table] is total; what the runtime model has no counterpart for (a reference to a class that is
   not in the table, Optional inside List / Dict, an unknown TYPE_ string) is translated to a value on which
   [wf_schema] is false ([PyMsg 0], [TMap] outside a Dict hint).

   Also here: the decidable side conditions of the bridge theorems ([table_ok] on tables, [bridge_ok] on
   descriptors) and [cv_schema] (canonical value of a schema, for the executable comparison with the schema
   the harness derives from the REAL generated classes).  No proofs here. *)
From BP Require Import Base.Prelude Model.Types Spec.Descriptor Model.Object Model.WellFormed.
From BP Require gen.Tables.
From Coq Require String.
Import String.StringSyntax.
Delimit Scope string_scope with string.

(* both Spec.Descriptor (type hints of generated classes, [pytype]) and Model.Object (what the runtime looks at,
   [pyty]) call their constructors PyInt ...: unqualified names are Model.Object's, Descriptor's are qualified *)

Definition NB : nat := length builtin_classes.

(* ---- the values of the betterproto.TYPE_ constants ---- *)
Definition bs_ (s : String.string) : str := String.list_byte_of_string s.
Definition ptype_names : list (str * ptype) := Eval vm_compute in
  [(bs_ "enum"%string, TEnum); (bs_ "bool"%string, TBool); (bs_ "int32"%string, TInt32); (bs_ "int64"%string, TInt64);
   (bs_ "uint32"%string, TUInt32); (bs_ "uint64"%string, TUInt64); (bs_ "sint32"%string, TSInt32); (bs_ "sint64"%string, TSInt64);
   (bs_ "float"%string, TFloat); (bs_ "double"%string, TDouble); (bs_ "fixed32"%string, TFixed32); (bs_ "sfixed32"%string, TSFixed32);
   (bs_ "fixed64"%string, TFixed64); (bs_ "sfixed64"%string, TSFixed64); (bs_ "string"%string, TString); (bs_ "bytes"%string, TBytes);
   (bs_ "message"%string, TMessage); (bs_ "map"%string, TMap)].
Definition ptype_of_str (s : str) : option ptype := lookup s ptype_names.
(* an unknown string: TMap, which no well-formed field carries outside a Dict hint *)
Definition ptype_or_bad (s : str) : ptype := match ptype_of_str s with Some t => t | None => TMap end.

(* ---- the classes of a table, flattened: (module, class name, body) in definition order ---- *)
Definition row : Type := (str * str * py_body)%type.
Definition class_rows (t : class_table) : list row :=
  flat_map (fun m => map (fun c => (fst m, fst c, snd c)) (snd m)) t.
Definition msg_rows (R : list row) : list (list py_field) :=
  flat_map (fun r => match snd r with ClsMessage fs => [fs] | ClsEnum _ => [] end) R.
Definition enum_rows (R : list row) : list (list (str * Z)) :=
  flat_map (fun r => match snd r with ClsEnum ms => [ms] | ClsMessage _ => [] end) R.

(* the class a resolved hint denotes: first row of that module with that name; nm / ne count the message /
   enum rows passed so far *)
Fixpoint resolve_ref (mo cl : str) (l : list row) (nm ne : nat) : option pyty :=
  match l with
  | [] => None
  | (m, c, body) :: r =>
      if str_eqb mo m && str_eqb cl c then
        Some (match body with ClsMessage _ => PyMsg (NB + nm) | ClsEnum _ => PyEnum ne end)
      else match body with
           | ClsMessage _ => resolve_ref mo cl r (S nm) ne
           | ClsEnum _ => resolve_ref mo cl r nm (S ne)
           end
  end.

Definition pyty_of (R : list row) (t : pytype) : option pyty :=
  match t with
  | Descriptor.PyInt => Some PyInt
  | Descriptor.PyFloat => Some PyFloat
  | Descriptor.PyBool => Some PyBool
  | Descriptor.PyStr => Some PyStr
  | Descriptor.PyBytes => Some PyBytes
  | Descriptor.PyDatetime => Some PyDatetime
  | Descriptor.PyTimedelta => Some PyTimedelta
  | PyRef mo cl => resolve_ref mo cl R 0 0
  | PyOptional _ | PyList _ | PyDict _ _ => None
  end.
(* no counterpart: a class index below the bundled classes' end, which fits no proto type *)
Definition pyty_or_bad (R : list row) (t : pytype) : pyty :=
  match pyty_of R t with Some p => p | None => PyMsg 0 end.

Definition hint_of (R : list row) (t : pytype) : hint :=
  match t with
  | PyList e => HList (pyty_or_bad R e)
  | PyDict k v => HDict (pyty_or_bad R k) (pyty_or_bad R v)
  | PyOptional e => HOptional (pyty_or_bad R e)
  | e => HPlain (pyty_or_bad R e)
  end.

(* ---- oneof groups of one class: names in order of first appearance ---- *)
Fixpoint index_of (g : str) (l : list str) : option nat :=
  match l with
  | [] => None
  | x :: r => if str_eqb g x then Some O else option_map S (index_of g r)
  end.
Fixpoint dedup (l : list str) : list str :=
  match l with
  | [] => []
  | x :: r => x :: filter (fun y => negb (str_eqb x y)) (dedup r)
  end.
Definition group_names (fs : list py_field) : list str :=
  dedup (flat_map (fun f => match pf_group f with Some g => [g] | None => [] end) fs).

(* ---- fields, classes ---- *)
Definition is_mapf (f : py_field) : bool := match pf_map_types f with Some _ => true | None => false end.
Definition map_fields (fs : list py_field) : list py_field := filter is_mapf fs.

Definition tr_field (R : list row) (groups : list str) (entry : nat) (f : py_field) : fdesc :=
  mkF (pf_name f) (pf_number f) (ptype_or_bad (pf_proto_type f))
      (match pf_map_types f with Some (k, v) => Some (ptype_or_bad k, ptype_or_bad v) | None => None end)
      (match pf_group f with Some g => index_of g groups | None => None end)
      (match pf_wraps f with Some w => Some (ptype_or_bad w) | None => None end)
      (pf_optional f)
      (hint_of R (pf_hint f))
      (if is_mapf f then entry else O).

(* [k]: the index of the Entry class of the next map field *)
Fixpoint tr_fields (R : list row) (groups : list str) (k : nat) (fs : list py_field) : list fdesc :=
  match fs with
  | [] => []
  | f :: r => tr_field R groups k f :: tr_fields R groups (if is_mapf f then S k else k) r
  end.

Definition tr_class (R : list row) (k : nat) (fs : list py_field) : cdesc :=
  let gs := group_names fs in mkC (tr_fields R gs k fs) (length gs).

Fixpoint tr_classes (R : list row) (k : nat) (cs : list (list py_field)) : list cdesc :=
  match cs with
  | [] => []
  | fs :: r => tr_class R k fs :: tr_classes R (k + length (map_fields fs)) r
  end.

(* _get_cls_by_field: make_dataclass("Entry", [("key", K, field(1, kt)), ("value", V, field(2, vt))]) *)
Definition key_name : list byte := [x6b; x65; x79].
Definition entry_class (R : list row) (f : py_field) : cdesc :=
  match pf_map_types f with
  | Some (kn, vn) =>
      let '(k, v) := match pf_hint f with PyDict k v => (k, v) | h => (PyOptional h, PyOptional h) end in
      mkC [mkF key_name 1 (ptype_or_bad kn) None None None false (HPlain (pyty_or_bad R k)) O;
           mkF value_name 2 (ptype_or_bad vn) None None None false (HPlain (pyty_or_bad R v)) O] O
  | None => empty_class
  end.

Definition schema_of_table (t : class_table) : schema :=
  let R := class_rows t in
  let ms := msg_rows R in
  mkS (builtin_classes ++ tr_classes R (NB + length ms) ms ++ map (entry_class R) (flat_map map_fields ms))
      (map mkE (enum_rows R)).

(* ==========================================================================================
   side condition on a TABLE: every field's metadata and hint are of a shape the runtime model has
   ========================================================================================== *)
(* the Python type fits the proto type, class indices aside *)
Definition fits0 (t : ptype) (p : pyty) : bool :=
  match t, p with
  | TEnum, PyEnum _ => true
  | TBool, PyBool => true
  | (TInt32 | TInt64 | TUInt32 | TUInt64 | TSInt32 | TSInt64 | TFixed32 | TSFixed32 | TFixed64 | TSFixed64), PyInt => true
  | (TFloat | TDouble), PyFloat => true
  | TString, PyStr => true
  | TBytes, PyBytes => true
  | TMessage, (PyMsg _ | PyDatetime | PyTimedelta) => true
  | _, _ => false
  end.
Definition elem_ok (R : list row) (t : ptype) (e : pytype) : bool :=
  match pyty_of R e with Some q => fits0 t q | None => false end.
Definition is_none {A} (o : option A) : bool := match o with Some _ => false | None => true end.

Definition pf_ok (R : list row) (f : py_field) : bool :=
  (1 <=? pf_number f) && (pf_number f <? 2 ^ 29) &&
  match ptype_of_str (pf_proto_type f) with
  | None => false
  | Some ty =>
      match pf_hint f with
      | PyDict k v =>
          ptype_eqb ty TMap && negb (pf_optional f) && is_none (pf_wraps f) && is_none (pf_group f) &&
          match pf_map_types f with
          | Some (kn, vn) =>
              match ptype_of_str kn, ptype_of_str vn with
              | Some kt, Some vt => map_key_ok kt && elem_ok R kt k && elem_ok R vt v
              | _, _ => false
              end
          | None => false
          end
      | PyList e =>
          negb (pf_optional f) && is_none (pf_wraps f) && is_none (pf_group f) && is_none (pf_map_types f) &&
          elem_ok R ty e
      | PyOptional e =>
          is_none (pf_map_types f) && is_none (pf_group f) &&
          match pf_wraps f with
          | Some wn =>
              negb (pf_optional f) && ptype_eqb ty TMessage &&
              match ptype_of_str wn with
              | Some w => is_some' (wrapper_cls w) &&
                          match Tables.wrapper_value_type w with Some vt => elem_ok R vt e | None => false end
              | None => false
              end
          | None => pf_optional f && elem_ok R ty e
          end
      | e =>
          negb (pf_optional f) && is_none (pf_wraps f) && is_none (pf_map_types f) && elem_ok R ty e
      end
  end.

Definition table_ok (t : class_table) : bool :=
  let R := class_rows t in
  forallb (fun fs => nodup_z (map pf_number fs) && forallb (pf_ok R) fs) (msg_rows R).

(* ==========================================================================================
   side condition on a DESCRIPTOR SET, beyond protoc_wf and names_ok.
   [P] = protoc guarantees it of every file it accepts;  [M] = a limit of the runtime model's wf_schema
   (betterproto itself handles the shape);  [L] = outside what the runtime model has classes for.
   ========================================================================================== *)
Definition is_wrapper_name (tn : str) : bool := is_some' (lookup tn wkt_wrappers).
Definition is_wkt_name (tn : str) : bool :=
  is_wrapper_name tn || str_eqb tn wkt_duration || str_eqb tn wkt_timestamp.

(* the type of one value of field [f] is a scalar, a wrapper / Timestamp / Duration used as a MESSAGE type [P], or a
   message (not a map-entry type [P]) / enum of a generated package, i.e. not another google.protobuf type
   (Any, Struct, Empty, FieldMask, NullValue ...) [L] *)
Definition vref_ok (D : descriptor) (f : field_d) : bool :=
  match scalar_kind (fd_type f) with
  | Some _ => true
  | None =>
      if is_wkt_name (fd_type_name f) then fd_type f =? T_MESSAGE
      else match resolve D (fd_type_name f) with
           | Some (SymMsg pkg _ m) => negb (str_eqb pkg google_protobuf) && negb (md_map_entry m)
           | Some (SymEnum pkg _ _) => negb (str_eqb pkg google_protobuf)
           | None => false
           end
  end.

(* int32 int64 uint32 uint64 sint32 sint64 fixed32 fixed64 sfixed32 sfixed64 bool string [P] *)
Definition key_kind_ok (t : Z) : bool :=
  zmem t [T_INT64; T_UINT64; T_INT32; T_FIXED64; T_FIXED32; T_BOOL; T_STRING; T_UINT32; T_SFIXED32; T_SFIXED64;
          T_SINT32; T_SINT64].

Definition real_oneof (f : field_d) : bool :=
  match fd_oneof_index f with Some _ => negb (fd_proto3_optional f) | None => false end.

Definition plain_ok (D : descriptor) (f : field_d) : bool :=
  let rep := fd_label f =? L_REPEATED in
  vref_ok D f
  (* a wrapper-typed field is singular, outside every oneof and not proto3-optional [M] *)
  && (negb (is_wrapper_name (fd_type_name f)) || negb rep && negb (fd_proto3_optional f) && negb (real_oneof f))
  (* a repeated field is neither a oneof member nor proto3-optional [P] *)
  && (negb rep || negb (fd_proto3_optional f) && negb (real_oneof f)).

(* map<K, V>: K of a key kind [P], V not a wrapper (a REAL defect of the runtime: see C03_map_wrapper_value_refuted) *)
Definition map_kv_ok (D : descriptor) (k v : field_d) : bool :=
  key_kind_ok (fd_type k) && vref_ok D v && negb (is_wrapper_name (fd_type_name v)).

Definition msg_bridge_ok (D : descriptor) (pkg : str) (pm : list str * msg_d) : bool :=
  let m := snd pm in
  (* field numbers pairwise distinct and in 1 .. 2^29 - 1 [P] *)
  nodup_z (map fd_number (md_fields m))
  && forallb (fun f =>
       (1 <=? fd_number f) && (fd_number f <? 2 ^ 29)
       && match spec_map_entry pkg (fst pm) m f with
          | Some e => match field_numbered 1 e, field_numbered 2 e with
                      | Some k, Some v => map_kv_ok D k v
                      | _, _ => false
                      end
          | None => plain_ok D f
          end) (md_fields m).

(* the messages of every generated package (google.protobuf is not generated; map-entry types are not classes) *)
Definition bridge_ok (D : descriptor) : bool :=
  forallb (fun f => str_eqb (fl_package f) google_protobuf
                    || forallb (fun pm => md_map_entry (snd pm) || msg_bridge_ok D (fl_package f) pm) (file_msgs f)) D.

(* ==========================================================================================
   what a descriptor field means for the runtime, read DIRECTLY off descriptor.proto's numbering and the
   well-known type names (no TYPE_ strings, no class table): the yardstick of C03_class_faithful
   ========================================================================================== *)
Definition ptype_of_dtype (t : Z) : option ptype :=
  if t =? T_DOUBLE then Some TDouble else if t =? T_FLOAT then Some TFloat
  else if t =? T_INT64 then Some TInt64 else if t =? T_UINT64 then Some TUInt64
  else if t =? T_INT32 then Some TInt32 else if t =? T_FIXED64 then Some TFixed64
  else if t =? T_FIXED32 then Some TFixed32 else if t =? T_BOOL then Some TBool
  else if t =? T_STRING then Some TString else if t =? T_MESSAGE then Some TMessage
  else if t =? T_BYTES then Some TBytes else if t =? T_UINT32 then Some TUInt32
  else if t =? T_ENUM then Some TEnum else if t =? T_SFIXED32 then Some TSFixed32
  else if t =? T_SFIXED64 then Some TSFixed64 else if t =? T_SINT32 then Some TSInt32
  else if t =? T_SINT64 then Some TSInt64 else None.

(* wrappers.proto: the scalar type of the `value` field of each wrapper message *)
Definition wrapper_ptypes : list (str * ptype) := Eval vm_compute in
  [(bs_ ".google.protobuf.DoubleValue"%string, TDouble); (bs_ ".google.protobuf.FloatValue"%string, TFloat);
   (bs_ ".google.protobuf.Int64Value"%string, TInt64); (bs_ ".google.protobuf.UInt64Value"%string, TUInt64);
   (bs_ ".google.protobuf.Int32Value"%string, TInt32); (bs_ ".google.protobuf.UInt32Value"%string, TUInt32);
   (bs_ ".google.protobuf.BoolValue"%string, TBool); (bs_ ".google.protobuf.StringValue"%string, TString);
   (bs_ ".google.protobuf.BytesValue"%string, TBytes)].
Definition wrapped_ptype (f : field_d) : option ptype :=
  if fd_type f =? T_MESSAGE then lookup (fd_type_name f) wrapper_ptypes else None.

Definition hint_shape (h : hint) : nat :=
  match h with HPlain _ => 0 | HOptional _ => 1 | HList _ => 2 | HDict _ _ => 3 end%nat.

(* field [x] of message [m] (path [p], package [pkg]) and the runtime field descriptor [f'] generated for it *)
Definition field_agrees (field_name : str -> str) (pkg : str) (p : list str) (m : msg_d) (x : field_d) (f' : fdesc) : Prop :=
  fnum f' = fd_number x /\ fname f' = field_name (fd_name x) /\
  match spec_map_entry pkg p m x with
  | Some e =>
      fty f' = TMap /\ hint_shape (fhint f') = 3%nat /\ fopt f' = false /\ fgroup f' = None /\ fwraps f' = None
      /\ exists k v kt vt, field_numbered 1 e = Some k /\ field_numbered 2 e = Some v
                           /\ ptype_of_dtype (fd_type k) = Some kt /\ ptype_of_dtype (fd_type v) = Some vt
                           /\ fmap f' = Some (kt, vt)
  | None =>
      ptype_of_dtype (fd_type x) = Some (fty f') /\ fmap f' = None /\ fopt f' = fd_proto3_optional x
      /\ fwraps f' = wrapped_ptype x
      /\ is_some' (fgroup f') = real_oneof x
      /\ hint_shape (fhint f') =
           (if fd_label x =? L_REPEATED then 2%nat
            else if fd_proto3_optional x || is_some' (wrapped_ptype x) then 1%nat else 0%nat)
  end.

(* ==========================================================================================
   canonical value of a schema (user classes, entry classes, enums; the bundled prefix is fixed)
   ========================================================================================== *)
Definition cv_nat (n : nat) : cv := CZ (Z.of_nat n).
Definition cv_pt (t : ptype) : cv := CZ (ptype_tag t).
Definition cv_pyty (p : pyty) : cv :=
  match p with
  | PyInt => CL [CZ 0] | PyFloat => CL [CZ 1] | PyBool => CL [CZ 2] | PyStr => CL [CZ 3] | PyBytes => CL [CZ 4]
  | PyEnum e => CL [CZ 5; cv_nat e] | PyMsg c => CL [CZ 6; cv_nat c]
  | PyDatetime => CL [CZ 7] | PyTimedelta => CL [CZ 8]
  end.
Definition cv_rhint (h : hint) : cv :=
  match h with
  | HPlain p => CL [CZ 0; cv_pyty p]
  | HOptional p => CL [CZ 1; cv_pyty p]
  | HList p => CL [CZ 2; cv_pyty p]
  | HDict k v => CL [CZ 3; cv_pyty k; cv_pyty v]
  end.
Definition cv_fdesc (f : fdesc) : cv :=
  CL [CB (fname f); CZ (fnum f); cv_pt (fty f);
      copt (fun kv => CL [cv_pt (fst kv); cv_pt (snd kv)]) (fmap f);
      copt cv_nat (fgroup f); copt cv_pt (fwraps f); cbool (fopt f); cv_rhint (fhint f); cv_nat (fentry f)].
Definition cv_cdesc (c : cdesc) : cv := CL [CL (map cv_fdesc (cfields c)); cv_nat (cngroups c)].
Definition cv_schema (sc : schema) : cv :=
  CL [CL (map cv_cdesc (skipn NB (classes sc)));
      CL (map (fun e => CL (map (fun nv => CL [CB (fst nv); CZ (snd nv)]) (emembers e))) (enums sc))].
Definition cv_res_schema (r : result class_table) : cv :=
  match r with Ok t => cv_schema (schema_of_table t) | Err k => CE k end.
Definition cv_opt_schema (o : option class_table) : cv :=
  match o with Some t => cv_schema (schema_of_table t) | None => CE EOther end.
