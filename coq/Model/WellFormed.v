(* Boolean side conditions the wire theorems are stated under (shared by C01 C02 C06
   C07 C08 C10 C14 C17).  All of them are decidable predicates, evaluated on the generated
   schemas and snapshots by the correspondence checks, so every hypothesis used by a
   theorem is also checked to hold on what the harness generates (non-vacuity).

   wf_schema  : what a class table built by the plugin / the public field API looks like
   well_typed : every raw attribute holds a value of its declared Python type
   in_range   : the value is inside the declared protobuf range (C01's "in-range value") *)
From BP Require Import Base.Prelude Model.Types Model.Float Model.Utf8 Model.Object Model.TimeCore.
From BP Require Import gen.Tables.

Definition is_some' {A} (o : option A) : bool := match o with Some _ => true | None => false end.

(* ---- schema ---- *)
Definition scalar_ptypes : list ptype :=
  [TEnum; TBool; TInt32; TInt64; TUInt32; TUInt64; TSInt32; TSInt64; TFloat; TDouble;
   TFixed32; TSFixed32; TFixed64; TSFixed64; TString; TBytes].

(* the Python type a scalar proto type is annotated with *)
Definition pyty_fits (nclasses nenums : nat) (t : ptype) (p : pyty) : bool :=
  match t, p with
  | TEnum, PyEnum e => Nat.ltb e nenums
  | TBool, PyBool => true
  | (TInt32 | TInt64 | TUInt32 | TUInt64 | TSInt32 | TSInt64 | TFixed32 | TSFixed32 | TFixed64 | TSFixed64), PyInt => true
  | (TFloat | TDouble), PyFloat => true
  | TString, PyStr => true
  | TBytes, PyBytes => true
  | TMessage, PyMsg c => Nat.leb (length builtin_classes) c && Nat.ltb c nclasses
  | TMessage, (PyDatetime | PyTimedelta) => true
  | _, _ => false
  end.

Definition map_key_ok (t : ptype) : bool :=
  tmem t [TInt32; TInt64; TUInt32; TUInt64; TSInt32; TSInt64; TFixed32; TSFixed32; TFixed64; TSFixed64; TBool; TString].

Definition entry_class_ok (sc : schema) (f : fdesc) : bool :=
  match fmap f, fhint f with
  | Some (kt, vt), HDict k v =>
      match cfields (get_class sc (fentry f)) with
      | [fk; fv] =>
          (fnum fk =? 1) && ptype_eqb (fty fk) kt && (fnum fv =? 2) && ptype_eqb (fty fv) vt &&
          negb (is_some' (fgroup fk)) && negb (is_some' (fgroup fv)) && negb (fopt fk) && negb (fopt fv) &&
          negb (is_some' (fwraps fk)) && negb (is_some' (fwraps fv)) &&
          match fhint fk, fhint fv with
          | HPlain k', HPlain v' =>
              pyty_fits (length (classes sc)) (length (enums sc)) kt k' &&
              pyty_fits (length (classes sc)) (length (enums sc)) vt v'
          | _, _ => false
          end
      | _ => false
      end
  | _, _ => false
  end.

Definition wf_field (sc : schema) (ngroups : nat) (f : fdesc) : bool :=
  let nc := length (classes sc) in
  let ne := length (enums sc) in
  (1 <=? fnum f) && (fnum f <? 2 ^ 29) &&
  match fgroup f with Some g => Nat.ltb g ngroups | None => true end &&
  match fhint f with
  | HPlain p =>
      negb (fopt f) && negb (is_some' (fwraps f)) && negb (is_some' (fmap f)) &&
      negb (ptype_eqb (fty f) TMap) && pyty_fits nc ne (fty f) p
  | HOptional p =>
      negb (is_some' (fmap f)) && negb (is_some' (fgroup f)) &&
      match fwraps f with
      | Some w => negb (fopt f) && ptype_eqb (fty f) TMessage && is_some' (wrapper_cls w) &&
                  match wrapper_value_type w with Some vt => pyty_fits nc ne vt p | None => false end
      | None => fopt f && negb (ptype_eqb (fty f) TMap) && pyty_fits nc ne (fty f) p
      end
  | HList p =>
      negb (fopt f) && negb (is_some' (fwraps f)) && negb (is_some' (fmap f)) && negb (is_some' (fgroup f)) &&
      negb (ptype_eqb (fty f) TMap) && pyty_fits nc ne (fty f) p
  | HDict k v =>
      negb (fopt f) && negb (is_some' (fwraps f)) && negb (is_some' (fgroup f)) &&
      ptype_eqb (fty f) TMap &&
      match fmap f with
      | Some (kt, vt) => map_key_ok kt && negb (ptype_eqb vt TMap) && pyty_fits nc ne kt k && pyty_fits nc ne vt v
      | None => false
      end && entry_class_ok sc f
  end.

Fixpoint nodup_z (l : list Z) : bool :=
  match l with
  | [] => true
  | x :: r => negb (existsb (Z.eqb x) r) && nodup_z r
  end.

Definition wf_class (sc : schema) (cd : cdesc) : bool :=
  forallb (wf_field sc (cngroups cd)) (cfields cd) && nodup_z (map fnum (cfields cd)).

Definition cdesc_plain (cd : cdesc) : bool :=
  forallb (fun f => match fhint f with HPlain _ => true | _ => false end) (cfields cd).

(* the class table starts with the bundled classes (Timestamp, Duration, wrappers), then user classes
   and synthetic map-entry classes *)
Definition wf_schema (sc : schema) : bool :=
  let nb := length builtin_classes in
  Nat.leb nb (length (classes sc)) &&
  forallb (fun '(a, b) => Nat.eqb (length (cfields a)) (length (cfields b)) &&
                          forallb (fun '(f, g) => (fnum f =? fnum g) && ptype_eqb (fty f) (fty g)) (combine (cfields a) (cfields b)))
          (combine (firstn nb (classes sc)) builtin_classes) &&
  forallb (wf_class sc) (classes sc).

(* ---- values ---- *)
Definition int_in (lo hi z : Z) : bool := (lo <=? z) && (z <? hi).

Definition scalar_in_range (t : ptype) (v : pv) : bool :=
  match t, v with
  | (TInt32 | TSInt32 | TSFixed32 | TEnum), PInt z => int_in (- 2 ^ 31) (2 ^ 31) z
  | (TInt64 | TSInt64 | TSFixed64), PInt z => int_in (- 2 ^ 63) (2 ^ 63) z
  | (TUInt32 | TFixed32), PInt z => int_in 0 (2 ^ 32) z
  | (TUInt64 | TFixed64), PInt z => int_in 0 (2 ^ 64) z
  | TBool, PBool _ => true
  | TDouble, PFloat b => int_in 0 (2 ^ 64) b
  | TFloat, PFloat b => int_in 0 (2 ^ 64) b && (f32_representable b || f64_is_nan b)
  | TString, PStr s => utf8_valid s
  | TBytes, PBytes _ => true
  | _, _ => false
  end.

(* [v] is a value the element type [t]/[p] of a field may hold, in range; messages recursively *)
Fixpoint elem_in_range (sc : schema) (t : ptype) (p : pyty) (v : pv) {struct v} : bool :=
  match p, v with
  | PyDatetime, PDatetime us => (dt_min_us <=? us) && (us <=? dt_max_us)
  | PyTimedelta, PTimedelta us => (- 315576000000000000 <=? us) && (us <=? 315576000000000000)
  | PyMsg c, PMsg (Obj c' raw _ _ cur) =>
      Nat.eqb c c' &&
      Nat.eqb (length raw) (length (cfields (get_class sc c))) &&
      Nat.eqb (length cur) (cngroups (get_class sc c)) &&
      (fix go (raw : list pv) (fs : list fdesc) {struct raw} : bool :=
         match raw, fs with
         | x :: raw', f :: fs' =>
             (match x with
              | PPlaceholder => true
              | PNone => match fhint f with HOptional _ => true | _ => false end
              | _ =>
                  match fhint f with
                  | HPlain p' => elem_in_range sc (fty f) p' x
                  | HOptional p' =>
                      elem_in_range sc (match fwraps f with Some w => w | None => fty f end) p' x
                  | HList p' =>
                      match x with
                      | PList l => (fix all (l : list pv) : bool :=
                                      match l with [] => true | y :: l' => elem_in_range sc (fty f) p' y && all l' end) l
                      | _ => false
                      end
                  | HDict pk pv' =>
                      match x, fmap f with
                      | PDict d, Some (kt, vt) =>
                          (fix all (d : list (pv * pv)) : bool :=
                             match d with
                             | [] => true
                             | (k, y) :: d' => scalar_in_range kt k && elem_in_range sc vt pv' y && all d'
                             end) d
                      | _, _ => false
                      end
                  end
              end) && go raw' fs'
         | _, _ => true
         end) raw (cfields (get_class sc c))
  | (PyInt | PyFloat | PyBool | PyStr | PyBytes | PyEnum _), _ => scalar_in_range t v
  | _, _ => false
  end.

(* the whole object: every raw attribute in range for its field *)
Definition in_range (sc : schema) (o : obj) : bool :=
  elem_in_range sc TMessage (PyMsg (ocls o)) (PMsg o).

(* oneof discipline of the raw state: a member that is not the selected one is PLACEHOLDER *)
Definition oneof_clean (sc : schema) (o : obj) : bool :=
  let 'Obj c raw _ _ cur := o in
  (fix go (i : nat) (raw : list pv) (fs : list fdesc) {struct raw} : bool :=
     match raw, fs with
     | x :: raw', f :: fs' =>
         (match group_selects cur f i with
          | Some false => match x with PPlaceholder => true | _ => false end
          | _ => true
          end) && go (Datatypes.S i) raw' fs'
     | _, _ => true
     end) O raw (cfields (get_class sc c)).
