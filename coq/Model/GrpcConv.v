(* Model/GrpcConv.v — small-step semantics of ONE gRPC call made through the generated stub, with the
   tasks the real code has, so that INTERLEAVING of sending and receiving can be spoken about
   (Model/Grpc.v is functional: request list in, response list out, and cannot).

   What is mirrored, site by site:

     grpclib_client.ServiceStub._stream_stream
         await stream.send_request()
         sending_task = asyncio.ensure_future(self._send_messages(stream, request_iterator))   -> task [TSender]
         async for response in stream: yield response                                          -> task [TCaller]
     grpclib_client.ServiceStub._send_messages
         async for message in messages: await stream.send_message(message)                     -> [SaYield] / [SaAwait]
         await stream.end()                                                                    -> [SaEnd]
       The request iterator is the CALLER'S async generator; it runs INSIDE the sender task.  A conversational
       generator produces its next request only after it has seen a response: it awaits something the caller's
       response loop feeds (here: a FIFO inbox, an asyncio.Queue in the harness).  That await BLOCKS the sender
       task while the inbox is empty.
     _stream_unary:   await self._send_messages(...) to completion, THEN response = await stream.recv_message()
     _unary_unary / _unary_stream:  await stream.send_message(request, end=True), THEN recv_message() / async for
       -> same two tasks, but every step of the caller's receiving side is gated on "sending has finished"
          ([cm_seq]); [cm_iter] says whether the caller iterates or takes a single message.
     template Base adapters + grpclib_server.ServiceBase._call_rpc_handler_server_stream             -> task [THandler]
         request = await stream.recv_message() | stream.__aiter__()     -> [HaRecv]
         await stream.send_message(response)                            -> [HaYield]
         return / raise GRPCError(st)                                   -> [HaDone]
       grpclib.server.Stream for a unary-response Cardinality accepts ONE message ("Message was already sent")
       and needs one for an OK status ([sm_single], as Grpc.send_all).
     grpclib.client.Stream.recv_trailing_metadata (called when the caller leaves `async with`): refuses to finish
       a call whose outgoing stream was not ended - ProtocolError('Outgoing stream was not ended') - whatever the
       server's status                                                                       -> [cm_chk], [chk_fail]
     transport (grpclib / h2, in order): two FIFO queues [s_reqq] (client -> server, closed by stream.end()) and
       [s_respq] (server -> client, closed by the trailers = [s_hdone]).

   One transition = ANY enabled task takes one step ([step t s = Some s']); a task that is blocked (empty queue
   not yet closed, empty inbox) or finished has no step.  asyncio itself is not modelled beyond that: the real
   FIFO ready queue is one of the schedules.

   NOT modelled (runtime): HTTP/2 flow control (queues are unbounded), deadlines, cancellation (the
   `except: sending_task.cancel()` arm), failure of send_message on a stream the server has already closed
   (the sender simply goes on until its generator ends or blocks; what it sends then is never read), the
   RST_STREAM a grpclib server sends when its handler finishes before the client has half-closed (with a non-OK
   status responses still in flight can then be dropped: observed on the real code, see known finding C11-K2),
   codec type checks (Grpc.encode_all / send_all's isinstance test).

   No proofs here. *)
From BP Require Import Base.Prelude Model.Grpc.

(* ---------------------------------------------------------------------------
   the two parties of the conversation, as state machines (any state type: finite tables, functions of
   the history, infinite protocols)
   --------------------------------------------------------------------------- *)
(* the caller's request generator, resumed by the sender task *)
Inductive src_act (SS : Type) :=
| SaEnd                                (* the generator returns: _send_messages goes on to stream.end() *)
| SaYield (r : msg) (s' : SS)          (* yield r: _send_messages awaits stream.send_message(r) *)
| SaAwait (k : msg -> SS).             (* the generator awaits the NEXT response the caller's loop has seen *)
Arguments SaEnd {SS}.
Arguments SaYield {SS} r s'.
Arguments SaAwait {SS} k.

(* the server side: the adapter + the user's method body *)
Inductive hdl_act (HS : Type) :=
| HaDone (st : option Z)               (* return (None) / raise GRPCError(st) *)
| HaYield (y : msg) (s' : HS)          (* stream.send_message(y) *)
| HaRecv (k : option msg -> HS).       (* stream.recv_message(): Some r, or None once the client has ended *)
Arguments HaDone {HS} st.
Arguments HaYield {HS} y s'.
Arguments HaRecv {HS} k.

(* how the helper of the stub is structured *)
Record cmode := CMode {
  cm_seq : bool;     (* the caller receives only after sending has finished (no separate sender task) *)
  cm_iter : bool;    (* async for over the responses (true) / one recv_message (false) *)
  cm_chk : bool      (* grpclib's client refuses to finish a call whose outgoing stream was not ended (true for
                        every real helper; false = an idealised client without that check: a proof device, and the
                        yardstick for what the check costs) *)
}.

Definition helper_mode (h : helper) : cmode :=
  match h with
  | H_unary_unary => CMode true false true
  | H_unary_stream => CMode true true true
  | H_stream_unary => CMode true false true
  | H_stream_stream => CMode false true true
  end.

Definition ideal_mode (cm : cmode) : cmode := CMode (cm_seq cm) (cm_iter cm) false.

(* the modes whose three tasks form a Kahn network (no task ever TESTS a flag another task sets): the check is off,
   or vacuous because the caller's receiving side starts only after stream.end() *)
Definition kahn_mode (cm : cmode) : bool := negb (cm_chk cm) || cm_seq cm.

(* the seeded breaking change "_stream_stream awaits _send_messages(...) to completion before reading any
   response": the structure of _stream_unary's sending with _unary_stream's receiving *)
Definition send_all_first_mode : cmode := CMode true true true.

Inductive task := TSender | TCaller | THandler.

Section System.
  Variables SS HS : Type.
  Variable src_step : SS -> src_act SS.
  Variable hdl_step : HS -> hdl_act HS.
  Variable cm : cmode.
  Variable sm_single : bool.            (* the mapping entry's Cardinality has a unary response *)

  Record state := St {
    s_src : SS;                 (* the request generator *)
    s_sfin : bool;              (* stream.end() was called: the request stream is closed *)
    s_reqq : list msg;          (* requests in flight, oldest first *)
    s_inbox : list msg;         (* responses the caller's loop has seen and the generator has not consumed yet *)
    s_hdl : HS;                 (* the handler *)
    s_hread : list msg;         (* LOG: every request the handler has read, in order *)
    s_hsent : bool;             (* the handler has sent a message (grpclib's single-response check) *)
    s_hend : bool;              (* LOG: the handler has been told that the request stream has ended (a recv gave None) *)
    s_hdone : option (option Z);(* the handler has finished, with this status (None inside = OK): the trailers *)
    s_respq : list msg;         (* responses in flight, oldest first *)
    s_recv : list msg;          (* LOG: every response the caller has received, in order *)
    s_cwait : bool;             (* unary response: the message was taken, the caller is leaving `async with` *)
    s_cend : option cend        (* the call has completed on the caller's side, this way *)
  }.

  Definition init (ss : SS) (hs : HS) : state :=
    St ss false [] [] hs [] false false None [] [] false None.

  (* ---- the sender task: one resumption of the generator + the send it leads to ---- *)
  Definition step_sender (s : state) : option state :=
    if s_sfin s then None else
    match src_step (s_src s) with
    | SaYield r ss' =>
        Some (St ss' false (s_reqq s ++ [r]) (s_inbox s) (s_hdl s) (s_hread s) (s_hsent s) (s_hend s) (s_hdone s)
                 (s_respq s) (s_recv s) (s_cwait s) (s_cend s))
    | SaAwait k =>
        match s_inbox s with
        | [] => None                                          (* blocked until the caller has seen a response *)
        | y :: ib =>
            Some (St (k y) false (s_reqq s) ib (s_hdl s) (s_hread s) (s_hsent s) (s_hend s) (s_hdone s)
                     (s_respq s) (s_recv s) (s_cwait s) (s_cend s))
        end
    | SaEnd =>
        Some (St (s_src s) true (s_reqq s) (s_inbox s) (s_hdl s) (s_hread s) (s_hsent s) (s_hend s) (s_hdone s)
                 (s_respq s) (s_recv s) (s_cwait s) (s_cend s))
    end.

  (* ---- the handler task ---- *)
  Definition step_handler (s : state) : option state :=
    match s_hdone s with
    | Some _ => None
    | None =>
        match hdl_step (s_hdl s) with
        | HaYield y hs' =>
            if sm_single && s_hsent s
            then (* grpclib: ProtocolError('Message was already sent') leaves the adapter: UNKNOWN *)
                 Some (St (s_src s) (s_sfin s) (s_reqq s) (s_inbox s) hs' (s_hread s) true (s_hend s) (Some (Some ST_UNKNOWN))
                          (s_respq s) (s_recv s) (s_cwait s) (s_cend s))
            else Some (St (s_src s) (s_sfin s) (s_reqq s) (s_inbox s) hs' (s_hread s) true (s_hend s) None
                          (s_respq s ++ [y]) (s_recv s) (s_cwait s) (s_cend s))
        | HaRecv k =>
            match s_reqq s with
            | r :: q =>
                Some (St (s_src s) (s_sfin s) q (s_inbox s) (k (Some r)) (s_hread s ++ [r]) (s_hsent s) (s_hend s) None
                         (s_respq s) (s_recv s) (s_cwait s) (s_cend s))
            | [] =>
                if s_sfin s
                then Some (St (s_src s) true [] (s_inbox s) (k None) (s_hread s) (s_hsent s) true None
                              (s_respq s) (s_recv s) (s_cwait s) (s_cend s))
                else None                                     (* blocked until a request arrives or the stream ends *)
            end
        | HaDone st =>
            let st' := if sm_single && negb (s_hsent s)
                       then match st with None => Some ST_UNKNOWN | Some x => Some x end
                       else st in
            Some (St (s_src s) (s_sfin s) (s_reqq s) (s_inbox s) (s_hdl s) (s_hread s) (s_hsent s) (s_hend s) (Some st')
                     (s_respq s) (s_recv s) (s_cwait s) (s_cend s))
        end
    end.

  (* ---- the caller's receiving side ---- *)
  (* leaving `async with`: grpclib raises ProtocolError('Outgoing stream was not ended') before it looks at the
     trailers when stream.end() has not been called yet *)
  Definition chk_fail (s : state) : bool := cm_chk cm && negb (s_sfin s).

  Definition step_caller (s : state) : option state :=
    match s_cend s with
    | Some _ => None
    | None =>
        if cm_seq cm && negb (s_sfin s) then None else       (* still inside `await self._send_messages(...)` *)
        if s_cwait s then
          (* unary response, message taken: leaving `async with` waits for the trailers *)
          match s_hdone s with
          | None => None
          | Some st =>
              if chk_fail s then
                Some (St (s_src s) (s_sfin s) (s_reqq s) (s_inbox s) (s_hdl s) (s_hread s) (s_hsent s) (s_hend s) (s_hdone s)
                         (s_respq s) [] true (Some CExc))
              else match st with
              | None =>
                  Some (St (s_src s) (s_sfin s) (s_reqq s) (s_inbox s) (s_hdl s) (s_hread s) (s_hsent s) (s_hend s) (s_hdone s)
                           (s_respq s) (s_recv s) true (Some CDone))
              | Some x =>
                  Some (St (s_src s) (s_sfin s) (s_reqq s) (s_inbox s) (s_hdl s) (s_hread s) (s_hsent s) (s_hend s) (s_hdone s)
                           (s_respq s) [] true (Some (CGrpc x)))
              end
          end
        else
          match s_respq s with
          | y :: q =>
              (* a response: the caller's loop body runs (and feeds the generator's inbox) *)
              Some (St (s_src s) (s_sfin s) (s_reqq s) (s_inbox s ++ [y]) (s_hdl s) (s_hread s) (s_hsent s) (s_hend s) (s_hdone s)
                       q (s_recv s ++ [y]) (negb (cm_iter cm)) None)
          | [] =>
              match s_hdone s with
              | None => None                                  (* blocked until a response or the trailers arrive *)
              | Some st =>
                  (* end of the response stream: the loop ends, the caller leaves `async with` *)
                  Some (St (s_src s) (s_sfin s) (s_reqq s) (s_inbox s) (s_hdl s) (s_hread s) (s_hsent s) (s_hend s) (s_hdone s)
                           [] (s_recv s) (s_cwait s)
                           (Some (if chk_fail s then CExc
                                  else if cm_iter cm then end_of st
                                  else match st with None => CExc | Some x => CGrpc x end)))
              end
          end
    end.

  Definition step (t : task) (s : state) : option state :=
    match t with
    | TSender => step_sender s
    | TCaller => step_caller s
    | THandler => step_handler s
    end.

  (* a schedule: which task steps next; every named task must be enabled *)
  Fixpoint run (sch : list task) (s : state) : option state :=
    match sch with
    | [] => Some s
    | t :: r => match step t s with Some s' => run r s' | None => None end
    end.

  (* no task can step: the schedule that led here is maximal *)
  Definition stuckb (s : state) : bool :=
    match step TSender s, step TCaller s, step THandler s with
    | None, None, None => true
    | _, _, _ => false
    end.

  (* what the two ends of the call observe *)
  Record observed := Observed {
    o_read : list msg;          (* requests the handler read, in order *)
    o_recv : list msg;          (* responses the caller received, in order *)
    o_end : option cend         (* how the call ended for the caller (None: it has not) *)
  }.
  Definition observe (s : state) : observed := Observed (s_hread s) (s_recv s) (s_cend s).

  (* a fixed scheduler (handler, then caller, then sender), for evaluation only *)
  Fixpoint run_priority (fuel : nat) (s : state) : option state :=
    match fuel with
    | O => None
    | S n =>
        match step THandler s with
        | Some s' => run_priority n s'
        | None =>
            match step TCaller s with
            | Some s' => run_priority n s'
            | None =>
                match step TSender s with
                | Some s' => run_priority n s'
                | None => Some s
                end
            end
        end
    end.

  (* a scheduler driven by a list of choices (rotating start), for evaluation only: takes the first enabled
     task at or after the chosen one; stops when nothing is enabled *)
  Definition pick (c : nat) (s : state) : option state :=
    let order := match c with
                 | O => [TSender; TCaller; THandler]
                 | S O => [TCaller; THandler; TSender]
                 | _ => [THandler; TSender; TCaller]
                 end in
    (fix go (l : list task) : option state :=
       match l with
       | [] => None
       | t :: r => match step t s with Some s' => Some s' | None => go r end
       end) order.

  Fixpoint run_choices (fuel : nat) (cs : list nat) (s : state) : option state :=
    match fuel with
    | O => None
    | S n =>
        let '(c, cs') := match cs with [] => (O, []) | c :: r => (c, r ++ [c]) end in
        match pick c s with
        | Some s' => run_choices n cs' s'
        | None => Some s
        end
    end.

  (* the schedule (list of task names) that [run_choices] follows *)
  Definition pick_task (c : nat) (s : state) : option (task * state) :=
    let order := match c with
                 | O => [TSender; TCaller; THandler]
                 | S O => [TCaller; THandler; TSender]
                 | _ => [THandler; TSender; TCaller]
                 end in
    (fix go (l : list task) : option (task * state) :=
       match l with
       | [] => None
       | t :: r => match step t s with Some s' => Some (t, s') | None => go r end
       end) order.

  Fixpoint sched_choices (fuel : nat) (cs : list nat) (s : state) : list task :=
    match fuel with
    | O => []
    | S n =>
        let '(c, cs') := match cs with [] => (O, []) | c :: r => (c, r ++ [c]) end in
        match pick_task c s with
        | Some (t, s') => t :: sched_choices n cs' s'
        | None => []
        end
    end.

  (* ---------------------------------------------------------------------------
     THE SEQUENTIAL DIALOGUE of a protocol (request source x handler): the two parties alone, no tasks, no
     caller loop, no transport — each party's output is appended to the other's mailbox.  The handler moves
     while it can; when it waits for a request that has not been produced the source moves.  The dialogue is
     FINITE when this ends with the handler finished and the source ended or waiting for a response that will
     never come; a party waiting for the other while the other waits for it (or a party that goes on for ever)
     has no finite dialogue.

       Dlg ss sfin rq hs ib (rd, em, st, se):  from source state ss (ended: sfin), requests rq produced and not
       yet read, handler state hs, responses ib produced and not yet consumed by the source: the handler reads rd,
       emits em and ends with status st; se: one of its reads returned None, i.e. it was TOLD that the request
       stream had ended before it finished (the usual `async for request in request_iterator` handler is).
     --------------------------------------------------------------------------- *)
  (* requests read, responses emitted, final status, and: was the handler told that the request stream had ended
     (did one of its reads return None) before it finished *)
  Definition transcript := (list msg * list msg * option Z * bool)%type.

  (* the source, left alone with the responses ib, ends or blocks after finitely many steps *)
  Inductive SrcStops : SS -> list msg -> Prop :=
  | SS_end ss ib : src_step ss = SaEnd -> SrcStops ss ib
  | SS_block ss k : src_step ss = SaAwait k -> SrcStops ss []
  | SS_await ss k y ib : src_step ss = SaAwait k -> SrcStops (k y) ib -> SrcStops ss (y :: ib)
  | SS_yield ss r ss' ib : src_step ss = SaYield r ss' -> SrcStops ss' ib -> SrcStops ss ib.

  Inductive Dlg : SS -> bool -> list msg -> HS -> list msg -> transcript -> Prop :=
  | D_yield ss sf rq hs ib y hs' rd em st se :
      hdl_step hs = HaYield y hs' ->
      Dlg ss sf rq hs' (ib ++ [y]) (rd, em, st, se) ->
      Dlg ss sf rq hs ib (rd, y :: em, st, se)
  | D_recv ss sf r rq hs ib k rd em st se :
      hdl_step hs = HaRecv k ->
      Dlg ss sf rq (k (Some r)) ib (rd, em, st, se) ->
      Dlg ss sf (r :: rq) hs ib (r :: rd, em, st, se)
  | D_recv_end ss hs ib k rd em st se :
      hdl_step hs = HaRecv k ->
      Dlg ss true [] (k None) ib (rd, em, st, se) ->
      Dlg ss true [] hs ib (rd, em, st, true)
  | D_done ss sf rq hs ib st :
      hdl_step hs = HaDone st ->
      (sf = true \/ SrcStops ss ib) ->
      Dlg ss sf rq hs ib ([], [], st, false)
  | D_src_yield ss hs ib k r ss' t :
      hdl_step hs = HaRecv k -> src_step ss = SaYield r ss' ->
      Dlg ss' false [r] hs ib t ->
      Dlg ss false [] hs ib t
  | D_src_await ss hs y ib k k' t :
      hdl_step hs = HaRecv k -> src_step ss = SaAwait k' ->
      Dlg (k' y) false [] hs ib t ->
      Dlg ss false [] hs (y :: ib) t
  | D_src_end ss hs ib k t :
      hdl_step hs = HaRecv k -> src_step ss = SaEnd ->
      Dlg ss true [] hs ib t ->
      Dlg ss false [] hs ib t.

  (* the same as a function with fuel (evaluation, non-vacuity examples, the harness) *)
  Fixpoint src_stops (fuel : nat) (ss : SS) (ib : list msg) : bool :=
    match fuel with
    | O => false
    | S n =>
        match src_step ss with
        | SaEnd => true
        | SaAwait k => match ib with [] => true | y :: ib' => src_stops n (k y) ib' end
        | SaYield _ ss' => src_stops n ss' ib
        end
    end.

  Fixpoint dialogue (fuel : nat) (ss : SS) (sf : bool) (rq : list msg) (hs : HS) (ib : list msg)
    : option transcript :=
    match fuel with
    | O => None
    | S n =>
        match hdl_step hs with
        | HaYield y hs' =>
            match dialogue n ss sf rq hs' (ib ++ [y]) with
            | Some (rd, em, st, se) => Some (rd, y :: em, st, se)
            | None => None
            end
        | HaDone st => if sf || src_stops n ss ib then Some ([], [], st, false) else None
        | HaRecv k =>
            match rq with
            | r :: rq' =>
                match dialogue n ss sf rq' (k (Some r)) ib with
                | Some (rd, em, st, se) => Some (r :: rd, em, st, se)
                | None => None
                end
            | [] =>
                if sf then match dialogue n ss true [] (k None) ib with
                           | Some (rd, em, st, _) => Some (rd, em, st, true)
                           | None => None
                           end
                else match src_step ss with
                     | SaYield r ss' => dialogue n ss' false [r] hs ib
                     | SaAwait k' => match ib with [] => None | y :: ib' => dialogue n (k' y) false [] hs ib' end
                     | SaEnd => dialogue n ss true [] hs ib
                     end
            end
        end
    end.

  (* the source alone, with nothing received: requests it produces before it ends (stream_unary / unary_*
     callers, whose generator cannot see a response before sending has finished) *)
  Inductive SrcPlain : SS -> list msg -> Prop :=
  | SP_end ss : src_step ss = SaEnd -> SrcPlain ss []
  | SP_yield ss r ss' rs : src_step ss = SaYield r ss' -> SrcPlain ss' rs -> SrcPlain ss (r :: rs).

  (* the handler alone, with the whole (closed) request stream rq available *)
  Definition htranscript := (list msg * list msg * option Z)%type.
  Inductive HdlRuns : list msg -> HS -> bool -> htranscript -> Prop :=
  | HR_yield rq hs sent y hs' rd em st :
      hdl_step hs = HaYield y hs' -> (sm_single && sent = false) ->
      HdlRuns rq hs' true (rd, em, st) -> HdlRuns rq hs sent (rd, y :: em, st)
  | HR_yield_twice rq hs y hs' :
      hdl_step hs = HaYield y hs' -> (sm_single = true) ->
      HdlRuns rq hs true ([], [], Some ST_UNKNOWN)
  | HR_recv r rq hs sent k rd em st :
      hdl_step hs = HaRecv k -> HdlRuns rq (k (Some r)) sent (rd, em, st) ->
      HdlRuns (r :: rq) hs sent (r :: rd, em, st)
  | HR_recv_end hs sent k t :
      hdl_step hs = HaRecv k -> HdlRuns [] (k None) sent t -> HdlRuns [] hs sent t
  | HR_done rq hs sent st :
      hdl_step hs = HaDone st ->
      HdlRuns rq hs sent ([], [], if sm_single && negb sent
                                  then match st with None => Some ST_UNKNOWN | Some x => Some x end
                                  else st).

  (* what a caller with a unary response makes of (responses, status) — Grpc.client_recv on messages *)
  Definition single_result (em : list msg) (st : option Z) : list msg * cend :=
    match st with
    | Some x => ([], CGrpc x)
    | None => match em with [] => ([], CExc) | y :: _ => ([y], CDone) end
    end.
End System.

Arguments St {SS HS}.
Arguments s_src {SS HS}. Arguments s_sfin {SS HS}. Arguments s_reqq {SS HS}. Arguments s_inbox {SS HS}.
Arguments s_hdl {SS HS}. Arguments s_hread {SS HS}. Arguments s_hsent {SS HS}. Arguments s_hend {SS HS}. Arguments s_hdone {SS HS}.
Arguments s_respq {SS HS}. Arguments s_recv {SS HS}. Arguments s_cwait {SS HS}. Arguments s_cend {SS HS}.
Arguments init {SS HS}.
Arguments observe {SS HS}.

(* ---------------------------------------------------------------------------
   instances
   --------------------------------------------------------------------------- *)
(* a request stream that does not depend on responses: the list / tuple / plain generator a caller passes *)
Definition list_src_step (l : list msg) : src_act (list msg) :=
  match l with [] => SaEnd | r :: l' => SaYield r l' end.

(* a handler of the functional model (Grpc.hbody behind the adapter rendered for (cs, ss)) as a reactive one *)
Inductive fh_state := FRead (acc : list msg) | FOut (ys : list msg) (st : option Z).

Definition fh_out (ss : bool) (py : str) (h : hbody) (inp : hinput) : fh_state :=
  let '(_, ys, st) := run_adapter ss py h inp in FOut ys st.

Definition fh_step (cs ss : bool) (py : str) (h : hbody) (s : fh_state) : hdl_act fh_state :=
  match s with
  | FRead acc =>
      HaRecv (fun o =>
        match o with
        | Some r => if cs then FRead (acc ++ [r]) else fh_out ss py h (InOne (Some r))
        | None => if cs then fh_out ss py h (InMany acc) else fh_out ss py h (InOne None)
        end)
  | FOut (y :: ys) st => HaYield y (FOut ys st)
  | FOut [] st => HaDone st
  end.

(* ---------------------------------------------------------------------------
   table-driven protocols: the vocabulary the harness generates (ping-pong, server-first greeting, bursts,
   early end, replies that depend on what the other side said)
   --------------------------------------------------------------------------- *)
Fixpoint lookup_bytes (tbl : list (list byte * msg)) (k : list byte) (dflt : msg) : msg :=
  match tbl with
  | [] => dflt
  | (k', v) :: r => if bytes_eqb k' k then v else lookup_bytes r k dflt
  end.

Inductive src_instr :=
| SI_yield (r : msg)                                   (* yield r *)
| SI_await                                             (* last = await inbox.get() *)
| SI_reply (tbl : list (list byte * msg)) (dflt : msg). (* yield tbl.get(bytes(last), dflt) *)

Definition tsrc := (list src_instr * option msg)%type.   (* program counter, last response consumed *)

Definition tsrc_step (s : tsrc) : src_act tsrc :=
  match fst s with
  | [] => SaEnd
  | SI_yield r :: p => SaYield r (p, snd s)
  | SI_await :: p => SaAwait (fun y => (p, Some y))
  | SI_reply tbl d :: p =>
      SaYield (match snd s with Some y => lookup_bytes tbl (snd y) d | None => d end) (p, snd s)
  end.

Inductive hdl_instr :=
| HI_recv                                              (* last = await request.__anext__()  (None at the end) *)
| HI_yield (y : msg)                                   (* yield y *)
| HI_reply (tbl : list (list byte * msg)) (dflt : msg). (* yield tbl.get(bytes(last), dflt) *)

Definition thdl := (list hdl_instr * option msg * option Z)%type.  (* program, last request read, final status *)

Definition thdl_step (s : thdl) : hdl_act thdl :=
  let '(p, last, st) := s in
  match p with
  | [] => HaDone st
  | HI_recv :: p' => HaRecv (fun o => (p', o, st))
  | HI_yield y :: p' => HaYield y (p', last, st)
  | HI_reply tbl d :: p' =>
      HaYield (match last with Some r => lookup_bytes tbl (snd r) d | None => d end) (p', last, st)
  end.

Definition tsrc_init (p : list src_instr) : tsrc := (p, None).
Definition thdl_init (p : list hdl_instr) (st : option Z) : thdl := (p, None, st).

(* the dialogue of a table protocol, and the stream_stream system under a given choice list *)
Definition table_dialogue (fuel : nat) (sp : list src_instr) (hp : list hdl_instr) (st : option Z) : option transcript :=
  dialogue tsrc thdl tsrc_step thdl_step fuel (tsrc_init sp) false [] (thdl_init hp st) [].

Definition table_system (cm : cmode) (single : bool) (fuel : nat) (choices : list nat) (sp : list src_instr)
  (hp : list hdl_instr) (st : option Z) : option (state tsrc thdl) :=
  run_choices tsrc thdl tsrc_step thdl_step cm single fuel choices (init (tsrc_init sp) (thdl_init hp st)).

(* ---------------------------------------------------------------------------
   canonical values for the correspondence check
   --------------------------------------------------------------------------- *)
(* (requests read, responses emitted = received, how the call ends for a caller when the handler was told about
   the end of the request stream - otherwise see C11_server_ends_first_refuted -, that flag) *)
Definition cv_transcript (t : option transcript) : cv :=
  copt (fun t => let '(rd, em, st, se) := t in CL [cv_msgs rd; cv_msgs em; cv_end (end_of st); cbool se]) t.

(* final state of a run: requests read, responses received, how the call ended; CN when the run did not stop
   within the fuel; the third component is CN when it stopped with the call not completed (deadlock) *)
Definition cv_final {SS HS} (o : option (state SS HS)) : cv :=
  copt (fun s => CL [cv_msgs (s_hread s); cv_msgs (s_recv s); copt cv_end (s_cend s); cbool (s_hend s)]) o.

(* fuel for evaluation: a nat built without a big literal *)
Definition fuel_of (z : Z) : nat := Z.to_nat z.
