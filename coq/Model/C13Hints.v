(* Model/C13Hints.v — with which locals mapping the annotations of a generated message class are
   evaluated, by whom.  Executable; no proofs here (Proofs/ImportingP7.v).

   src/betterproto/__init__.py, Message._type_hints:
       module = sys.modules[cls.__module__]
       return get_type_hints(cls, module.__dict__, {})
   -> the locals mapping handed to eval is the literal `{}`, whatever the class body binds.

   typing.get_type_hints(cls, globalns) with localns left to its default, and pydantic's dataclass
   decorator (the `pydantic_dataclasses` option of the plugin): base_locals = dict(vars(cls))
   -> the keys of the class namespace shadow the module's globals.

   [cls_namespace] = the keys of vars(cls) as a list: the Python field names of the message (each bound
   by @dataclass to the field's default object) and whatever else the class body binds. *)
From BP Require Import Base.Prelude Spec.PyImport Spec.PyImportLocals Model.Importing.
Local Open Scope nat_scope.

Definition type_hints_localns (cls_namespace : list name) : list name := [].
Definition class_scope_localns (cls_namespace : list name) : list name := cls_namespace.

(* run the import line of a reference (if any) inside package P, then evaluate its annotation string with the
   given locals keys in scope: what the annotation of one field denotes *)
Definition eval_ref_locals (w : world) (P : path) (names : list name) (ref : list byte * option (list byte)) : option value :=
  match exec_all w P (match snd ref with Some s => [s] | None => [] end) with
  | Some e => resolve_annotation_with_locals w P e names (fst ref)
  | None => None
  end.

(* the two evaluations of one field's reference *)
Definition betterproto_hint (w : world) (P : path) (cls_namespace : list name) (ref : list byte * option (list byte)) : option value :=
  eval_ref_locals w P (type_hints_localns cls_namespace) ref.
Definition class_scope_hint (w : world) (P : path) (cls_namespace : list name) (ref : list byte * option (list byte)) : option value :=
  eval_ref_locals w P (class_scope_localns cls_namespace) ref.

(* used by the correspondence check: did the evaluation yield exactly the class n of package p? *)
Definition hint_is_class (r : option value) (p : path) (n : name) : bool :=
  match r with
  | Some (VCls q m) => path_eqb q p && bytes_eqb m n
  | _ => false
  end.
