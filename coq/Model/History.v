(* L1: the operations a program performs on a Message object, as state transformers over
   [obj] (histories for C07 / C14).  Mirrors Message.__copy__ / __deepcopy__ /
   _copy_internal_state, __reduce__ (pickle goes through the wire format), the lazy-default
   write-back that the observers bytes()/len()/dump() perform through getattr, nested
   attribute assignment (m.a.b = v), parse() into an existing object.
   Object identity is not modelled: values are trees, so copy and deepcopy coincide here and
   "mutating a copy does not affect the original" cannot be violated by the model (that
   clause of C14 is checked on the real objects by the harness only). *)
From BP Require Import Base.Prelude Model.Types Model.Object Model.Eq Model.Encode Model.Decode.
From BP Require Import gen.Tables.

(* the test at the top of the loop body of Message.dump / __len__: `continue` *)
Definition skipped (sc : schema) (f : fdesc) (sel : option bool) (v : pv) : bool :=
  let selected_in_group := is_some (fgroup f) || fopt f in
  let serialize_empty := match v with PMsg o => osow o | _ => false end in
  let include_default := match sel with Some true => true | _ => false end in
  is_default sc f v && negb (selected_in_group || serialize_empty || include_default).

(* state of a message after bytes(m) / len(m) / m.dump(...) returned: every readable attribute that
   was PLACEHOLDER now holds its default (object.__setattr__, flags untouched), and the same happened
   inside every nested message that was actually serialised *)
Fixpoint touch_pv (sc : schema) (v : pv) {struct v} : pv :=
  match v with
  | PMsg (Obj c raw sow unk cur) =>
      PMsg (Obj c
        ((fix go (i : nat) (raw : list pv) (fs : list fdesc) {struct raw} : list pv :=
            match raw, fs with
            | x :: raw', f :: fs' =>
                (match group_selects cur f i with
                 | Some false => x
                 | sel =>
                     match x with
                     | PNone => x
                     | PPlaceholder => default_of sc f
                     | _ =>
                         if skipped sc f sel x then x
                         else
                           match x with
                           | PMsg _ => touch_pv sc x
                           | PList l => PList (map (touch_pv sc) l)
                           | PDict d =>
                               PDict ((fix gd (d : list (pv * pv)) : list (pv * pv) :=
                                         match d with
                                         | [] => []
                                         | (k, y) :: d' => (k, touch_pv sc y) :: gd d'
                                         end) d)
                           | _ => x
                           end
                     end
                 end) :: go (Datatypes.S i) raw' fs'
            | _, _ => raw
            end) O raw (cfields (get_class sc c)))
        sow unk cur)
  | _ => v
  end.

Definition touch (sc : schema) (o : obj) : obj :=
  match touch_pv sc (PMsg o) with PMsg o' => o' | _ => o end.

(* Message.__copy__ / __deepcopy__ (repaired, commit 0ef9c00): new = cls(); every raw attribute that is not
   PLACEHOLDER is stored as it is (object.__setattr__: no flag is raised, no sibling reset), the slots that are
   PLACEHOLDER keep what cls() put there (None for optional fields, PLACEHOLDER otherwise);
   _copy_internal_state carries over _serialized_on_wire, _unknown_fields and _group_current. *)
Definition overlay (sc : schema) (c : nat) (raw : list pv) : list pv :=
  (fix go (raw fresh : list pv) {struct raw} : list pv :=
     match raw, fresh with
     | x :: raw', y :: fresh' => (match x with PPlaceholder => y | _ => x end) :: go raw' fresh'
     | _, _ => fresh
     end) raw (oraw (new sc c)).

Definition copy (sc : schema) (o : obj) : obj :=
  let 'Obj c raw sow unk cur := o in Obj c (overlay sc c raw) sow unk cur.

(* copy.deepcopy(m): the same, with every nested value deep-copied first (nested messages go through
   their own __deepcopy__) *)
Fixpoint deepcopy_pv (sc : schema) (v : pv) {struct v} : pv :=
  match v with
  | PMsg (Obj c raw sow unk cur) => PMsg (Obj c (overlay sc c (map (deepcopy_pv sc) raw)) sow unk cur)
  | PList l => PList (map (deepcopy_pv sc) l)
  | PDict d =>
      PDict ((fix gd (d : list (pv * pv)) : list (pv * pv) :=
                match d with
                | [] => []
                | (k, y) :: d' => (k, deepcopy_pv sc y) :: gd d'
                end) d)
  | _ => v
  end.
Definition deepcopy (sc : schema) (o : obj) : obj :=
  match deepcopy_pv sc (PMsg o) with PMsg o' => o' | _ => o end.

(* pickle.loads(pickle.dumps(m)): cls.FromString(bytes(m)) *)
Definition pickle_rt (sc : schema) (o : obj) : result obj :=
  do bs <- enc_obj sc o; parse sc (ocls o) bs.

(* m.<path>.<i> = v : every step of the path is an attribute read (lazy default written back into its
   holder), the assignment runs the leaf's __setattr__; holders on the way are NOT notified *)
Fixpoint set_in (sc : schema) (o : obj) (path : list nat) (i : nat) (v : pv) {struct path} : result obj :=
  match path with
  | [] => Ok (setattr sc o i v)
  | j :: path' =>
      match getattr sc o j with
      | (Obj c raw sow unk cur, Ok (PMsg child)) =>
          do child' <- set_in sc child path' i v;
          Ok (Obj c (set_nth j (PMsg child') raw) sow unk cur)
      | (_, Ok _) => Err EAttribute
      | (_, Err e) => Err e
      end
  end.

(* m.<path> read *)
Fixpoint get_in (sc : schema) (o : obj) (path : list nat) (i : nat) {struct path} : obj * result pv :=
  match path with
  | [] => getattr sc o i
  | j :: path' =>
      match getattr sc o j with
      | (Obj c raw sow unk cur, Ok (PMsg child)) =>
          let '(child', r) := get_in sc child path' i in
          (Obj c (set_nth j (PMsg child') raw) sow unk cur, r)
      | (o', Ok _) => (o', Err EAttribute)
      | (o', Err e) => (o', Err e)
      end
  end.

Inductive op :=
| OSet (path : list nat) (i : nat) (v : pv)
| OGet (path : list nat) (i : nat)
| OParse (bs : list byte)                   (* m.parse(bs) on the existing object *)
| OCopy | ODeepcopy | OPickle               (* continue with the copy *)
| OBytes | OLen | ODump (delimit : bool)    (* observers that walk the fields through getattr *)
| OEq (other : obj) | OBool.                (* observers that only use raw access *)

Inductive out :=
| ONone
| OVal (v : result pv)
| OBytesOut (r : result (list byte))
| OZ (r : result Z)
| OB (b : bool).

(* one operation; [Err] = the operation raised (the harness then stops the history) *)
Definition step (sc : schema) (o : obj) (p : op) : result (obj * out) :=
  match p with
  | OSet path i v => do o' <- set_in sc o path i v; Ok (o', ONone)
  | OGet path i => let '(o', r) := get_in sc o path i in Ok (o', OVal r)
  | OParse bs => do o' <- parse_into sc o bs; Ok (o', ONone)
  | OCopy => Ok (copy sc o, ONone)
  | ODeepcopy => Ok (deepcopy sc o, ONone)
  | OPickle => do o' <- pickle_rt sc o; Ok (o', ONone)
  | OBytes => do bs <- enc_obj sc o; Ok (touch sc o, OBytesOut (Ok bs))
  | OLen => do bs <- enc_obj sc o; Ok (touch sc o, OZ (Ok (Zlength bs)))
  | ODump d => do bs <- enc_obj sc o; Ok (touch sc o, OBytesOut (Ok bs))
  | OEq other => Ok (o, OB (obj_eq sc o other))
  | OBool => Ok (o, OB (obj_bool sc o))
  end.

Fixpoint run (sc : schema) (o : obj) (ops : list op) : result obj :=
  match ops with
  | [] => Ok o
  | p :: r => do (o', _) <- step sc o p; run sc o' r
  end.
