(* C18 gap closing: new vocabulary only (no existing definition is changed).
   [schema_shape]: what the property text calls "the same classes with the same field numbers, types, groups and enum
   values": per class and per field, in declaration order, the attribute name, the field number, the proto type, the map
   key / value types, the oneof group, the wrapped type and the Entry class; per class the number of groups; the number of
   classes; the enum table (member names and numbers).  Everything of [fdesc] except [fopt] and [fhint].
   [method_sites cs ss]: the annotation sites one service method with the given streaming cardinality occupies in the
   generated module (templates/template.py.j2: Stub signature, Base signature; cs = client_streaming, ss = server_streaming). *)
From BP Require Import Base.Prelude Model.Types Model.Object Model.C18Beh Model.Typing.

Definition shape_of (f : Object.fdesc) : list byte * Z * ptype * option (ptype * ptype) * option nat * option ptype * nat :=
  (fname f, fnum f, fty f, fmap f, fgroup f, fwraps f, fentry f).
Definition class_shape (cd : cdesc) := (map shape_of (cfields cd), cngroups cd).
Definition schema_shape (sc : schema) := (map class_shape (classes sc), enums sc).

(* the part of a field descriptor pydantic_dataclasses may touch *)
Definition opt_hint_of (f : Object.fdesc) : bool * hint := (fopt f, fhint f).

Definition method_sites (cs ss : bool) : list site :=
  [ (if cs then SStubReqIter else SStubReq); SStubTimeout; SStubDeadline; SStubMetadata;
    (if ss then SStubRetStream else SStubRet);
    (if cs then SBaseReqIter else SBaseReq); (if ss then SBaseRetStream else SBaseRet) ].

(* "the result is an object" *)
Definition is_ok {A} (r : result A) : bool := match r with Ok _ => true | Err _ => false end.

(* constructor keywords that give corresponding objects in both variants: see Proofs/C18GapB.v *)
Definition not_none (v : pv) : bool := match v with PNone => false | _ => true end.
