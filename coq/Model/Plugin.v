(* C03 — executable mirror of the protoc plugin's descriptor -> class-table function
   (src/betterproto/plugin/parser.py: generate_code, traverse, read_protobuf_type;
    src/betterproto/plugin/models.py: is_map, is_oneof, FieldCompiler, OneOfFieldCompiler,
    MapEntryCompiler, EnumDefinitionCompiler; src/betterproto/compile/importing.py:
    parse_source_type_name and the unwrap part of get_type_reference).

   The model follows the code, heuristics included:
     * traverse flattens nested types by MUTATING item.name to prefix + "_" + name;
     * is_map is a name heuristic (lower-case, underscores stripped, + "entry") against the parent's
       nested types flagged map_entry; MapEntryCompiler takes the LAST nested type the heuristic
       matches and reads its fields by POSITION ([0] key, [1] value);
     * is_oneof = not proto3_optional and oneof_index present (the monkey patch makes presence visible);
     * type names are split into package / type by the regular expression ^\.?([^A-Z]+)\.(.+);
     * field_wraps matches \.google\.protobuf\.(.+)Value$ and asks hasattr(betterproto, "TYPE_" + upper);
     * field_type / py_type go through the REGENERATED tables of gen/C03Tables.v.
   Not modelled: Jinja rendering, import-statement text (C13), ruff, comments, Python name binding
   inside a class body (a field called `betterproto` or `int` rebinding that name) — these are
   exercised for real by the translation-validation tie in harness/props/c03.py.

   [compile] gives the classes in the order the template emits them, duplicates included;
   [reflect] is what Python makes of that text: in a namespace a later binding of the same name
   replaces the earlier one (position of the first, value of the last), Optional[Optional[X]] is
   Optional[X]. No proofs here. *)
From BP Require Import Base.Prelude Spec.Descriptor gen.C03Tables.

(* ---- Python helpers ---------------------------------------------------------------------- *)
(* l[i] with Python's negative indices; IndexError otherwise *)
Definition py_index {A} (l : list A) (i : Z) : result A :=
  let n := Zlength l in
  let j := if i <? 0 then i + n else i in
  if (0 <=? j) && (j <? n)
  then match nth_error l (Z.to_nat j) with Some a => Ok a | None => Err EOther end
  else Err EOther.

Fixpoint mapM {A B} (f : A -> result B) (l : list A) : result (list B) :=
  match l with
  | [] => Ok []
  | a :: r => do b <- f a; do r' <- mapM f r; Ok (b :: r')
  end.

(* s.replace(pat, "") for a non-empty pattern *)
Fixpoint remove_all (fuel : nat) (pat s : str) : str :=
  match fuel with
  | O => s
  | S fu =>
      match s with
      | [] => []
      | c :: r => match prefix_of pat s with
                  | Some rest => remove_all fu pat rest
                  | None => c :: remove_all fu pat r
                  end
      end
  end.

Definition s_type_ : str := [x74; x79; x70; x65; x5f].                 (* "type_" *)
Definition s_TYPE_ : str := [x54; x59; x50; x45; x5f].                 (* "TYPE_" *)
Definition s_Value : str := [x56; x61; x6c; x75; x65].                 (* "Value" *)
Definition s_dot_gp_dot : str :=                                        (* ".google.protobuf." *)
  [x2e; x67; x6f; x6f; x67; x6c; x65; x2e; x70; x72; x6f; x74; x6f; x62; x75; x66; x2e].
Definition s_gp : str := [x67; x6f; x6f; x67; x6c; x65; x2e; x70; x72; x6f; x74; x6f; x62; x75; x66].
Definition s_bundled_gp : str :=                                        (* "betterproto.lib.google.protobuf" *)
  [x62; x65; x74; x74; x65; x72; x70; x72; x6f; x74; x6f; x2e; x6c; x69; x62; x2e] ++ s_gp.
Definition s_Duration : str := s_dot_gp_dot ++ [x44; x75; x72; x61; x74; x69; x6f; x6e].
Definition s_Timestamp : str := s_dot_gp_dot ++ [x54; x69; x6d; x65; x73; x74; x61; x6d; x70].

(* ---- compile/importing.py: parse_source_type_name ------------------------------------------
   re.match(r"^\.?([^A-Z]+)\.(.+)", name): group 1 is the longest prefix free of capital letters
   that is followed by a dot and at least one more character; the optional leading dot is tried
   consumed first. [scan_pkg s i best] walks the capital-free prefix of [s] remembering the last
   admissible dot position. *)
Fixpoint scan_pkg (s : str) (i : nat) (best : option nat) : option nat :=
  match s with
  | [] => best
  | c :: r =>
      if is_upper c then best
      else scan_pkg r (S i)
             (if is_dot c && negb (is_nil r) && negb (Nat.eqb i 0) then Some i else best)
  end.

Definition try_parse (s : str) : option (str * str) :=
  match scan_pkg s 0 None with
  | Some k => Some (firstn k s, skipn (S k) s)
  | None => None
  end.

Fixpoint lstrip_dot (s : str) : str :=
  match s with
  | c :: r => if is_dot c then lstrip_dot r else s
  | [] => []
  end.

Definition parse_source_type_name (tn : str) : str * str :=
  let first := match tn with
               | c :: r => if is_dot c then try_parse r else None
               | [] => None
               end in
  match first with
  | Some x => x
  | None => match try_parse tn with
            | Some x => x
            | None => ([], lstrip_dot tn)
            end
  end.

(* ---- plugin/models.py ------------------------------------------------------------------------ *)
Definition is_map (f : field_d) (parent : msg_d) : bool :=
  if fd_type f =? TYPE_MESSAGE_NUM then
    let message_type := lower (last_seg (fd_type_name f)) in
    let map_entry := lower (strip_us (fd_name f)) ++ s_entry in
    if str_eqb message_type map_entry then
      existsb (fun n => str_eqb (lower (strip_us (md_name n))) map_entry && md_map_entry n)
              (md_nested parent)
    else false
  else false.

Definition is_oneof (f : field_d) : bool :=
  negb (fd_proto3_optional f) && match fd_oneof_index f with Some _ => true | None => false end.

(* FieldDescriptorProtoType(t).name *)
Definition type_enum_name (t : Z) : result str :=
  match lookupZ t fdp_type_names with Some n => Ok n | None => Err EValue end.

(* FieldCompiler.field_type: .name.lower().replace("type_", "") *)
Definition field_type_str (t : Z) : result str :=
  do n <- type_enum_name t;
  let l := lower n in Ok (remove_all (length l) s_type_ l).

(* FieldCompiler.field_wraps: the VALUE of betterproto.TYPE_<X> when type_name is
   .google.protobuf.<X>Value (X non-empty) and betterproto has that attribute *)
Definition field_wraps (type_name : str) : option str :=
  match prefix_of s_dot_gp_dot type_name with
  | Some rest =>
      match prefix_of (rev s_Value) (rev rest) with
      | Some rx => if is_nil rx then None else lookup (s_TYPE_ ++ upper (rev rx)) bp_type_constants
      | None => None
      end
  | None => None
  end.

Section Plugin.
  (* compile/naming.py, modelled elsewhere (C19); here: what the plugin calls *)
  Variable field_name : str -> str.                (* pythonize_field_name *)
  Variable class_name : str -> str.                (* pythonize_class_name *)
  Variable enum_member_name : str -> str -> str.   (* pythonize_enum_member_name name enum_name *)

  (* get_type_reference with unwrap=True, up to the choice of import statement: which class of
     which module the annotation denotes *)
  Definition type_reference (pkg : str) (tn : str) : pytype :=
    match lookup tn WRAPPER_TYPES with
    | Some py => PyOptional py
    | None =>
        if str_eqb tn s_Duration then PyTimedelta
        else if str_eqb tn s_Timestamp then PyDatetime
        else let '(sp, name) := parse_source_type_name tn in
             let py_pkg := if str_eqb sp s_gp && negb (str_eqb pkg s_gp) then s_bundled_gp else sp in
             PyRef py_pkg (class_name name)
    end.

  (* FieldCompiler.py_type *)
  Definition py_type (pkg : str) (f : field_d) : result pytype :=
    let t := fd_type f in
    if zmem t PROTO_FLOAT_TYPES then Ok PyFloat
    else if zmem t PROTO_INT_TYPES then Ok PyInt
    else if zmem t PROTO_BOOL_TYPES then Ok PyBool
    else if zmem t PROTO_STR_TYPES then Ok PyStr
    else if zmem t PROTO_BYTES_TYPES then Ok PyBytes
    else if zmem t PROTO_MESSAGE_TYPES then Ok (type_reference pkg (fd_type_name f))
    else Err EOther.                                  (* NotImplementedError *)

  (* betterproto.<ft>_field(number, ...) evaluated at import: the helper must exist and accept the
     keywords it is given *)
  Definition field_helper (ft : str) (wraps : option str) (optional : bool) (group : option str)
    : result str :=
    match lookup ft bp_field_proto_type, lookup ft bp_field_accepts with
    | Some pt, Some (aw, ao, ag) =>
        if (match wraps with Some _ => negb aw | None => false end)
           || (optional && negb ao)
           || (match group with Some _ => negb ag | None => false end)
        then Err EType else Ok pt
    | _, _ => Err EAttribute
    end.

  (* FieldCompiler / OneOfFieldCompiler *)
  Definition compile_plain (pkg : str) (parent : msg_d) (f : field_d) (oneof : bool) : result py_field :=
    do py <- py_type pkg f;                                     (* add_imports_to -> annotation *)
    do ft <- field_type_str (fd_type f);
    do group <- (if oneof then
                   match fd_oneof_index f with
                   | Some i => do g <- py_index (md_oneofs parent) i; Ok (Some g)
                   | None => Err EOther
                   end
                 else Ok None);
    let wraps := field_wraps (fd_type_name f) in
    let optional := fd_proto3_optional f in
    do pt <- field_helper ft wraps optional group;
    let repeated := fd_label f =? LABEL_REPEATED_NUM in        (* is_map(proto_obj, MessageCompiler) is False *)
    let hint := if repeated then PyList py else if optional then PyOptional py else py in
    Ok (mkPyField (field_name (fd_name f)) (fd_number f) pt None group wraps optional hint).

  (* MapEntryCompiler.__post_init__: every nested type the heuristic matches is visited, the last one wins *)
  Definition compile_map (pkg : str) (parent : msg_d) (f : field_d) : result py_field :=
    let map_entry := lower (strip_us (fd_name f)) ++ s_entry in
    let cands := filter (fun n => str_eqb (lower (strip_us (md_name n))) map_entry && md_map_entry n)
                        (md_nested parent) in
    do kvs <- mapM (fun n =>
                do k <- py_index (md_fields n) 0;
                do v <- py_index (md_fields n) 1;
                do pk <- py_type pkg k;
                do pv <- py_type pkg v;
                do nk <- type_enum_name (fd_type k);
                do nv <- type_enum_name (fd_type v);
                Ok (pk, pv, nk, nv)) cands;
    match last (map Some kvs) None with
    | Some (pk, pv, nk, nv) =>
        (* map_field(number, betterproto.<nk>, betterproto.<nv>) evaluated at import *)
        match lookup nk bp_type_constants, lookup nv bp_type_constants with
        | Some ck, Some cvv =>
            do pt <- field_helper s_map None false None;
            Ok (mkPyField (field_name (fd_name f)) (fd_number f) pt (Some (ck, cvv)) None None false
                          (PyDict pk pv))
        | _, _ => Err EAttribute
        end
    | None => Err EOther
    end.

  (* read_protobuf_type, one field *)
  Definition compile_field (pkg : str) (parent : msg_d) (f : field_d) : result py_field :=
    if is_map f parent then compile_map pkg parent f
    else if is_oneof f then compile_plain pkg parent f true
    else compile_plain pkg parent f false.

  (* ---- parser.py: traverse ---------------------------------------------------------------- *)
  Inductive item :=
  | IMsg (flat_name : str) (m : msg_d)       (* m as it is when read_protobuf_type sees it: nested names not yet renamed *)
  | IEnum (flat_name : str) (e : enum_d).

  Fixpoint walk_msg (prefix : str) (m : msg_d) : list item :=
    let nm := prefix ++ c_us :: md_name m in
    IMsg nm m
      :: map (fun e => IEnum (nm ++ c_us :: ed_name e) e) (md_enums m)
      ++ flat_map (walk_msg nm) (md_nested m).

  Definition traverse (f : file_d) : list item :=
    map (fun e => IEnum (c_us :: ed_name e) e) (fl_enums f) ++ flat_map (walk_msg []) (fl_messages f).

  Definition compile_enum (flat_name : str) (e : enum_d) : py_class :=
    (class_name flat_name,
     ClsEnum (map (fun '(n, v) => (enum_member_name n flat_name, v)) (ed_values e))).

  Definition compile_message (pkg : str) (flat_name : str) (m : msg_d) : result py_class :=
    do fs <- mapM (compile_field pkg m) (md_fields m);
    Ok (class_name flat_name, ClsMessage fs).

  Fixpoint items_enums (l : list item) : list py_class :=
    match l with
    | [] => []
    | IEnum nm e :: r => compile_enum nm e :: items_enums r
    | IMsg _ _ :: r => items_enums r
    end.

  Fixpoint items_messages (pkg : str) (l : list item) : result (list py_class) :=
    match l with
    | [] => Ok []
    | IMsg nm m :: r =>
        if md_map_entry m then items_messages pkg r        (* skipped: "we just use dicts" *)
        else do c <- compile_message pkg nm m; do r' <- items_messages pkg r; Ok (c :: r')
    | IEnum _ _ :: r => items_messages pkg r
    end.

  (* generate_code: one OutputTemplate per package (first appearance order); the template emits the
     enums, then the messages; google.protobuf is read but not output *)
  Definition compile_package (D : descriptor) (pkg : str) : result py_module :=
    let items := flat_map traverse (files_of D pkg) in
    do msgs <- items_messages pkg items;
    Ok (pkg, items_enums items ++ msgs).

  Definition compile (D : descriptor) : result (list py_module) :=
    do mods <- mapM (compile_package D) (packages D);
    Ok (filter (fun m => negb (str_eqb (fst m) s_gp)) mods).
End Plugin.

(* directories that receive an __init__.py: one per output package plus every ancestor directory
   (root included): pathlib.Path of the package split at dots, then __init__.py *)
Definition pkg_dir (pkg : str) : list str := filter (fun s => negb (is_nil s)) (split_dot pkg).
Fixpoint prefixes {A} (l : list A) : list (list A) :=
  match l with
  | [] => [[]]
  | a :: r => [] :: map (cons a) (prefixes r)
  end.
Definition output_dirs (D : descriptor) : list (list str) :=
  flat_map (fun p => prefixes (pkg_dir p))
           (filter (fun p => negb (str_eqb p s_gp)) (packages D)).

Definition dir_eqb (a b : list str) : bool := str_eqb (join [c_dot] a) (join [c_dot] b) && (length a =? length b)%nat.
Definition same_dirs (a b : list (list str)) : bool :=
  forallb (fun x => existsb (dir_eqb x) b) a && forallb (fun x => existsb (dir_eqb x) a) b.

(* ---- what Python makes of the emitted text ------------------------------------------------------ *)
Fixpoint ns_insert {A} (k : str) (v : A) (l : list (str * A)) : list (str * A) :=
  match l with
  | [] => [(k, v)]
  | (k', v') :: r => if str_eqb k k' then (k', v) :: r else (k', v') :: ns_insert k v r
  end.
(* a namespace filled by successive bindings: position of the first, value of the last *)
Definition py_namespace {A} (l : list (str * A)) : list (str * A) :=
  fold_left (fun acc kv => ns_insert (fst kv) (snd kv) acc) l [].

Fixpoint norm_hint (t : pytype) : pytype :=
  match t with
  | PyOptional u => match norm_hint u with PyOptional w => PyOptional w | w => PyOptional w end
  | PyList u => PyList (norm_hint u)
  | PyDict k v => PyDict (norm_hint k) (norm_hint v)
  | t => t
  end.

Definition reflect_field (f : py_field) : py_field :=
  mkPyField (pf_name f) (pf_number f) (pf_proto_type f) (pf_map_types f) (pf_group f) (pf_wraps f)
            (pf_optional f) (norm_hint (pf_hint f)).

Definition field_key (f : py_field) : str * py_field := (pf_name f, f).

Definition reflect_class (c : py_class) : py_class :=
  (fst c,
   match snd c with
   | ClsMessage fs => ClsMessage (map snd (py_namespace (map (fun f => field_key (reflect_field f)) fs)))
   | ClsEnum ms => ClsEnum (py_namespace ms)
   end).

Definition reflect_module (m : py_module) : py_module :=
  (fst m, py_namespace (map reflect_class (snd m))).

Definition reflect (r : result (list py_module)) : result class_table :=
  match r with Ok mods => Ok (map reflect_module mods) | Err k => Err k end.

(* ---- instantiating the naming functions from tables (harness: the real functions' values) ---- *)
Definition tbl_fn (t : list (str * str)) (s : str) : str :=
  match lookup s t with Some v => v | None => x3f :: s end.
Definition tbl_fn2 (t : list (str * str)) (a b : str) : str :=
  match lookup (a ++ x00 :: b) t with Some v => v | None => x3f :: a end.

Definition cv_opt_table (o : option class_table) : cv :=
  match o with Some t => cv_table t | None => CN end.

(* one module of a table, as a canonical value (harness: per-module comparison) *)
Definition cv_module (m : py_module) : cv := CL [CB (fst m); CL (map cv_class (snd m))].
Definition find_module (pkg : str) (t : class_table) : option py_module :=
  find (fun m => str_eqb (fst m) pkg) t.
Definition cv_res_module (pkg : str) (r : result class_table) : cv :=
  match r with
  | Ok t => copt cv_module (find_module pkg t)
  | Err k => CE k
  end.
Definition cv_opt_module (pkg : str) (o : option class_table) : cv :=
  match o with
  | Some t => copt cv_module (find_module pkg t)
  | None => CE EOther
  end.
Definition cv_res_packages (r : result class_table) : cv :=
  match r with Ok t => CL (map (fun m => CB (fst m)) t) | Err k => CE k end.
Definition cv_pair (p : str * str) : cv := CL [CB (fst p); CB (snd p)].

(* the classes of one module compared as a SET with what the harness read from the imported package: the
   order in which a module defines its classes is not part of the property (field order within a class is) *)
Definition cv_list_perm_eqb (a b : list cv) : bool :=
  (length a =? length b)%nat
  && forallb (fun x => existsb (cv_eqb x) b) a && forallb (fun y => existsb (cv_eqb y) a) b.
Definition module_matches (pkg : str) (t : class_table) (real : list cv) : bool :=
  match find_module pkg t with
  | Some m => cv_list_perm_eqb (map cv_class (snd m)) real
  | None => false
  end.
Definition res_module_matches (pkg : str) (r : result class_table) (real : list cv) : bool :=
  match r with Ok t => module_matches pkg t real | Err _ => false end.
Definition opt_module_matches (pkg : str) (o : option class_table) (real : list cv) : bool :=
  match o with Some t => module_matches pkg t real | None => false end.
