(* C17: Message.load's loop (Model/Decode.v [load]) restated in named pieces, so that the
   theorems can speak about one record at a time:

     decode_value   the value a fitting record denotes (packed run, varint post-processing,
                    struct.unpack, nested message / map entry / Timestamp / Duration / wrapper)
     store_value    current = getattr(...) / default; map merge, list append or setattr
     apply_field    unknown number or non-fitting wire type -> _unknown_fields += raw; else the two above
     loop_r         the `for parsed in load_fields(stream)` loop with its size accounting
     load_r         Message.load

   Proofs/C17StepP.v proves  load = load_r  (for all arguments), so nothing here is trusted:
   the correspondence check runs against Model/Decode.v and the theorems are transported. *)
From BP Require Import Base.Prelude Model.Types Model.Varint Model.Scalar Model.Float Model.Utf8.
From BP Require Import Model.Object Model.Eq Model.TimeCore Model.Decode.
From BP Require Import gen.Tables.

Definition add_unknown (o : obj) (bs : list byte) : obj :=
  let 'Obj c raw sow unk cur := o in Obj c raw sow (unk ++ bs) cur.

Definition set_raw (o : obj) (i : nat) (v : pv) : obj :=
  let 'Obj c raw sow unk cur := o in Obj c (set_nth i v raw) sow unk cur.

Section Step.
  Variable sc : schema.
  (* cls().parse(payload) for the class with index c' *)
  Variable pn : nat -> list byte -> result obj.

  (* the WIRE_LEN_DELIM branch of _postprocess_single for a non-packed field *)
  Definition post_len_r (t : ptype) (ety : pyty) (wraps : option ptype) (bs : list byte) : result pv :=
    if ptype_eqb t TString then
      if utf8_valid bs then Ok (PStr bs) else Err EUnicode
    else if ptype_eqb t TMessage then
      match ety, wraps with
      | PyDatetime, _ =>
          do m <- pn timestamp_cls bs;
          match snd (getattr sc m 0), snd (getattr sc m 1) with
          | Ok (PInt sec), Ok (PInt nan) => do us <- us_of_ts sec nan; Ok (PDatetime us)
          | _, _ => Err EType
          end
      | PyTimedelta, _ =>
          do m <- pn duration_cls bs;
          match snd (getattr sc m 0), snd (getattr sc m 1) with
          | Ok (PInt sec), Ok (PInt nan) => do us <- us_of_dur sec nan; Ok (PTimedelta us)
          | _, _ => Err EType
          end
      | _, Some w =>
          match wrapper_cls w with
          | None => Err EKey
          | Some wc => do m <- pn wc bs; snd (getattr sc m 0)
          end
      | PyMsg c', None => do m <- pn c' bs; Ok (mark_sow (PMsg m))
      | _, None => Err EType
      end
    else Ok (PBytes bs).

  Definition decode_value (f : fdesc) (p : parsed) : result pv :=
    if (pwt p =? WIRE_LEN_DELIM) && tmem (fty f) PACKED_TYPES then
      do l <- unpack_packed (Datatypes.S (length (pbytes p))) (fty f) (pbytes p); Ok (PList l)
    else if pwt p =? WIRE_VARINT then Ok (postprocess_varint (fty f) (pint p))
    else if (pwt p =? WIRE_FIXED_32) || (pwt p =? WIRE_FIXED_64) then unpack_value (fty f) (pbytes p)
    else if ptype_eqb (fty f) TMap then
      do e <- pn (fentry f) (pbytes p); Ok (PMsg e)
    else post_len_r (fty f) (hint_elem (fhint f)) (fwraps f) (pbytes p).

  (* try: current = getattr(self, name) except AttributeError: current = default; setattr(self, name, current) *)
  Definition fetch_current (o : obj) (i : nat) (f : fdesc) : obj * pv :=
    match getattr sc o i with
    | (o', Ok cur_v) => (o', cur_v)
    | (_, Err _) => let d := default_of sc f in (setattr sc o i d, d)
    end.

  Definition store_value (o : obj) (i : nat) (f : fdesc) (value : pv) : result obj :=
    let '(o, current) := fetch_current o i f in
    if ptype_eqb (fty f) TMap then
      match value, current with
      | PMsg e, PDict d =>
          match getattr sc e 0, getattr sc e 1 with
          | (_, Ok k), (_, Ok v) => Ok (set_raw o i (PDict (dict_set d sc k v)))
          | _, _ => Err EAttribute
          end
      | _, _ => Err EType
      end
    else
      match current with
      | PList l =>
          let l' := match value with PList vs => l ++ vs | _ => l ++ [value] end in
          Ok (set_raw o i (PList l'))
      | _ => Ok (setattr sc o i value)
      end.

  Definition apply_field (cd : cdesc) (o : obj) (p : parsed) : result obj :=
    match field_by_number cd (pnum p) with
    | None => Ok (add_unknown o (praw p))
    | Some (i, f) =>
        if negb (wire_type_fits f (pwt p)) then Ok (add_unknown o (praw p))
        else do value <- decode_value f p; store_value o i f value
    end.

  (* _load_field with the fuel of this level *)
  Variable lf : list byte -> Z -> list byte -> result (parsed * list byte).
  Variable size : option Z.
  Variable cd : cdesc.

  Definition account (read : Z) (p : parsed) : result Z :=
    match size with
    | Some sz => let read' := read + Zlength (praw p) in
                 if sz <? read' then Err EValue else Ok read'
    | None => Ok read
    end.

  Definition finished (read : Z) : bool :=
    match size with Some sz => read =? sz | None => false end.

  Fixpoint loop_r (n : nat) (o : obj) (s : list byte) (read : Z) {struct n} : result (obj * list byte) :=
    match n with
    | O => Err EFuel
    | S n' =>
        match s with
        | [] =>
            match size with
            | Some sz => if read <? sz then Err EValue else Ok (o, s)
            | None => Ok (o, s)
            end
        | _ =>
            do (num_wire, r, s1) <- load_varint s;
            do (p, s2) <- lf s1 num_wire r;
            do read <- account read p;
            do o' <- apply_field cd o p;
            if finished read then Ok (o', s2) else loop_r n' o' s2 read
        end
    end.
End Step.

Definition read_size (size : option Z) (s : list byte) : result (option Z * list byte) :=
  match size with
  | Some n => if n =? SIZE_DELIMITED
              then do (n', _, s') <- load_varint s; Ok (Some n', s')
              else Ok (Some n, s)
  | None => Ok (None, s)
  end.

Definition mark_on_wire (o : obj) : obj :=
  let 'Obj c raw _ unk cur := o in Obj c raw true unk cur.

Fixpoint load_r (fuel : nat) (sc : schema) (o : obj) (s : list byte) (size : option Z)
  {struct fuel} : result (obj * list byte) :=
  match fuel with
  | O => Err EFuel
  | S fuel' =>
      do (size, s) <- read_size size s;
      let o := mark_on_wire o in
      match size with
      | Some 0 => Ok (o, s)
      | _ =>
          loop_r sc (fun c' bs => do (o', _) <- load_r fuel' sc (new sc c') bs None; Ok o')
                 (load_field fuel') size (get_class sc (ocls o)) (Datatypes.S (length s)) o s 0
      end
  end.

(* Cls().parse(payload) at a given fuel *)
Definition pn_of (fuel : nat) (sc : schema) (c' : nat) (bs : list byte) : result obj :=
  do (o', _) <- load_r fuel sc (new sc c') bs None; Ok o'.
