(* C07: the operation alphabet of the property's quantifier on top of Model/History.v.
   History.step has set / get / parse / copy / deepcopy / pickle / observers; the property also
   names "construct with kwargs" and "from_dict".  Both are modelled here at the level of the
   constructor arguments: [kw] is the list (field index, value) of the keyword arguments, for
   from_dict the result of Message._from_dict_init (JSON values already converted to Python
   values; that conversion is C04's subject, Model/Json.v).

     Cls(kwargs = kw)              construct sc c kw                      (Model/Object.v)
     Cls.from_dict(d)       cls(kwargs = kw); self._serialized_on_wire = True
     m.from_dict(d)         self._serialized_on_wire = True; setattr(self, k, v) in dict order

   [trace7] runs a history and returns, after every operation, the canonical snapshot the
   correspondence check compares with the real object: raw state, which_one_of of every group,
   the outcome of reading every field, bytes(m). *)
From BP Require Import Base.Prelude Model.Types Model.Object Model.Eq Model.Encode Model.Decode.
From BP Require Import Model.History Model.Canon.

Inductive op7 :=
| OBase (p : op)
| OConstruct (kw : list (nat * pv))        (* continue with Cls(kwargs = kw), same class *)
| OFromDictCls (kw : list (nat * pv))      (* continue with Cls.from_dict(d) *)
| OFromDictInst (kw : list (nat * pv)).    (* m.from_dict(d) on the existing object *)

Definition set_sow (o : obj) : obj := let 'Obj c raw _ unk cur := o in Obj c raw true unk cur.

Definition setattrs (sc : schema) (o : obj) (kw : list (nat * pv)) : obj :=
  fold_left (fun o '(i, v) => setattr sc o i v) kw o.

Definition from_dict_cls (sc : schema) (c : nat) (kw : list (nat * pv)) : obj :=
  set_sow (construct sc c kw).

Definition from_dict_inst (sc : schema) (o : obj) (kw : list (nat * pv)) : obj :=
  setattrs sc (set_sow o) kw.

Definition step7 (sc : schema) (o : obj) (p : op7) : result (obj * out) :=
  match p with
  | OBase p => step sc o p
  | OConstruct kw => Ok (construct sc (ocls o) kw, ONone)
  | OFromDictCls kw => Ok (from_dict_cls sc (ocls o) kw, ONone)
  | OFromDictInst kw => Ok (from_dict_inst sc o kw, ONone)
  end.

Fixpoint run7 (sc : schema) (o : obj) (ops : list op7) : result obj :=
  match ops with
  | [] => Ok o
  | p :: r => do (o', _) <- step7 sc o p; run7 sc o' r
  end.

(* ---- snapshots for the correspondence ---- *)
Definition cv_of_out (x : out) : cv :=
  match x with
  | ONone => CN
  | OVal r => cv_pv_res r
  | OBytesOut r => cv_bytes_res r
  | OZ r => cv_z_res r
  | OB b => cbool b
  end.

Definition snapshot (sc : schema) (o : obj) (x : out) : cv :=
  let cd := get_class sc (ocls o) in
  CL [cv_of_obj o;
      CL (map (fun g => copt (fun n => CZ (Z.of_nat n)) (which_one_of o g)) (seq 0 (cngroups cd)));
      CL (map (fun i => cv_pv_res (read sc o i)) (seq 0 (length (cfields cd))));
      cv_bytes_res (enc_obj sc o);
      cv_of_out x].

Fixpoint trace7 (sc : schema) (o : obj) (ops : list op7) : list cv :=
  match ops with
  | [] => []
  | p :: r =>
      match step7 sc o p with
      | Ok (o', x) => snapshot sc o' x :: trace7 sc o' r
      | Err _ => [CE EOther]
      end
  end.
