(* C01, reachability conditions EVALUATED on histories that were run on the implementation (harness/c01reach.py).
   No code is modelled here and nothing the theorems use is defined here: this file only names the six clauses of
   [op_reach_ok_p] (Model/C01Reach.v, Model/C01Parse.v) one by one, so that the check can count which clause a
   generated history fails, and packs the verdicts about one history into a canonical value.
   Proofs/C01ReachCvP.v shows that the six clauses together ARE op_reach_ok_p, per operation and per history.

     cl_vals      every value handed to the constructor / from_dict / __setattr__ (any depth) is a value of its field
     cl_groups    constructor / Cls.from_dict kwargs name at most one member per oneof group
     cl_pickle    pickle: bytes(m) is shorter than 2^64 bytes
     cl_parse     m.parse(bs): clean_bytes (every record names a declared field, fits, decodes to a clean value in range)
     cl_kwflags   a sub-message handed to the constructor / from_dict with its flag down is all-default in a plain field
                  outside every oneof
     cl_setflags  the same for __setattr__, and in m.a.b.x = v the holders strictly between m and the object assigned
                  to are flagged (K12 outside) *)
From BP Require Import Base.Prelude Model.Types Model.Object Model.Eq Model.Encode Model.Decode Model.WellFormed Model.Canon.
From BP Require Import Model.History Model.C07Ops Model.C01Def Model.C01Reach Model.C01Parse Model.C01Deep.

Definition cl_vals (sc : schema) (o : obj) (p : op7) : bool :=
  match p with
  | OBase (OSet path i v) => set_ok sc o path i v
  | OConstruct kw | OFromDictCls kw | OFromDictInst kw => kw_vals_ok sc (ocls o) kw
  | _ => true
  end.

Definition cl_groups (sc : schema) (o : obj) (p : op7) : bool :=
  match p with
  | OConstruct kw | OFromDictCls kw => kw_groups_ok sc (ocls o) kw
  | _ => true
  end.

Definition cl_pickle (sc : schema) (o : obj) (p : op7) : bool :=
  match p with
  | OBase OPickle => pickle_small sc o
  | _ => true
  end.

Definition cl_parse (sc : schema) (o : obj) (p : op7) : bool :=
  match p with
  | OBase (OParse bs) => clean_bytes sc (ocls o) bs
  | _ => true
  end.

Definition cl_kwflags (sc : schema) (o : obj) (p : op7) : bool :=
  match p with
  | OConstruct kw | OFromDictCls kw | OFromDictInst kw => kw_flags_ok sc (ocls o) kw
  | _ => true
  end.

Definition cl_setflags (sc : schema) (o : obj) (p : op7) : bool :=
  match p with
  | OBase (OSet path i v) => set_flags_ok sc o path i v
  | _ => true
  end.

Definition clauses : list (schema -> obj -> op7 -> bool) :=
  [cl_vals; cl_groups; cl_pickle; cl_parse; cl_kwflags; cl_setflags].

(* everything the check asks about one history, from Cls() *)
Definition hist_verdicts (sc : schema) (c : nat) (ops : list op7) : list cv :=
  let o0 := new sc c in
  cbool (hist_ok op_reach_ok_p sc o0 ops) :: map (fun cl => cbool (hist_ok cl sc o0 ops)) clauses.

(* ... and about the state it ended in (the snapshot of the REAL object is passed in) *)
Definition state_verdicts (sc : schema) (o : obj) : list cv :=
  [cbool (c01_value_ok sc o); cbool (sow_ok sc o); cbool (c01_holds sc o);
   cbool (deep_sow_ok sc o); cbool (deep_mapvals_emit sc o)].

Definition reach_cv (sc : schema) (c : nat) (ops : list op7) (final : obj) : cv :=
  CL (cv_obj_res (run7 sc (new sc c) ops) :: hist_verdicts sc c ops ++ state_verdicts sc final).

(* positions (0-based) at which [reach_cv] differs from what the harness expects: position 0 is the final state (expected:
   the snapshot itself), positions 1.. are the booleans of [expected] *)
Definition reach_diff (sc : schema) (c : nat) (ops : list op7) (final : obj) (expected : list Z) : cv :=
  match reach_cv sc c ops final with
  | CL got => CL (map CZ (mismatches (combine got (cv_of_obj final :: map CZ expected))))
  | x => x
  end.

(* one component *)
Definition reach_at (k : nat) (sc : schema) (c : nat) (ops : list op7) (final : obj) : cv :=
  match reach_cv sc c ops final with
  | CL got => nth k got CN
  | x => x
  end.
