(* L1 mirror of the Timestamp / Duration conversions of src/betterproto/__init__.py:
     _Timestamp.from_datetime / to_datetime / timestamp_to_json
     _Duration.from_timedelta / to_timedelta / delta_to_json
     datetime_default_gen / DATETIME_ZERO
     the datetime / timedelta dispatch of _preprocess_single, _len_preprocessed_single,
     _postprocess_single, and the Timestamp / Duration branches of to_dict / _from_dict_init
   plus the two-field (seconds = 1 : int64, nanos = 2 : int32) message encoder / decoder
   (Message.dump / Message.load restricted to what these messages need).

   TWO variants of the float-using functions live here:
   * the plain names mirror the code AFTER the repairs fixes/c15-duration-integer.patch and
     fixes/c15-json-forms.patch (integer arithmetic; DESIGN section 5, F7; landed in /repo as the
     fix commits "Duration <-> timedelta conversion in integer arithmetic" and "Duration JSON is
     written and read without floats; Timestamp fraction taken in UTC") - these are what the
     correspondence check compares with the live tree and what the positive theorems are about;
   * the names ending in [_pinned] mirror the code of the pinned commit, which computes through
     Python floats.  binary64 arithmetic is modelled EXACTLY over Z ([rn]: round-to-nearest-even of a
     rational), so the [_refuted] witnesses are closed terms computed by vm_compute; [rn] itself is
     cross-checked against Coq's primitive (hardware) floats in Proofs/TimeP.v and against CPython
     in the harness.

   Modelling conventions (trusted, sampled by the harness):
   * an aware datetime is (wall, off): microseconds of its local wall clock since
     1970-01-01T00:00:00 and its fixed UTC offset in microseconds.  Python compares and
     subtracts aware datetimes by instant, wall - off.
   * a timedelta is its total number of microseconds; days / seconds / microseconds are
     CPython's normal form (floor division).
   * the calendar part of isoformat() / isoparse() is an oracle: the JSON functions take the
     "YYYY-MM-DDTHH:MM:SS" text as an argument and model the fraction / sign / suffix logic.
   No proofs here. *)
From BP Require Import Base.Prelude Model.Varint Model.Scalar Spec.Time.
(* from Spec.Time only the decimal notation is used: digit dec pad dval span_digits is_digit
   and the character constants; it stands for Python's int -> str / str -> int *)

(* ====================================================================================== *)
(* datetime / timedelta                                                                    *)
(* ====================================================================================== *)
Record datetime := mkdt { wall : Z; off : Z }.
Definition instant (dt : datetime) : Z := wall dt - off dt.

Definition DAY_US : Z := 86400000000.
Definition td_days (us : Z) : Z := us / DAY_US.
Definition td_seconds (us : Z) : Z := (us mod DAY_US) / 1000000.
Definition td_microseconds (us : Z) : Z := us mod 1000000.

(* timedelta(seconds=s, microseconds=u) with int arguments: OverflowError beyond +-999999999 days *)
Definition timedelta_new (seconds microseconds : Z) : result Z :=
  let us := seconds * 1000000 + microseconds in
  if Z.abs (td_days us) >? 999999999 then Err EOverflow else Ok us.

(* datetime.min / datetime.max as wall-clock microseconds *)
Definition DT_MIN_US : Z := -62135596800000000.
Definition DT_MAX_US : Z := 253402300799999999.

(* datetime_default_gen(): datetime(1970, 1, 1, tzinfo=timezone.utc) *)
Definition DATETIME_ZERO : datetime := mkdt 0 0.

(* aware - aware *)
Definition dt_sub (a b : datetime) : Z := instant a - instant b.
(* datetime + timedelta: same tzinfo, OverflowError outside year 1..9999 *)
Definition dt_add (a : datetime) (d : Z) : result datetime :=
  let w := wall a + d in
  if (w <? DT_MIN_US) || (DT_MAX_US <? w) then Err EOverflow else Ok (mkdt w (off a)).

(* ====================================================================================== *)
(* _Timestamp                                                                              *)
(* ====================================================================================== *)
(*  offset = dt - DATETIME_ZERO
    offset_us = (offset.days * 24 * 60 * 60 + offset.seconds) * 10**6 + offset.microseconds
    seconds, us = divmod(offset_us, 10**6)
    return cls(seconds, us * 1000) *)
Definition from_datetime (dt : datetime) : Z * Z :=
  let offset := dt_sub dt DATETIME_ZERO in
  let offset_us := (td_days offset * 24 * 60 * 60 + td_seconds offset) * 10 ^ 6 + td_microseconds offset in
  let seconds := offset_us / 10 ^ 6 in
  let us := offset_us mod 10 ^ 6 in
  (seconds, us * 1000).

(*  offset = timedelta(seconds=self.seconds, microseconds=self.nanos // 1000)
    return DATETIME_ZERO + offset *)
Definition to_datetime (seconds nanos : Z) : result datetime :=
  do offset <- timedelta_new seconds (nanos / 1000);
  dt_add DATETIME_ZERO offset.

(* ====================================================================================== *)
(* _Duration (after fixes/c15-duration-integer.patch)                                      *)
(* ====================================================================================== *)
(*  total_us = delta // _1_microsecond
    seconds, us = divmod(total_us, 10**6)
    if seconds < 0 and us > 0: seconds += 1; us -= 10**6
    return cls(seconds, us * 1000) *)
Definition from_timedelta (total_us : Z) : Z * Z :=
  let seconds := total_us / 10 ^ 6 in
  let us := total_us mod 10 ^ 6 in
  if (seconds <? 0) && (0 <? us) then (seconds + 1, (us - 10 ^ 6) * 1000) else (seconds, us * 1000).

(*  us = abs(self.nanos) // 1000
    return timedelta(seconds=self.seconds, microseconds=us if self.nanos >= 0 else -us) *)
Definition to_timedelta (seconds nanos : Z) : result Z :=
  let us := Z.abs nanos / 1000 in
  timedelta_new seconds (if 0 <=? nanos then us else - us).

(* ====================================================================================== *)
(* Message.dump / __bytes__ for the two-field messages and for a message with one           *)
(* datetime / timedelta field numbered [fno]                                                *)
(* ====================================================================================== *)
Definition key_of (fno wt : Z) : Z := Z.lor (Z.shiftl fno 3) wt.

(* dump: a plain scalar equal to its default (0) is skipped; else key + encode_varint(value).
   int32 / int64 are both `encode_varint(value)`: negatives wrap to 64 bits inside it. *)
Definition ser_varint_field (fno v : Z) : result (list byte) :=
  if v =? 0 then Ok []
  else do k <- encode_varint (key_of fno 0); do b <- encode_varint v; Ok (k ++ b).

(* bytes(_Timestamp(seconds, nanos)) = bytes(_Duration(seconds, nanos)) *)
Definition bytes_sn (seconds nanos : Z) : result (list byte) :=
  do a <- ser_varint_field 1 seconds; do b <- ser_varint_field 2 nanos; Ok (a ++ b).

(* _serialize_single(fno, TYPE_MESSAGE, value): key, length, payload *)
Definition ser_msg_field (fno : Z) (inner : list byte) : result (list byte) :=
  do k <- encode_varint (key_of fno 2); do l <- encode_varint (Zlength inner); Ok (k ++ l ++ inner).

(* bytes(M(field=dt)): `value == DATETIME_ZERO` (same instant) is the default and is skipped *)
Definition bytes_ts (fno : Z) (dt : datetime) : result (list byte) :=
  if instant dt =? 0 then Ok []
  else let '(s, n) := from_datetime dt in do inner <- bytes_sn s n; ser_msg_field fno inner.

(* bytes(M(field=td)): `value == timedelta(0)` is skipped *)
Definition bytes_dur (fno : Z) (total_us : Z) : result (list byte) :=
  if total_us =? 0 then Ok []
  else let '(s, n) := from_timedelta total_us in do inner <- bytes_sn s n; ser_msg_field fno inner.

(* len(m): _len_preprocessed_single computes len(bytes(value)) for these fields *)
Definition len_ts (fno : Z) (dt : datetime) : result Z := do b <- bytes_ts fno dt; Ok (Zlength b).
Definition len_dur (fno : Z) (total_us : Z) : result Z := do b <- bytes_dur fno total_us; Ok (Zlength b).

(* ====================================================================================== *)
(* load_fields / Message.load                                                               *)
(* ====================================================================================== *)
Inductive pval := PVar (v : Z) | PRaw (b : list byte).

(* _read_exactly(stream, n): EOFError unless n bytes are there *)
Definition read_exactly (n : Z) (l : list byte) : result (list byte * list byte) :=
  if Zlength l <? n then Err EEof else Ok (firstn (Z.to_nat n) l, skipn (Z.to_nat n) l).

(* one turn of load_fields / _load_field + the body of the `for parsed in load_fields(stream)`
   loop of Message.load (size=None), the latter abstracted as the handler
   [h state number wire_type value].  The stream ending BEFORE a key ends the message; ending
   inside a key (_TruncatedVarint) or inside a payload is EOFError; field number 0 and wire types
   4 (stray end-group), 6, 7 are ValueError.  Groups (wire type 3) are skipped by the code; they are
   outside this model (EOther).  Every turn consumes at least the key byte, so
   fuel = S (length bs) never runs out (EFuel is dead). *)
Definition read_payload (wt : Z) (r1 : list byte) : result (pval * list byte) :=
  if wt =? 0 then do (v, _, r) <- load_varint r1; Ok (PVar v, r)
  else if wt =? 1 then do (p, r) <- read_exactly 8 r1; Ok (PRaw p, r)
  else if wt =? 2 then do (len, _, r) <- load_varint r1; do (p, r') <- read_exactly len r; Ok (PRaw p, r')
  else if wt =? 5 then do (p, r) <- read_exactly 4 r1; Ok (PRaw p, r)
  else if wt =? 3 then Err EOther
  else Err EValue.

Definition load_step {A} (h : A -> Z -> Z -> pval -> result A) (rec : list byte -> A -> result A)
    (bs : list byte) (st : A) : result A :=
  do (key, _, r1) <- load_varint bs;
  let num := Z.shiftr key 3 in
  let wt := Z.land key 7 in
  if num =? 0 then Err EValue else
  do (pv, r2) <- read_payload wt r1;
  do st' <- h st num wt pv;
  rec r2 st'.

Fixpoint load_loop {A} (h : A -> Z -> Z -> pval -> result A) (fuel : nat) (bs : list byte) (st : A) : result A :=
  match fuel with
  | O => Err EFuel
  | S f =>
      match bs with
      | [] => Ok st
      | _ :: _ => load_step h (load_loop h f) bs st
      end
  end.

(* Timestamp / Duration: seconds = 1 : int64, nanos = 2 : int32 (gen.Tables.timestamp_fields /
   duration_fields).  Unknown field numbers, and known ones that come with a wire type their
   declared type cannot have (_wire_type_fits), go to _unknown_fields and do not affect the
   conversion.  _postprocess_single: int64 / int32 sign recovery. *)
Definition h_sn (st : Z * Z) (num wt : Z) (pv : pval) : result (Z * Z) :=
  let '(s, n) := st in
  match pv with
  | PVar v => if (num =? 1) && (wt =? 0) then Ok (sign_recover 64 v, n)
              else if (num =? 2) && (wt =? 0) then Ok (s, sign_recover 32 v)
              else Ok st
  | PRaw _ => Ok st
  end.

(* _Timestamp().parse(value) / _Duration().parse(value): fields start at their defaults (0, 0) *)
Definition parse_sn (bs : list byte) : result (Z * Z) := load_loop h_sn (S (length bs)) bs (0, 0).

(* the message with one datetime / timedelta field [fno]: _postprocess_single converts each
   occurrence as it is met, setattr keeps the last *)
Definition h_outer {A} (conv : list byte -> result A) (fno : Z) (st : A) (num wt : Z) (pv : pval) : result A :=
  match pv with
  | PRaw p => if (num =? fno) && (wt =? 2) then conv p else Ok st
  | PVar _ => Ok st
  end.

(* M().parse(bs).field; an unset field reads as its default *)
Definition parse_ts (fno : Z) (bs : list byte) : result datetime :=
  load_loop (h_outer (fun p => do (s, n) <- parse_sn p; to_datetime s n) fno) (S (length bs)) bs DATETIME_ZERO.
Definition parse_dur (fno : Z) (bs : list byte) : result Z :=
  load_loop (h_outer (fun p => do (s, n) <- parse_sn p; to_timedelta s n) fno) (S (length bs)) bs 0.

(* ====================================================================================== *)
(* JSON forms (after fixes/c15-json-forms.patch)                                            *)
(* ====================================================================================== *)
Definition c0 : byte := x30.
(* f"{x:0kd}" for x >= 0: at least k digits *)
Definition fmt0 (k : nat) (x : Z) : list byte := let s := dec x in repeat c0 (k - length s) ++ s.

(*  nanos = dt.microsecond * 1e3           (float, exact: < 2^53)
    if (nanos % 1e9) == 0: return f"{result}Z"
    if (nanos % 1e6) == 0: return f"{result}.{int(nanos // 1e6):03d}Z"
    if (nanos % 1e3) == 0: return f"{result}.{int(nanos // 1e3):06d}Z"
    return f"{result}.{nanos:09d}"         (format code 'd' on a float: ValueError; dead, see TimeP)
   [cal] = result = the isoformat() of the UTC wall clock without microseconds (oracle). *)
Definition timestamp_to_json_us (cal : list byte) (microsecond : Z) : result (list byte) :=
  let nanos := microsecond * 1000 in
  if nanos mod 1000000000 =? 0 then Ok (cal ++ [cZ])
  else if nanos mod 1000000 =? 0 then Ok (cal ++ [cDOT] ++ fmt0 3 (nanos / 1000000) ++ [cZ])
  else if nanos mod 1000 =? 0 then Ok (cal ++ [cDOT] ++ fmt0 6 (nanos / 1000) ++ [cZ])
  else Err EValue.

(* after the repair dt.microsecond is read AFTER dt.astimezone(timezone.utc) *)
Definition timestamp_to_json (cal : list byte) (dt : datetime) : result (list byte) :=
  timestamp_to_json_us cal (instant dt mod 1000000).

(*  total_us = delta // timedelta(microseconds=1)
    sign = "-" if total_us < 0 else ""
    seconds, us = divmod(abs(total_us), 10**6)
    if us % 1000 == 0: return f"{sign}{seconds}.{us // 1000:03d}s"
    return f"{sign}{seconds}.{us:06d}s" *)
Definition delta_to_json (total_us : Z) : list byte :=
  let sign := if total_us <? 0 then [cMINUS] else [] in
  let a := Z.abs total_us in
  let seconds := a / 10 ^ 6 in
  let us := a mod 10 ^ 6 in
  if us mod 1000 =? 0 then sign ++ dec seconds ++ [cDOT] ++ fmt0 3 (us / 1000) ++ [cS]
  else sign ++ dec seconds ++ [cDOT] ++ fmt0 6 us ++ [cS].

(* to_dict()[field] of the one-field message: defaults are left out (None) *)
Definition to_dict_ts (cal : list byte) (dt : datetime) : result (option (list byte)) :=
  if instant dt =? 0 then Ok None else do s <- timestamp_to_json cal dt; Ok (Some s).
Definition to_dict_dur (total_us : Z) : option (list byte) :=
  if total_us =? 0 then None else Some (delta_to_json total_us).

(* _from_dict_init, timedelta branch after the repair:
     timedelta(microseconds=int(Decimal(value[:-1]).scaleb(6)))
   Modelled grammar of the Decimal literal: [+-]? DIGITS ["." DIGITS] with at least one digit and
   at most 28 significant digits (Decimal's default precision); anything else is EOther = "outside
   the model" (Decimal also reads exponents, "Infinity", underscores ...).  int() truncates toward zero. *)
(* the literal grammar shared by both variants: sign, integer digits, fraction digits *)
Definition dec_tokens (body : list byte) : option (bool * list byte * list byte) :=
  let '(neg, r0) := match body with
                    | b :: r => if Byte.eqb b cMINUS then (true, r) else if Byte.eqb b cPLUS then (false, r) else (false, body)
                    | [] => (false, body)
                    end in
  let '(ip, r1) := span_digits r0 in
  let '(fp, r2) := match r1 with
                   | b :: r => if Byte.eqb b cDOT then span_digits r else ([], r1)
                   | [] => ([], r1)
                   end in
  if is_nil r2 && negb (is_nil (ip ++ fp)) then Some (neg, ip, fp) else None.

Definition parse_duration (v : list byte) : result Z :=
  match dec_tokens (removelast v) with
  | None => Err EOther
  | Some (neg, ip, fp) =>
      let mag := dval ip * 10 ^ 6 + dval (firstn 6 (fp ++ repeat c0 6)) in
      timedelta_new 0 (if neg then - mag else mag)
  end.

(* ====================================================================================== *)
(* binary64, exactly: the arithmetic the PINNED code goes through                          *)
(* ====================================================================================== *)
(* a finite double is (m, e), value m * 2^e, with m = 0 /\ e = 0 or 2^52 <= |m| < 2^53.
   Subnormals / overflow cannot occur for the magnitudes that arise here (1e-6 .. 1e20). *)
Definition fl := (Z * Z)%type.

(* round-to-nearest, ties-to-even, of the rational n / d, n > 0, d > 0 *)
Definition rn_pos (n d : Z) : fl :=
  let k := Z.log2 n - Z.log2 d in                 (* 2^(k-1) < n/d < 2^(k+1) *)
  let fl_at e := if 0 <=? e then n / (d * 2 ^ e) else (n * 2 ^ (- e)) / d in
  let e := if 2 ^ 52 <=? fl_at (k - 52) then k - 52 else k - 53 in
  let num := if 0 <=? e then n else n * 2 ^ (- e) in
  let den := if 0 <=? e then d * 2 ^ e else d in
  let q := num / den in
  let r := num mod den in
  let q' := if 2 * r <? den then q else if den <? 2 * r then q + 1 else if Z.even q then q else q + 1 in
  if q' =? 2 ^ 53 then (2 ^ 52, e + 1) else (q', e).

Definition rn (n d : Z) : fl :=
  if n =? 0 then (0, 0)
  else if n <? 0 then let '(m, e) := rn_pos (- n) d in (- m, e)
  else rn_pos n d.

Definition fl_num (x : fl) : Z := let '(m, e) := x in if 0 <=? e then m * 2 ^ e else m.
Definition fl_den (x : fl) : Z := let '(m, e) := x in if 0 <=? e then 1 else 2 ^ (- e).
Definition fl_eqb (x y : fl) : bool := (fst x =? fst y) && (snd x =? snd y).
(* int(x) / modf: toward zero *)
Definition fl_trunc (x : fl) : Z := Z.quot (fl_num x) (fl_den x).

(* the end of CPython's delta_new: x whole microseconds collected so far, leftover = ln/ld
   (|leftover| < 1) rounded half-to-even with respect to the parity of x *)
Definition td_round (x ln ld : Z) : Z :=
  let a := Z.abs ln in
  let sg := if ln <? 0 then -1 else 1 in
  if 2 * a <? ld then x
  else if ld <? 2 * a then x + sg
  else if Z.even x then x else x + sg.

(* ---- pinned _Duration.from_timedelta ----
     total_ms = delta // _1_microsecond
     seconds = int(total_ms / 1e6)
     nanos = int((total_ms % 1e6) * 1e3)
   int / float and int % float first convert the int to the nearest double [x]; [x] is
   integer-valued, so fmod is exact and (Python gives the sign of the divisor) equals the floor
   remainder of its integer value; the product with 1e3 is below 2^53, hence exact. *)
Definition from_timedelta_pinned (total_us : Z) : Z * Z :=
  let xi := fl_trunc (rn total_us 1) in
  let seconds := fl_trunc (rn xi 1000000) in
  let nanos := (xi mod 1000000) * 1000 in
  (seconds, nanos).

(* ---- pinned _Duration.to_timedelta ----
     timedelta(seconds=self.seconds, microseconds=self.nanos / 1e3)
   float microseconds: integer part added exactly, fraction rounded half-to-even *)
Definition to_timedelta_pinned (seconds nanos : Z) : result Z :=
  let q := rn nanos 1000 in
  let ip := fl_trunc q in
  let x := seconds * 1000000 + ip in
  let us := td_round x (fl_num q - ip * fl_den q) (fl_den q) in
  if Z.abs (td_days us) >? 999999999 then Err EOverflow else Ok us.

Definition bytes_dur_pinned (fno : Z) (total_us : Z) : result (list byte) :=
  if total_us =? 0 then Ok []
  else let '(s, n) := from_timedelta_pinned total_us in do inner <- bytes_sn s n; ser_msg_field fno inner.
Definition parse_dur_pinned (fno : Z) (bs : list byte) : result Z :=
  load_loop (h_outer (fun p => do (s, n) <- parse_sn p; to_timedelta_pinned s n) fno) (S (length bs)) bs 0.

(* ---- repr(float) for a positive finite double: David Gay's shortest round-tripping digits,
   then float_repr_style 'short' formatting (exponent form iff decpt <= -4 or decpt > 16) ---- *)
Definition lt_pow10 (xn xd k : Z) : bool :=
  if 0 <=? k then xn <? xd * 10 ^ k else xn * 10 ^ (- k) <? xd.
Fixpoint decpt_go (fuel : nat) (k xn xd : Z) : Z :=
  match fuel with O => k | S f => if lt_pow10 xn xd k then k else decpt_go f (k + 1) xn xd end.
(* least k with x < 10^k (x in 1e-30 .. 1e40) *)
Definition decpt (xn xd : Z) : Z := decpt_go 70 (-30) xn xd.

Definition rhe (n d : Z) : Z :=
  let q := n / d in let r := n mod d in
  if 2 * r <? d then q else if d <? 2 * r then q + 1 else if Z.even q then q else q + 1.

Fixpoint shortest (fuel : nat) (nd : Z) (x : fl) (xn xd k : Z) : Z * Z :=
  match fuel with
  | O => (0, 0)
  | S f =>
      let sc := nd - k in
      let d := if 0 <=? sc then rhe (xn * 10 ^ sc) xd else rhe xn (xd * 10 ^ (- sc)) in
      let back := if 0 <=? sc then rn d (10 ^ sc) else rn (d * 10 ^ (- sc)) 1 in
      if fl_eqb back x then (d, nd) else shortest f (nd + 1) x xn xd k
  end.

Fixpoint strip0_rev (l : list byte) : list byte :=
  match l with b :: r => if Byte.eqb b c0 then strip0_rev r else l | [] => [] end.
Definition strip_trailing_zeros (l : list byte) : list byte := rev (strip0_rev (rev l)).

Definition cE : byte := x65.  (* "e" *)
Definition float_repr_pos (x : fl) : list byte :=
  let xn := fl_num x in let xd := fl_den x in
  let k := decpt xn xd in
  let '(d, nd) := shortest 17 1 x xn xd k in
  let D0 := dec d in
  let dp := k - nd + Zlength D0 in
  let D := strip_trailing_zeros D0 in
  let L := Zlength D in
  if (dp <=? -4) || (16 <? dp) then
    let mant := match D with d1 :: [] => [d1] | d1 :: rest => d1 :: cDOT :: rest | [] => [] end in
    let ex := dp - 1 in
    mant ++ [cE] ++ [if ex <? 0 then cMINUS else cPLUS] ++ fmt0 2 (Z.abs ex)
  else if dp <=? 0 then [c0; cDOT] ++ repeat c0 (Z.to_nat (- dp)) ++ D
  else if L <=? dp then D ++ repeat c0 (Z.to_nat (dp - L)) ++ [cDOT; c0]
  else firstn (Z.to_nat dp) D ++ [cDOT] ++ skipn (Z.to_nat dp) D.

(* str(x) for x = a / b correctly rounded (int / int true division is correctly rounded) *)
Definition float_str_of_ratio (a b : Z) : list byte :=
  if a =? 0 then [c0; cDOT; c0]
  else (if a <? 0 then [cMINUS] else []) ++ float_repr_pos (rn (Z.abs a) b).

Fixpoint split_dot (l : list byte) : list byte * option (list byte) :=
  match l with
  | [] => ([], None)
  | b :: r => if Byte.eqb b cDOT then ([], Some r)
              else let '(a, t) := split_dot r in (b :: a, t)
  end.
Fixpoint pad369 (fuel : nat) (l : list byte) : list byte :=
  match fuel with
  | O => l
  | S f => let n := length l in
           if Nat.eqb n 3 || Nat.eqb n 6 || Nat.eqb n 9 then l else pad369 f (l ++ [c0])
  end.

(* ---- pinned _Duration.delta_to_json ----
     parts = str(delta.total_seconds()).split(".")
     if len(parts) > 1:
         while len(parts[1]) not in (3, 6, 9): parts[1] = f"{parts[1]}0"
     return f"{'.'.join(parts)}s"
   (repr of a double has at most one "."; the while loop would not end on more than 9
   characters, which total_seconds() never produces: fuel 12, never exhausted) *)
Definition delta_to_json_pinned (total_us : Z) : list byte :=
  let s := float_str_of_ratio total_us 1000000 in
  match split_dot s with
  | (a, None) => a ++ [cS]
  | (a, Some b) => a ++ [cDOT] ++ pad369 12 b ++ [cS]
  end.

(* ---- pinned _from_dict_init, timedelta branch:  timedelta(seconds=float(value[:-1])) ----
   float(str) is correctly rounded; grammar modelled: [+-]? DIGITS ["." DIGITS] (no exponent).
   timedelta(seconds=f): f = ip + fr (modf); x = ip * 10**6 exactly; 1e6 * fr is ONE float
   multiplication, split again by modf; the remaining fraction is rounded half-to-even. *)
Definition parse_duration_pinned (v : list byte) : result Z :=
  match dec_tokens (removelast v) with
  | None => Err EOther
  | Some (neg, ip, fp) =>
      let N := dval (ip ++ fp) in
      let f := rn (if neg then - N else N) (10 ^ Z.of_nat (length fp)) in
      let i1 := fl_trunc f in
      let fr_n := fl_num f - i1 * fl_den f in          (* fraction fr_n / fl_den f *)
      let p := rn (1000000 * fr_n) (fl_den f) in       (* 1e6 * fracpart *)
      let i2 := fl_trunc p in
      let x := i1 * 1000000 + i2 in
      let us := td_round x (fl_num p - i2 * fl_den p) (fl_den p) in
      if Z.abs (td_days us) >? 999999999 then Err EOverflow else Ok us
  end.

(* ---- pinned timestamp_to_json reads dt.microsecond BEFORE astimezone(utc): the fraction is the
   one of the local wall clock (differs only for UTC offsets that are not whole seconds) ---- *)
Definition timestamp_to_json_pinned (cal : list byte) (dt : datetime) : result (list byte) :=
  timestamp_to_json_us cal (wall dt mod 1000000).
