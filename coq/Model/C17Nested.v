(* C17, specification side, below the top level: which byte strings are a VALID serialisation for a
   message class of a schema.  Written over Model/C17Wire.v's record specification ([wpayload] /
   [wrecs] / [VarintRep]) and the schema only; the reader of Model/Decode.v does not occur, except
   in the one leaf [ts_range] / [dur_range] (see there).

     valid sc c bs   bs is a concatenation of complete records; every length-delimited record whose
                     field number is declared in class c with a wire type that fits the declared type
                     carries a payload that is valid for that type:
                       repeated fixed-width scalar   a whole number of elements
                       repeated varint-kind scalar   a concatenation of varints of at most ten bytes
                       string                        valid UTF-8
                       bytes                         anything
                       message / map entry / Timestamp / Duration / wrapper
                                                     valid for the nested class, recursively
                                                     (+ inside datetime's / timedelta's range)
                     records of unknown numbers, of a wire type that does not fit, groups, varint and
                     fixed-width records are only required to be complete.
   No proofs here. *)
From BP Require Import Base.Prelude Model.Types Model.Utf8 Model.Object Model.TimeCore Model.Decode.
From BP Require Import Model.C17Wire Spec.Varint.
From BP Require Import gen.Tables.

(* a concatenation of varints (any legal padding, at most ten bytes each) *)
Inductive varints : list byte -> Prop :=
| VsNil : varints []
| VsCons v vb rest : VarintRep v vb -> varints rest -> varints (vb ++ rest).

(* element width of the fixed-width packable scalars *)
Definition fixed_width (t : ptype) : option Z :=
  match t with
  | TFloat | TFixed32 | TSFixed32 => Some 4
  | TDouble | TFixed64 | TSFixed64 => Some 8
  | _ => None
  end.

(* the declared field a record with tag value [nw] belongs to: known number AND fitting wire type *)
Definition known_fit (sc : schema) (c : nat) (nw : Z) : option fdesc :=
  match field_by_number (get_class sc c) (tag_num nw) with
  | Some (_, f) => if wire_type_fits f (tag_wt nw) then Some f else None
  | None => None
  end.

(* the class whose parser reads the payload of a message-typed field: the declared class, the synthetic
   Entry class of a map field, the bundled Timestamp / Duration / wrapper class *)
Definition nested_cls (f : fdesc) : option nat :=
  match fty f with
  | TMap => Some (fentry f)
  | TMessage =>
      match hint_elem (fhint f), fwraps f with
      | PyDatetime, _ => Some timestamp_cls
      | PyTimedelta, _ => Some duration_cls
      | _, Some w => wrapper_cls w
      | PyMsg c', None => Some c'
      | _, None => None
      end
  | _ => None
  end.

(* Timestamp -> datetime and Duration -> timedelta raise OverflowError outside Python's ranges.  The
   two numbers are the (seconds, nanos) the model's decoder reads from the payload (last record of
   each field wins, int64 / int32 sign recovery): this leaf is stated through Model/Decode.v. *)
Definition time_numbers (sc : schema) (c : nat) (d : list byte) : option (Z * Z) :=
  match parse sc c d with
  | Ok m => match read sc m 0, read sc m 1 with
            | Ok (PInt s), Ok (PInt n) => Some (s, n)
            | _, _ => None
            end
  | Err _ => None
  end.

Definition is_ok {A} (r : result A) : bool := match r with Ok _ => true | Err _ => false end.

Definition ts_range (sc : schema) (d : list byte) : bool :=
  match time_numbers sc timestamp_cls d with Some (s, n) => is_ok (us_of_ts s n) | None => false end.
Definition dur_range (sc : schema) (d : list byte) : bool :=
  match time_numbers sc duration_cls d with Some (s, n) => is_ok (us_of_dur s n) | None => false end.

Definition time_range (sc : schema) (f : fdesc) (d : list byte) : bool :=
  match fty f, hint_elem (fhint f) with
  | TMessage, PyDatetime => ts_range sc d
  | TMessage, PyTimedelta => dur_range sc d
  | _, _ => true
  end.

(* [content sc V f d]: [d] is a valid length-delimited payload for field [f]; [V c' d] stands for
   "d is valid for class c'" *)
Inductive content (sc : schema) (V : nat -> list byte -> Prop) (f : fdesc) (d : list byte) : Prop :=
| CFixed w :
    tmem (fty f) PACKED_TYPES = true -> fixed_width (fty f) = Some w -> Zlength d mod w = 0 ->
    content sc V f d
| CVarints :
    tmem (fty f) PACKED_TYPES = true -> fixed_width (fty f) = None -> varints d ->
    content sc V f d
| CString : fty f = TString -> utf8_valid d = true -> content sc V f d
| CBytes : fty f = TBytes -> content sc V f d
| CNested c' :
    nested_cls f = Some c' -> V c' d -> time_range sc f d = true -> content sc V f d.

Inductive valid (sc : schema) : nat -> list byte -> Prop :=
| VNil c : valid sc c []
| VOther c nw tag pl rs :
    VarintRep nw tag -> wpayload nw pl ->
    (known_fit sc c nw = None \/ tag_wt nw <> 2) ->
    valid sc c rs -> valid sc c (tag ++ pl ++ rs)
| VLen c nw tag lb d rs f :
    VarintRep nw tag -> tag_num nw <> 0 -> tag_wt nw = 2 -> VarintRep (Zlength d) lb ->
    known_fit sc c nw = Some f -> content sc (valid sc) f d ->
    valid sc c rs -> valid sc c (tag ++ (lb ++ d) ++ rs).

(* [nests sc c bs c0 d0]: [d0] is the payload of a record of a message-typed field (class c0) at some
   depth inside [bs] (class c), every enclosing record being preceded by complete records only *)
Inductive nests (sc : schema) : nat -> list byte -> nat -> list byte -> Prop :=
| NHere c bs : nests sc c bs c bs
| NStep c pre nw tag lb d post f c' c0 d0 :
    wrecs pre -> VarintRep nw tag -> tag_num nw <> 0 -> tag_wt nw = 2 -> VarintRep (Zlength d) lb ->
    known_fit sc c nw = Some f -> nested_cls f = Some c' ->
    nests sc c' d c0 d0 ->
    nests sc c (pre ++ tag ++ lb ++ d ++ post) c0 d0.
