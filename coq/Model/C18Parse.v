(* C18, Message.parse under pydantic_dataclasses: definitions only (proofs: Proofs/C18Parse*.v).
   Nothing here changes an existing definition.  [c18_store] / [c18_step] are the body of Model/C07Step.v [c7_step] in
   direct style (the result object instead of a continuation); Proofs/C18ParseBase.v proves
   [c7_step ... k = do o1 <- c18_step ...; k o1] by case analysis, so they denote the same decoder.
   [pshape] / [kslots_ok] / [pgood] are the decidable conditions on the object `parse_into` starts from. *)
From BP Require Import Base.Prelude Model.Types Model.Varint Model.Object Model.Eq Model.Decode Model.C07Step Model.C18Beh.
From BP Require Import gen.Tables.

(* the record does not belong to a field (or its wire type does not fit): kept as unknown bytes *)
Definition add_unk (o : obj) (bs : list byte) : obj :=
  let 'Obj c raw sow unk cur := o in Obj c raw sow (unk ++ bs) cur.

(* try: current = getattr(self, name) except AttributeError: current = default; setattr(self, name, current) *)
Definition c18_current (sc : schema) (o : obj) (i : nat) (f : fdesc) : obj * pv :=
  match getattr sc o i with
  | (o', Ok cur_v) => (o', cur_v)
  | (_, Err _) => let d := default_of sc f in (setattr sc o i d, d)
  end.

Definition c18_store (sc : schema) (o : obj) (i : nat) (f : fdesc) (value : pv) : result obj :=
  let '(o, current) := c18_current sc o i f in
  let 'Obj c raw sow unk cur := o in
  if ptype_eqb (fty f) TMap then
    match value, current with
    | PMsg e, PDict d =>
        match getattr sc e 0, getattr sc e 1 with
        | (_, Ok k), (_, Ok v) => Ok (Obj c (set_nth i (PDict (dict_set d sc k v)) raw) sow unk cur)
        | _, _ => Err EAttribute
        end
    | _, _ => Err EType
    end
  else
    match current with
    | PList l =>
        let l' := match value with PList vs => l ++ vs | _ => l ++ [value] end in
        Ok (Obj c (set_nth i (PList l') raw) sow unk cur)
    | _ => Ok (setattr sc o i value)
    end.

Definition c18_step (fuel' : nat) (sc : schema) (cd : cdesc) (o : obj) (p : parsed) : result obj :=
  match field_by_number cd (pnum p) with
  | None => Ok (add_unk o (praw p))
  | Some (i, f) =>
      if negb (wire_type_fits f (pwt p)) then Ok (add_unk o (praw p))
      else do value <- c7_value fuel' sc f p; c18_store sc o i f value
  end.

(* ---- decidable conditions on the object parse_into starts from ---- *)
(* one raw attribute per field, one selection slot per group (the first two clauses of C07's invariant) *)
Definition pshape (sc : schema) (o : obj) : bool :=
  Nat.eqb (length (oraw o)) (length (cfields (get_class sc (ocls o)))) &&
  Nat.eqb (length (ocur o)) (cngroups (get_class sc (ocls o))).

(* a field that can only ever be assigned a scalar by the decoder: plain hint of a non-message Python type, proto type
   neither message nor map.  (The key field of a map Entry class is one, by wf_schema.) *)
Definition kslot (f : fdesc) : bool :=
  match fhint f with
  | HPlain (PyMsg _) => false
  | HPlain _ => negb (ptype_eqb (fty f) TMessage) && negb (ptype_eqb (fty f) TMap)
  | _ => false
  end.

Definition kslots_ok (sc : schema) (o : obj) : bool :=
  (fix go (raw : list pv) (fs : list fdesc) {struct raw} : bool :=
     match raw, fs with
     | x :: raw', f :: fs' => (if kslot f then scalar_pv x else true) && go raw' fs'
     | _, _ => true
     end) (oraw o) (cfields (get_class sc (ocls o))).

(* outcome of the two decoders: the same error class, or corresponding objects *)
Definition ores_rel (sc : schema) (r r' : result obj) : Prop :=
  match r, r' with
  | Ok o, Ok o' => orel sc o o'
  | Err e, Err e' => e = e'
  | _, _ => False
  end.

Definition lres_rel (sc : schema) (r r' : result (obj * list byte)) : Prop :=
  match r, r' with
  | Ok (o, s), Ok (o', s') => orel sc o o' /\ s' = s
  | Err e, Err e' => e = e'
  | _, _ => False
  end.
