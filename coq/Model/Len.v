(* L1 mirror of _len_preprocessed_single, _len_single and Message.__len__ — written as
   SEPARATE definitions from Model/Encode.v, the way the Python has two walks.  The only
   things shared with Encode.v are the things the Python shares: _preprocess_single /
   _serialize_single are called by __len__ for packed buffers and map entries, and
   nested messages are measured as len(bytes(value)). *)
From BP Require Import Base.Prelude Model.Types Model.Varint Model.Scalar Model.Float.
From BP Require Import Model.Object Model.Eq Model.TimeCore Model.Encode.
From BP Require Import gen.Tables.

Fixpoint sum_map {A} (f : A -> result Z) (l : list A) : result Z :=
  match l with
  | [] => Ok 0
  | x :: r => do a <- f x; do b <- sum_map f r; Ok (a + b)
  end.

Section Single.
  Variable msg : option ptype -> pv -> result (list byte).

  (* _len_preprocessed_single(proto_type, wraps, value) *)
  Definition len_preprocessed_with (t : ptype) (wraps : option ptype) (v : pv) : result Z :=
    if tmem t [TEnum; TBool; TInt32; TInt64; TUInt32; TUInt64] then
      match int_like v with Some z => size_varint z | None => Err EType end
    else if tmem t [TSInt32; TSInt64] then
      match int_like v with Some z => size_varint (zigzag z) | None => Err EType end
    else if tmem t FIXED_TYPES then
      do b <- pack_value t v; Ok (Zlength b)                  (* len(struct.pack(...)) *)
    else if ptype_eqb t TString then
      match v with PStr s => Ok (Zlength s) | _ => Err EAttribute end
    else if ptype_eqb t TMessage then
      match v, wraps with
      | PDatetime _, _ | PTimedelta _, _ => do b <- msg wraps v; Ok (Zlength b)
      | PNone, Some _ => Ok 0
      | _, _ => do b <- msg wraps v; Ok (Zlength b)           (* len(bytes(value)) *)
      end
    else match v with PBytes b => Ok (Zlength b) | _ => Err EType end.

  (* _len_single(field_number, proto_type, value, serialize_empty=, wraps=) *)
  Definition len_single_with (num : Z) (t : ptype) (v : pv) (serialize_empty : bool)
             (wraps : option ptype) : result Z :=
    do size <- len_preprocessed_with t wraps v;
    if tmem t WIRE_VARINT_TYPES then
      do k <- size_varint (Z.shiftl num 3); Ok (size + k)
    else if tmem t WIRE_FIXED_32_TYPES then
      do k <- size_varint (Z.lor (Z.shiftl num 3) 5); Ok (size + k)
    else if tmem t WIRE_FIXED_64_TYPES then
      do k <- size_varint (Z.lor (Z.shiftl num 3) 1); Ok (size + k)
    else if tmem t WIRE_LEN_DELIM_TYPES then
      if negb (size =? 0) || serialize_empty || (match wraps with Some _ => true | None => false end) then
        do k <- size_varint (Z.lor (Z.shiftl num 3) 2);
        do n <- size_varint size;
        Ok (size + (k + n))
      else Ok size
    else Err EOther.
End Single.

(* the body of the loop of Message.__len__ for one field *)
Definition len_field (enc_msg : obj -> result (list byte)) (sc : schema) (f : fdesc)
           (sel : option bool) (v : pv) : result Z :=
  let msgf := msg_bytes enc_msg in
  let selected_in_group := is_some (fgroup f) || fopt f in
  let serialize_empty := match v with PMsg o => osow o | _ => false end in
  let include_default := match sel with Some true => true | _ => false end in
  if is_default sc f v && negb (selected_in_group || serialize_empty || include_default) then Ok 0
  else
    match v with
    | PList items =>
        if tmem (fty f) PACKED_TYPES then
          do buf <- concat_map (preprocess_with msgf (fty f) None) items;
          len_single_with msgf (fnum f) TBytes (PBytes buf) false None
        else
          sum_map (fun item =>
                     do r <- len_single_with msgf (fnum f) (fty f) item true (fwraps f);
                     Ok (if r =? 0 then 2 else r)) items
    | PDict kvs =>
        match fmap f with
        | None => Err EOther
        | Some (kt, vt) =>
            sum_map (fun '(k, v') =>
                       do sk <- serialize_with msgf 1 kt k false None;
                       do sv <- serialize_with msgf 2 vt v' false None;
                       len_single_with msgf (fnum f) (fty f) (PBytes (sk ++ sv)) true None) kvs
        end
    | _ =>
        let serialize_empty' :=
          serialize_empty || (match v with PStr [] => include_default | _ => false end) in
        len_single_with msgf (fnum f) (fty f) v (serialize_empty' || selected_in_group) (fwraps f)
    end.

(* len(self) *)
Definition len_obj (sc : schema) (o : obj) : result Z :=
  let 'Obj c raw sow unk cur := o in
  do body <-
    (fix go (i : nat) (raw : list pv) (fs : list fdesc) {struct raw} : result Z :=
       match raw, fs with
       | x :: raw', f :: fs' =>
           do here <-
             match group_selects cur f i with
             | Some false => Ok 0
             | sel =>
                 match x with
                 | PNone => Ok 0
                 | PPlaceholder =>
                     match default_of sc f with
                     | PNone => Ok 0
                     | d => len_field (fun _ => Ok []) sc f sel d
                     end
                 | _ => len_field (enc_obj sc) sc f sel x
                 end
             end;
           do rest <- go (Datatypes.S i) raw' fs';
           Ok (here + rest)
       | _, _ => Ok 0
       end) O raw (cfields (get_class sc c));
  Ok (body + Zlength unk).

(* Message.dump(stream, delimit): what is written to the stream *)
Definition dump (sc : schema) (o : obj) (delimit : bool) : result (list byte) :=
  do prefix <- (if delimit then do n <- len_obj sc o; encode_varint n else Ok []);
  do body <- enc_obj sc o;
  Ok (prefix ++ body).
