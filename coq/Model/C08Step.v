(* C08: Message.load (Model/Decode.v) taken apart into named pieces, so that theorems can
   speak about "what one record does to the object".  Nothing new is modelled here: every
   definition is a verbatim copy of a sub-term of [load]; Proofs/C08StepP.v proves
   [load = loopV] by [reflexivity] (conversion), so a change of Decode.v that alters the
   behaviour breaks that proof instead of going unnoticed.

     parse_new / post_len   the two local closures of [load]
     decode_value           the `value = ...` computation for a record of a known field
     step_k                 the body of the for-loop, in continuation-passing form
     loopV                  the for-loop itself (fix over the remaining stream)            *)
From BP Require Import Base.Prelude Model.Types Model.Varint Model.Scalar Model.Float Model.Utf8.
From BP Require Import Model.Object Model.Eq Model.TimeCore Model.Decode.
From BP Require Import gen.Tables.

Section Step.
  Variables (fuel' : nat) (sc : schema).

  (* cls().parse(payload) *)
  Definition parse_new (c' : nat) (bs : list byte) : result obj :=
    do (o', _) <- load fuel' sc (new sc c') bs None; Ok o'.

  (* the WIRE_LEN_DELIM branch of _postprocess_single for a non-packed field *)
  Definition post_len (f : fdesc) (t : ptype) (ety : pyty) (wraps : option ptype) (bs : list byte) : result pv :=
    if ptype_eqb t TString then
      if utf8_valid bs then Ok (PStr bs) else Err EUnicode
    else if ptype_eqb t TMessage then
      match ety, wraps with
      | PyDatetime, _ =>
          do m <- parse_new timestamp_cls bs;
          match snd (getattr sc m 0), snd (getattr sc m 1) with
          | Ok (PInt sec), Ok (PInt nan) => do us <- us_of_ts sec nan; Ok (PDatetime us)
          | _, _ => Err EType
          end
      | PyTimedelta, _ =>
          do m <- parse_new duration_cls bs;
          match snd (getattr sc m 0), snd (getattr sc m 1) with
          | Ok (PInt sec), Ok (PInt nan) => do us <- us_of_dur sec nan; Ok (PTimedelta us)
          | _, _ => Err EType
          end
      | _, Some w =>
          match wrapper_cls w with
          | None => Err EKey
          | Some wc => do m <- parse_new wc bs; snd (getattr sc m 0)
          end
      | PyMsg c', None => do m <- parse_new c' bs; Ok (mark_sow (PMsg m))
      | _, None => Err EType
      end
    else Ok (PBytes bs).

  (* value of a record that belongs to field f and whose wire type fits *)
  Definition decode_value (f : fdesc) (p : parsed) : result pv :=
    if (pwt p =? WIRE_LEN_DELIM) && tmem (fty f) PACKED_TYPES then
      do l <- unpack_packed (Datatypes.S (length (pbytes p))) (fty f) (pbytes p); Ok (PList l)
    else if pwt p =? WIRE_VARINT then Ok (postprocess_varint (fty f) (pint p))
    else if (pwt p =? WIRE_FIXED_32) || (pwt p =? WIRE_FIXED_64) then unpack_value (fty f) (pbytes p)
    else if ptype_eqb (fty f) TMap then
      do e <- parse_new (fentry f) (pbytes p); Ok (PMsg e)
    else post_len f (fty f) (hint_elem (fhint f)) (fwraps f) (pbytes p).

  (* the loop body after the size accounting; [continue] is what happens next *)
  Definition step_k {A} (cd : cdesc) (o : obj) (p : parsed) (continue : obj -> result A) : result A :=
    let 'Obj c raw sow unk cur := o in
    match field_by_number cd (pnum p) with
    | None => continue (Obj c raw sow (unk ++ praw p) cur)
    | Some (i, f) =>
        if negb (wire_type_fits f (pwt p)) then continue (Obj c raw sow (unk ++ praw p) cur)
        else
          do value <- decode_value f p;
          let '(o, current) :=
            match getattr sc o i with
            | (o', Ok cur_v) => (o', cur_v)
            | (_, Err _) => let d := default_of sc f in (setattr sc o i d, d)
            end in
          let 'Obj c raw sow unk cur := o in
          if ptype_eqb (fty f) TMap then
            match value, current with
            | PMsg e, PDict d =>
                match getattr sc e 0, getattr sc e 1 with
                | (_, Ok k), (_, Ok v) => continue (Obj c (set_nth i (PDict (dict_set d sc k v)) raw) sow unk cur)
                | _, _ => Err EAttribute
                end
            | _, _ => Err EType
            end
          else
            match current with
            | PList l =>
                let l' := match value with PList vs => l ++ vs | _ => l ++ [value] end in
                continue (Obj c (set_nth i (PList l') raw) sow unk cur)
            | _ => continue (setattr sc o i value)
            end
    end.

  Variables (size : option Z) (cd : cdesc).

  Fixpoint loopV (n : nat) (o : obj) (s : list byte) (read : Z) {struct n} : result (obj * list byte) :=
    match n with
    | O => Err EFuel
    | S n' =>
        match s with
        | [] =>
            match size with
            | Some sz => if read <? sz then Err EValue else Ok (o, s)
            | None => Ok (o, s)
            end
        | _ =>
            do (num_wire, r, s1) <- load_varint s;
            do (p, s2) <- load_field fuel' s1 num_wire r;
            do read <- match size with
                       | Some sz => let read' := read + Zlength (praw p) in
                                    if sz <? read' then Err EValue else Ok read'
                       | None => Ok read
                       end;
            let finished := match size with Some sz => read =? sz | None => false end in
            step_k cd o p (fun o => if finished then Ok (o, s2) else loopV n' o s2 read)
        end
    end.
End Step.

(* one record applied to the object: Ok (new object) or the error the loop body raises *)
Definition step (fuel' : nat) (sc : schema) (cd : cdesc) (o : obj) (p : parsed) : result obj :=
  step_k fuel' sc cd o p (fun o' => Ok o').

(* is the record kept verbatim in _unknown_fields by class [cd]?  (number not declared, or declared
   with a type that cannot arrive with this wire type; skipped groups are the case pwt = 3) *)
Definition is_unknown (cd : cdesc) (p : parsed) : bool :=
  match field_by_number cd (pnum p) with
  | None => true
  | Some (_, f) => negb (wire_type_fits f (pwt p))
  end.

(* reading one record off a stream: tag, then payload.  The fuel given to load_field (needed for
   groups only) is the length of the stream, which always suffices. *)
Definition frame1 (s : list byte) : result (parsed * list byte) :=
  do (num_wire, r, s1) <- load_varint s;
  load_field (length s) s1 num_wire r.

(* [records bs ps]: bs is the concatenation of the complete records ps (in order) *)
Inductive records : list byte -> list parsed -> Prop :=
| records_nil : records [] []
| records_cons s p s' ps : s <> [] -> frame1 s = Ok (p, s') -> records s' ps -> records s (p :: ps).

Definition raw_of (ps : list parsed) : list byte := concat (map praw ps).
Definition unknown_raw (cd : cdesc) (ps : list parsed) : list byte := raw_of (filter (is_unknown cd) ps).
Definition known_raw (cd : cdesc) (ps : list parsed) : list byte :=
  raw_of (filter (fun p => negb (is_unknown cd p)) ps).

(* the object without its unknown bytes *)
Definition clear_unk (o : obj) : obj := let 'Obj c raw sow _ cur := o in Obj c raw sow [] cur.

(* ---- schema evolution: the older schema is the newer one with any subset of fields deleted ----
   masks: one list of booleans per class (by class index), one boolean per field in declaration
   order, false = the field does not exist in the older schema; a missing mask / a mask that is too
   short keeps the rest.  Class indices, group indices and the enum table do not change (so a value
   of the older schema refers to the same classes); map-entry classes of deleted map fields stay in
   the table, unused. *)
Fixpoint filter_mask {A} (mask : list bool) (l : list A) : list A :=
  match l, mask with
  | [], _ => []
  | _ :: _, [] => l
  | x :: l', b :: m' => if b then x :: filter_mask m' l' else filter_mask m' l'
  end.

Definition drop_class (mask : list bool) (cd : cdesc) : cdesc :=
  mkC (filter_mask mask (cfields cd)) (cngroups cd).

Fixpoint drop_classes (masks : list (list bool)) (cs : list cdesc) : list cdesc :=
  match cs, masks with
  | [], _ => []
  | _ :: _, [] => cs
  | c :: cs', m :: ms => drop_class m c :: drop_classes ms cs'
  end.

Definition drop_fields (masks : list (list bool)) (sc : schema) : schema :=
  mkS (drop_classes masks (classes sc)) (enums sc).

(* ---- the loop body for a record of a known field, after its value has been decoded:
        try: current = getattr(self, name) except AttributeError: current = default; setattr(self, name, current)
        map entry / list extend-append / setattr.   Independent of the fuel. ---- *)
Definition store (sc : schema) (o : obj) (i : nat) (f : fdesc) (value : pv) : result obj :=
  let '(o, current) :=
    match getattr sc o i with
    | (o', Ok cur_v) => (o', cur_v)
    | (_, Err _) => let d := default_of sc f in (setattr sc o i d, d)
    end in
  let 'Obj c raw sow unk cur := o in
  if ptype_eqb (fty f) TMap then
    match value, current with
    | PMsg e, PDict d =>
        match getattr sc e 0, getattr sc e 1 with
        | (_, Ok k), (_, Ok v) => Ok (Obj c (set_nth i (PDict (dict_set d sc k v)) raw) sow unk cur)
        | _, _ => Err EAttribute
        end
    | _, _ => Err EType
    end
  else
    match current with
    | PList l =>
        let l' := match value with PList vs => l ++ vs | _ => l ++ [value] end in
        Ok (Obj c (set_nth i (PList l') raw) sow unk cur)
    | _ => Ok (setattr sc o i value)
    end.

(* a record sequence applied to an object, left to right *)
Fixpoint fold_steps (fuel' : nat) (sc : schema) (cd : cdesc) (o : obj) (ps : list parsed) : result obj :=
  match ps with
  | [] => Ok o
  | p :: ps' => do o' <- step fuel' sc cd o p; fold_steps fuel' sc cd o' ps'
  end.

(* Message.load's first action: self._serialized_on_wire = True *)
Definition touch (o : obj) : obj := let 'Obj c raw _ unk cur := o in Obj c raw true unk cur.
Definition add_unk (o : obj) (bs : list byte) : obj := let 'Obj c raw sow unk cur := o in Obj c raw sow (unk ++ bs) cur.
Definition set_unk (o : obj) (bs : list byte) : obj := let 'Obj c raw sow _ cur := o in Obj c raw sow bs cur.

(* executable version of [records] (Proofs/C08FrameP.v: frames_sound / frames_complete) *)
Fixpoint frames (n : nat) (s : list byte) : option (list parsed) :=
  match n with
  | O => None
  | S n' =>
      match s with
      | [] => Some []
      | _ => match frame1 s with
             | Ok (p, s') => match frames n' s' with Some ps => Some (p :: ps) | None => None end
             | Err _ => None
             end
      end
  end.

(* the field a record is decoded into, if any *)
Definition field_of (cd : cdesc) (p : parsed) : option fdesc :=
  match field_by_number cd (pnum p) with
  | Some (_, f) => if wire_type_fits f (pwt p) then Some f else None
  | None => None
  end.

(* fk is in no oneof group, or in another one than fu *)
Definition sep_b (fk fu : fdesc) : bool :=
  match fgroup fk with None => true | Some g => negb (opt_nat_eqb (fgroup fu) (Some g)) end.

(* side condition of the evolution theorem, decidable: no oneof group of the newer class has a member the
   older class deleted AND a member it kept both PRESENT among the records (a canonical encoder emits
   at most one member per group, so encodings of messages meet it) *)
Definition split_free (cdn cdo : cdesc) (ps : list parsed) : bool :=
  forallb (fun u => forallb (fun k =>
    match field_of cdn u, field_of cdn k with
    | Some fu, Some fk => negb (is_unknown cdo u && negb (is_unknown cdo k)) || sep_b fk fu
    | _, _ => true
    end) ps) ps.
