(* C08 gap closing: new definitions only (nothing of the existing model is changed).
     relay sc c b            one reader/writer of schema sc: bytes(Cls().parse(b))
     relay_chain so sn c n b n round trips  older reader/writer -> newer reader/writer, starting from b *)
From BP Require Import Base.Prelude Model.Types Model.Object Model.Encode Model.Decode.

Definition relay (sc : schema) (c : nat) (b : list byte) : result (list byte) :=
  do o <- parse sc c b; enc_obj sc o.

Fixpoint relay_chain (so sn : schema) (c : nat) (n : nat) (b : list byte) : result (list byte) :=
  match n with
  | O => Ok b
  | S n' => do b2 <- relay so c b; do b1 <- relay sn c b2; relay_chain so sn c n' b1
  end.
