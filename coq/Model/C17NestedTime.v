(* C17, specification side: the two numbers of a Timestamp / Duration payload, read off the record
   specification Model/C17Wire.v alone.  [last_varint num bs z z']: z' is the value of the LAST complete
   varint record (wire type 0) with field number [num] in the record string [bs], z if there is none.
   Every other complete record (other number, other wire type, groups with whatever they contain) is skipped. *)
From BP Require Import Base.Prelude Model.Scalar Model.TimeCore Model.C17Wire Model.C17Nested Spec.Varint.

Inductive last_varint (num : Z) : list byte -> Z -> Z -> Prop :=
| LNil z : last_varint num [] z z
| LHit nw tag v vb rs z z' :
    VarintRep nw tag -> tag_num nw = num -> tag_wt nw = 0 -> VarintRep v vb ->
    last_varint num rs v z' -> last_varint num (tag ++ vb ++ rs) z z'
| LMiss nw tag pl rs z z' :
    VarintRep nw tag -> wpayload nw pl -> (tag_num nw <> num \/ tag_wt nw <> 0) ->
    last_varint num rs z z' -> last_varint num (tag ++ pl ++ rs) z z'.

(* seconds: int64, nanos: int32 (two's complement of the low 64 / 32 bits: Model/Scalar.v [sign_recover], C16) *)
Definition ts_range_spec (d : list byte) : Prop :=
  exists s n, last_varint 1 d 0 s /\ last_varint 2 d 0 n /\
              is_ok (us_of_ts (sign_recover 64 s) (sign_recover 32 n)) = true.
Definition dur_range_spec (d : list byte) : Prop :=
  exists s n, last_varint 1 d 0 s /\ last_varint 2 d 0 n /\
              is_ok (us_of_dur (sign_recover 64 s) (sign_recover 32 n)) = true.

(* ---- [valid] with the Timestamp / Duration leaf stated on the records: nothing of the decoder is left
        (the schema look-ups [known_fit] / [nested_cls], the UTF-8 predicate and the two range checks remain) ---- *)
From BP Require Import Model.Types Model.Utf8 Model.Object Model.Decode gen.Tables.

Definition time_range_spec (f : fdesc) (d : list byte) : Prop :=
  match fty f, hint_elem (fhint f) with
  | TMessage, PyDatetime => ts_range_spec d
  | TMessage, PyTimedelta => dur_range_spec d
  | _, _ => True
  end.

Inductive content_s (V : nat -> list byte -> Prop) (f : fdesc) (d : list byte) : Prop :=
| SFixed w :
    tmem (fty f) PACKED_TYPES = true -> fixed_width (fty f) = Some w -> Zlength d mod w = 0 -> content_s V f d
| SVarints :
    tmem (fty f) PACKED_TYPES = true -> fixed_width (fty f) = None -> varints d -> content_s V f d
| SString : fty f = TString -> utf8_valid d = true -> content_s V f d
| SBytes : fty f = TBytes -> content_s V f d
| SNested c' : nested_cls f = Some c' -> V c' d -> time_range_spec f d -> content_s V f d.

Inductive valid_s (sc : schema) : nat -> list byte -> Prop :=
| SNil c : valid_s sc c []
| SOther c nw tag pl rs :
    VarintRep nw tag -> wpayload nw pl ->
    (known_fit sc c nw = None \/ tag_wt nw <> 2) ->
    valid_s sc c rs -> valid_s sc c (tag ++ pl ++ rs)
| SLen c nw tag lb d rs f :
    VarintRep nw tag -> tag_num nw <> 0 -> tag_wt nw = 2 -> VarintRep (Zlength d) lb ->
    known_fit sc c nw = Some f -> content_s (valid_s sc) f d ->
    valid_s sc c rs -> valid_s sc c (tag ++ (lb ++ d) ++ rs).
