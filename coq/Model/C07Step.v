(* C07: Message.load (Model/Decode.v) taken apart into named pieces, so that the invariant
   can be followed record by record.  Nothing new is modelled: every definition below is a
   verbatim copy of a sub-term of [load]; Proofs/C07LoadP.v proves [load = c7_loop] by
   [reflexivity] (conversion), so a change of Decode.v that alters the decoder breaks that
   proof instead of going unnoticed.  (Same device as Model/C08Step.v; kept separate so that
   C07 does not depend on a file another agent may still change.)

   Also here: [frames], the list of records the loop reads off a stream (= load_fields), and
   [sel_record], what one record does to _group_current according to the property. *)
From BP Require Import Base.Prelude Model.Types Model.Varint Model.Scalar Model.Float Model.Utf8.
From BP Require Import Model.Object Model.Eq Model.TimeCore Model.Decode.
From BP Require Import gen.Tables.

Section Step.
  Variables (fuel' : nat) (sc : schema).

  Definition c7_parse_new (c' : nat) (bs : list byte) : result obj :=
    do (o', _) <- load fuel' sc (new sc c') bs None; Ok o'.

  Definition c7_post_len (f : fdesc) (t : ptype) (ety : pyty) (wraps : option ptype) (bs : list byte) : result pv :=
    if ptype_eqb t TString then
      if utf8_valid bs then Ok (PStr bs) else Err EUnicode
    else if ptype_eqb t TMessage then
      match ety, wraps with
      | PyDatetime, _ =>
          do m <- c7_parse_new timestamp_cls bs;
          match snd (getattr sc m 0), snd (getattr sc m 1) with
          | Ok (PInt sec), Ok (PInt nan) => do us <- us_of_ts sec nan; Ok (PDatetime us)
          | _, _ => Err EType
          end
      | PyTimedelta, _ =>
          do m <- c7_parse_new duration_cls bs;
          match snd (getattr sc m 0), snd (getattr sc m 1) with
          | Ok (PInt sec), Ok (PInt nan) => do us <- us_of_dur sec nan; Ok (PTimedelta us)
          | _, _ => Err EType
          end
      | _, Some w =>
          match wrapper_cls w with
          | None => Err EKey
          | Some wc => do m <- c7_parse_new wc bs; snd (getattr sc m 0)
          end
      | PyMsg c', None => do m <- c7_parse_new c' bs; Ok (mark_sow (PMsg m))
      | _, None => Err EType
      end
    else Ok (PBytes bs).

  Definition c7_value (f : fdesc) (p : parsed) : result pv :=
    if (pwt p =? WIRE_LEN_DELIM) && tmem (fty f) PACKED_TYPES then
      do l <- unpack_packed (Datatypes.S (length (pbytes p))) (fty f) (pbytes p); Ok (PList l)
    else if pwt p =? WIRE_VARINT then Ok (postprocess_varint (fty f) (pint p))
    else if (pwt p =? WIRE_FIXED_32) || (pwt p =? WIRE_FIXED_64) then unpack_value (fty f) (pbytes p)
    else if ptype_eqb (fty f) TMap then
      do e <- c7_parse_new (fentry f) (pbytes p); Ok (PMsg e)
    else c7_post_len f (fty f) (hint_elem (fhint f)) (fwraps f) (pbytes p).

  (* the loop body after the size accounting; [continue] is what happens next *)
  Definition c7_step {A} (cd : cdesc) (o : obj) (p : parsed) (continue : obj -> result A) : result A :=
    let 'Obj c raw sow unk cur := o in
    match field_by_number cd (pnum p) with
    | None => continue (Obj c raw sow (unk ++ praw p) cur)
    | Some (i, f) =>
        if negb (wire_type_fits f (pwt p)) then continue (Obj c raw sow (unk ++ praw p) cur)
        else
          do value <- c7_value f p;
          let '(o, current) :=
            match getattr sc o i with
            | (o', Ok cur_v) => (o', cur_v)
            | (_, Err _) => let d := default_of sc f in (setattr sc o i d, d)
            end in
          let 'Obj c raw sow unk cur := o in
          if ptype_eqb (fty f) TMap then
            match value, current with
            | PMsg e, PDict d =>
                match getattr sc e 0, getattr sc e 1 with
                | (_, Ok k), (_, Ok v) => continue (Obj c (set_nth i (PDict (dict_set d sc k v)) raw) sow unk cur)
                | _, _ => Err EAttribute
                end
            | _, _ => Err EType
            end
          else
            match current with
            | PList l =>
                let l' := match value with PList vs => l ++ vs | _ => l ++ [value] end in
                continue (Obj c (set_nth i (PList l') raw) sow unk cur)
            | _ => continue (setattr sc o i value)
            end
    end.

  Variables (size : option Z) (cd : cdesc).

  Fixpoint c7_loop (n : nat) (o : obj) (s : list byte) (read : Z) {struct n} : result (obj * list byte) :=
    match n with
    | O => Err EFuel
    | S n' =>
        match s with
        | [] =>
            match size with
            | Some sz => if read <? sz then Err EValue else Ok (o, s)
            | None => Ok (o, s)
            end
        | _ =>
            do (num_wire, r, s1) <- load_varint s;
            do (p, s2) <- load_field fuel' s1 num_wire r;
            do read <- match size with
                       | Some sz => let read' := read + Zlength (praw p) in
                                    if sz <? read' then Err EValue else Ok read'
                       | None => Ok read
                       end;
            let finished := match size with Some sz => read =? sz | None => false end in
            c7_step cd o p (fun o => if finished then Ok (o, s2) else c7_loop n' o s2 read)
        end
    end.

  (* load_fields(stream): the records the loop reads, to the end of the stream *)
  Fixpoint frames (n : nat) (s : list byte) : result (list parsed) :=
    match n with
    | O => Err EFuel
    | S n' =>
        match s with
        | [] => Ok []
        | _ =>
            do (num_wire, r, s1) <- load_varint s;
            do (p, s2) <- load_field fuel' s1 num_wire r;
            do rest <- frames n' s2;
            Ok (p :: rest)
        end
    end.
End Step.

(* what a record of field (i, f) does to the selections: its group now selects it *)
Definition upd_sel (f : fdesc) (i : nat) (cur : list (option nat)) : list (option nat) :=
  match fgroup f with Some g => set_nth g (Some i) cur | None => cur end.

(* ... provided the record belongs to a declared field and its wire type fits (otherwise it is kept
   as unknown bytes and selects nothing) *)
Definition sel_record (cd : cdesc) (cur : list (option nat)) (p : parsed) : list (option nat) :=
  match field_by_number cd (pnum p) with
  | Some (i, f) => if wire_type_fits f (pwt p) then upd_sel f i cur else cur
  | None => cur
  end.
