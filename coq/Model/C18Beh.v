(* C18, behavioural part: what the plugin option `pydantic_dataclasses` does to the class the RUNTIME sees, and the
   correspondence between the raw state of a plain dataclass and of a pydantic dataclass holding "the same field
   values".  Definitions only (no proofs: Proofs/C18Beh*.v).  Nothing here changes an existing model definition.

   models.py PydanticOneOfFieldCompiler: every oneof member is generated as
        name: Optional[T] = betterproto.<t>_field(n, optional=True, group="g")
   instead of
        name: T = betterproto.<t>_field(n, group="g")
   so BOTH the FieldMetadata (optional=True, Typing.field_meta / C18_metadata_pydantic) AND the annotation (Optional[T],
   Typing.annotation_ty) change.  The runtime reads the annotation through _type_hint: the default of such a member is
   None, not T() (_get_field_default_gen), and dataclass_field gives it the dataclass default None instead of PLACEHOLDER.
   [pyd_field] therefore sets [fopt] AND turns the hint HPlain p into HOptional p.  (Setting only [fopt] - the schema
   [opt_only_schema] below - is not what any generated class looks like: WellFormed.wf_field rejects fopt with a plain hint.) *)
From BP Require Import Base.Prelude Model.Types Model.Object Model.Eq Model.Encode Model.Decode Model.Json Model.WellFormed.

(* ------------------------------------------------------------------------------------------
   the schema under pydantic_dataclasses
   ------------------------------------------------------------------------------------------ *)
Definition pyd_hint (h : hint) : hint := match h with HPlain p => HOptional p | _ => h end.

Definition pyd_field (f : fdesc) : fdesc :=
  match fgroup f with
  | Some _ => mkF (fname f) (fnum f) (fty f) (fmap f) (fgroup f) (fwraps f) true (pyd_hint (fhint f)) (fentry f)
  | None => f
  end.
Definition pyd_class (cd : cdesc) : cdesc := mkC (map pyd_field (cfields cd)) (cngroups cd).
Definition pyd_schema (sc : schema) : schema := mkS (map pyd_class (classes sc)) (enums sc).

(* the variant that only flips the metadata bit (what C18_metadata_pydantic alone would suggest) *)
Definition opt_only_field (f : fdesc) : fdesc :=
  match fgroup f with
  | Some _ => mkF (fname f) (fnum f) (fty f) (fmap f) (fgroup f) (fwraps f) true (fhint f) (fentry f)
  | None => f
  end.
Definition opt_only_schema (sc : schema) : schema :=
  mkS (map (fun cd => mkC (map opt_only_field (cfields cd)) (cngroups cd)) (classes sc)) (enums sc).

(* ------------------------------------------------------------------------------------------
   corresponding states.
   A plain dataclass holds PLACEHOLDER in every oneof member its group does not select (dataclass default;
   __setattr__ resets the siblings).  A pydantic dataclass holds None there (the dataclass default of an optional
   field) or PLACEHOLDER (after __setattr__ / parse reset the siblings of a member that was set).  Everything else -
   flags, unknown bytes, selections, every readable attribute - is the same, recursively.
   [vrel sc a b]: b is a state of the pydantic class corresponding to the state a of the plain class.  It also says
   that a is hereditarily oneof-clean (WellFormed.oneof_clean at every depth), that a selected member does not hold
   PLACEHOLDER, and that map keys are scalars.
   ------------------------------------------------------------------------------------------ *)
Definition is_ph (v : pv) : bool := match v with PPlaceholder => true | _ => false end.
Definition unsel_ok (v : pv) : bool := match v with PPlaceholder | PNone => true | _ => false end.
Definition scalar_pv (v : pv) : bool := match v with PList _ | PDict _ | PMsg _ => false | _ => true end.

Definition list_rel {A B} (r : A -> B -> Prop) : list A -> list B -> Prop :=
  fix go (la : list A) (lb : list B) : Prop :=
    match la, lb with
    | [], [] => True
    | x :: la', y :: lb' => r x y /\ go la' lb'
    | _, _ => False
    end.

Definition slot_rel (r : pv -> pv -> Prop) (sel : option bool) (x y : pv) : Prop :=
  match sel with
  | Some false => x = PPlaceholder /\ unsel_ok y = true
  | Some true => x <> PPlaceholder /\ r x y
  | None => r x y
  end.

Definition raw_rel (r : pv -> pv -> Prop) (cur : list (option nat)) : nat -> list pv -> list pv -> list fdesc -> Prop :=
  fix go (i : nat) (ra rb : list pv) (fs : list fdesc) : Prop :=
    match ra, rb with
    | [], [] => True
    | x :: ra', y :: rb' =>
        match fs with
        | f :: fs' => slot_rel r (group_selects cur f i) x y /\ go (S i) ra' rb' fs'
        | [] => y = x /\ go (S i) ra' rb' []
        end
    | _, _ => False
    end.

Fixpoint vrel (sc : schema) (a b : pv) {struct a} : Prop :=
  match a with
  | PList la => exists lb, b = PList lb /\ list_rel (vrel sc) la lb
  | PDict da =>
      exists db, b = PDict db /\
        list_rel (fun kx ky => let '(k, x) := kx in let '(k', y) := ky in
                               k' = k /\ scalar_pv k = true /\ vrel sc x y) da db
  | PMsg (Obj c ra sow unk cur) =>
      exists rb, b = PMsg (Obj c rb sow unk cur) /\ raw_rel (vrel sc) cur O ra rb (cfields (get_class sc c))
  | _ => b = a
  end.

Definition orel (sc : schema) (o o' : obj) : Prop := vrel sc (PMsg o) (PMsg o').

(* ------------------------------------------------------------------------------------------
   the canonical corresponding state: None in every unselected member
   ------------------------------------------------------------------------------------------ *)
Definition pyd_raw (r : pv -> pv) (cur : list (option nat)) : nat -> list pv -> list fdesc -> list pv :=
  fix go (i : nat) (ra : list pv) (fs : list fdesc) : list pv :=
    match ra with
    | [] => []
    | x :: ra' =>
        match fs with
        | f :: fs' => (match group_selects cur f i with Some false => PNone | _ => r x end) :: go (S i) ra' fs'
        | [] => x :: go (S i) ra' []
        end
    end.

Fixpoint pyd_pv (sc : schema) (v : pv) {struct v} : pv :=
  match v with
  | PList l => PList (map (pyd_pv sc) l)
  | PDict d => PDict (map (fun kx => let '(k, x) := kx in (k, pyd_pv sc x)) d)
  | PMsg (Obj c ra sow unk cur) => PMsg (Obj c (pyd_raw (pyd_pv sc) cur O ra (cfields (get_class sc c))) sow unk cur)
  | _ => v
  end.
Definition pyd_obj (sc : schema) (o : obj) : obj :=
  match pyd_pv sc (PMsg o) with PMsg o' => o' | _ => o end.

(* the decidable domain of [pyd_obj]: hereditarily oneof-clean, selected members hold a value, map keys are scalars *)
Definition ok_raw (r : pv -> bool) (cur : list (option nat)) : nat -> list pv -> list fdesc -> bool :=
  fix go (i : nat) (ra : list pv) (fs : list fdesc) : bool :=
    match ra with
    | [] => true
    | x :: ra' =>
        match fs with
        | f :: fs' =>
            (match group_selects cur f i with
             | Some false => is_ph x
             | Some true => negb (is_ph x) && r x
             | None => r x
             end) && go (S i) ra' fs'
        | [] => true
        end
    end.

Fixpoint pyd_ok (sc : schema) (v : pv) {struct v} : bool :=
  match v with
  | PList l => forallb (pyd_ok sc) l
  | PDict d => forallb (fun kx => let '(k, x) := kx in scalar_pv k && pyd_ok sc x) d
  | PMsg (Obj c ra sow unk cur) =>
      Nat.eqb (length ra) (length (cfields (get_class sc c))) && ok_raw (pyd_ok sc) cur O ra (cfields (get_class sc c))
  | _ => true
  end.
Definition pyd_ok_obj (sc : schema) (o : obj) : bool := pyd_ok sc (PMsg o).

(* ------------------------------------------------------------------------------------------
   the extra condition of the BYTES theorem (the JSON theorems do not need it).
   Message.dump skips a plain sub-message field when `value == default and not value._serialized_on_wire`.  `==` is
   Message.__eq__, which compares a selected member holding its zero value with the OTHER side's default: T() = zero
   for the plain class (equal), None for the pydantic class (not equal).  So a sub-message without the flag that
   contains (through singular message attributes) a selected member at its zero value is skipped by the plain class
   and written by the pydantic class.  [sow_ok]: every message value at any depth has the flag or contains no selection.
   ------------------------------------------------------------------------------------------ *)
Definition opt_is_none {A} (o : option A) : bool := match o with None => true | Some _ => false end.

(* no oneof selection in this message nor in the messages its attributes hold directly (what __eq__ walks) *)
Fixpoint nosel (v : pv) {struct v} : bool :=
  match v with
  | PMsg (Obj _ ra _ _ cur) => forallb opt_is_none cur && forallb nosel ra
  | _ => true
  end.

Definition flag_or_nosel (v : pv) : bool :=
  match v with PMsg o => osow o || nosel v | _ => true end.

Fixpoint sow_ok (v : pv) {struct v} : bool :=
  match v with
  | PList l => forallb sow_ok l
  | PDict d => forallb (fun kx => let '(k, x) := kx in sow_ok x) d
  | PMsg (Obj _ ra _ _ _) => forallb (fun x => flag_or_nosel x && sow_ok x) ra
  | _ => true
  end.
Definition sow_ok_obj (o : obj) : bool := sow_ok (PMsg o).

(* ------------------------------------------------------------------------------------------
   (1) the annotation as the runtime uses it.  The fields of [fdesc] that come from FieldMetadata: *)
Definition meta_of (f : fdesc) : Z * ptype * option (ptype * ptype) * option nat * option ptype * bool :=
  (fnum f, fty f, fmap f, fgroup f, fwraps f, fopt f).
Definition same_meta (a b : cdesc) : Prop :=
  map meta_of (cfields a) = map meta_of (cfields b) /\ map fname (cfields a) = map fname (cfields b) /\ cngroups a = cngroups b.

(* JSON text round trip of to_dict = to_json as far as the model has it (Json.dumps_loads) *)
Definition to_json (cs : casing) (incl : bool) (sc : schema) (o : obj) : result json := dumps_loads (to_dict cs incl sc o).
