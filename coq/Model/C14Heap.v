(* C14, aliasing: a heap of cells under the value trees of Model/Object.v.

   Python objects with identity (Message, list, dict) are cells of a heap; an address is an index into the heap, a new
   object is appended (the next free address is [length h]); a slot of a cell holds an immutable scalar (a [pv] that is
   not a list / dict / message) or the address of another cell.  [abs] reads the value tree of Model/Object.v back.

   Mirrors: Message.__copy__ (h_copy: one new message cell whose slots hold the SAME addresses), Message.__deepcopy__
   (dc: every field value goes through copy.deepcopy(value) with a memo of its own - Message.__deepcopy__ ignores the
   memo it is given - so a child held by two fields is duplicated, while copy.deepcopy of ONE list / dict keeps its memo
   across the elements: a message held twice by the same list is copied once), _copy_internal_state (flag, unknown
   bytes, a new _group_current dict), __reduce__ (h_pickle_rt: FromString(bytes(m)) builds a fresh tree),
   __getattribute__ (nav_step: the default of a PLACEHOLDER attribute is created AND stored in the holder),
   __setattr__ (h_setattr_at), list.append / list.__setitem__ / dict.__setitem__ / dict.__delitem__.
   No proofs here. *)
From BP Require Import Base.Prelude Model.Types Model.Object Model.Eq Model.Encode Model.Decode Model.History.
Local Open Scope nat_scope.

Definition addr := nat.

Inductive slot :=
| SVal (v : pv)            (* an immutable scalar (None, PLACEHOLDER, int, bool, float, str, bytes, datetime, timedelta) *)
| SRef (a : addr).         (* a reference to a Message / list / dict *)

Inductive kind :=
| KMsg (cls : nat) (sow : bool) (unk : list byte) (cur : list (option nat))
| KList
| KDict (keys : list pv).  (* insertion order; the i-th slot is the value stored under the i-th key *)

Record cell := mkCell { ckind : kind; cslots : list slot }.
Definition heap := list cell.

Definition is_scalar (v : pv) : bool :=
  match v with PList _ | PDict _ | PMsg _ => false | _ => true end.

(* ---- reading the value tree back ---- *)
Fixpoint omapM {A B} (f : A -> option B) (l : list A) : option (list B) :=
  match l with
  | [] => Some []
  | x :: r => match f x with
              | None => None
              | Some y => match omapM f r with None => None | Some ys => Some (y :: ys) end
              end
  end.

Definition build (k : kind) (vs : list pv) : pv :=
  match k with
  | KMsg c sow unk cur => PMsg (Obj c vs sow unk cur)
  | KList => PList vs
  | KDict ks => PDict (combine ks vs)
  end.

Definition abs_slot (ab : addr -> option pv) (s : slot) : option pv :=
  match s with SVal v => Some v | SRef b => ab b end.

(* fuel = nesting depth allowed; [None] = dangling address or fuel exhausted (a cycle never succeeds) *)
Fixpoint abs (n : nat) (h : heap) (a : addr) : option pv :=
  match n with
  | O => None
  | S n' =>
      match nth_error h a with
      | None => None
      | Some c =>
          match omapM (abs_slot (abs n' h)) (cslots c) with
          | None => None
          | Some vs => Some (build (ckind c) vs)
          end
      end
  end.

Definition abs_obj (n : nat) (h : heap) (a : addr) : option obj :=
  match abs n h a with Some (PMsg o) => Some o | _ => None end.

(* ---- what an object reaches ---- *)
Definition slot_refs (s : slot) : list addr := match s with SRef b => [b] | SVal _ => [] end.
Definition refs (c : cell) : list addr := flat_map slot_refs (cslots c).

Fixpoint reach (n : nat) (h : heap) (a : addr) : list addr :=
  match n with
  | O => []
  | S n' =>
      match nth_error h a with
      | None => []
      | Some c => a :: flat_map (reach n' h) (refs c)
      end
  end.

Definition disjointb (l1 l2 : list addr) : bool :=
  forallb (fun a => negb (existsb (Nat.eqb a) l2)) l1.

(* ---- building a fresh structure from a value tree (parse / FromString / a constructor call / a literal) ---- *)
Fixpoint alloc_pv (h : heap) (v : pv) {struct v} : heap * slot :=
  match v with
  | PMsg (Obj c raw sow unk cur) =>
      let '(h1, ss) :=
        (fix go (h : heap) (l : list pv) {struct l} : heap * list slot :=
           match l with
           | [] => (h, [])
           | x :: r => let '(h1, s) := alloc_pv h x in
                       let '(h2, ss) := go h1 r in (h2, s :: ss)
           end) h raw in
      (h1 ++ [mkCell (KMsg c sow unk cur) ss], SRef (length h1))
  | PList l =>
      let '(h1, ss) :=
        (fix go (h : heap) (l : list pv) {struct l} : heap * list slot :=
           match l with
           | [] => (h, [])
           | x :: r => let '(h1, s) := alloc_pv h x in
                       let '(h2, ss) := go h1 r in (h2, s :: ss)
           end) h l in
      (h1 ++ [mkCell KList ss], SRef (length h1))
  | PDict d =>
      let '(h1, ss) :=
        (fix go (h : heap) (d : list (pv * pv)) {struct d} : heap * list slot :=
           match d with
           | [] => (h, [])
           | (_, x) :: r => let '(h1, s) := alloc_pv h x in
                            let '(h2, ss) := go h1 r in (h2, s :: ss)
           end) h d in
      (h1 ++ [mkCell (KDict (map fst d)) ss], SRef (length h1))
  | _ => (h, SVal v)
  end.

Definition alloc_tree (h : heap) (o : obj) : heap * addr :=
  let '(h1, s) := alloc_pv h (PMsg o) in
  (h1, match s with SRef a => a | SVal _ => O end).

(* ---- Message.__copy__ + _copy_internal_state ---- *)
(* new = cls(): None for optional fields, PLACEHOLDER otherwise; every attribute of self that is not PLACEHOLDER is stored
   in new as it is (the same reference) *)
Definition overlay_slots (sc : schema) (c : nat) (slots : list slot) : list slot :=
  (fix go (slots : list slot) (fresh : list pv) {struct slots} : list slot :=
     match slots, fresh with
     | x :: r, y :: fr => (match x with SVal PPlaceholder => SVal y | _ => x end) :: go r fr
     | _, _ => map SVal fresh
     end) slots (oraw (new sc c)).

Definition h_copy (sc : schema) (h : heap) (a : addr) : option (heap * addr) :=
  match nth_error h a with
  | Some c =>
      match ckind c with
      | KMsg cl _ _ _ => Some (h ++ [mkCell (ckind c) (overlay_slots sc cl (cslots c))], length h)
      | _ => None
      end
  | None => None
  end.

(* ---- copy.deepcopy ---- *)
Definition memo := list (addr * addr).
Fixpoint lookup (m : memo) (a : addr) : option addr :=
  match m with
  | [] => None
  | (x, y) :: r => if Nat.eqb x a then Some y else lookup r a
  end.

Fixpoint thread {A B} (f : heap -> memo -> A -> option (heap * B * memo)) (h : heap) (m : memo) (l : list A)
  : option (heap * list B * memo) :=
  match l with
  | [] => Some (h, [], m)
  | x :: r =>
      match f h m x with
      | None => None
      | Some (h1, y, m1) =>
          match thread f h1 m1 r with
          | None => None
          | Some (h2, ys, m2) => Some (h2, y :: ys, m2)
          end
      end
  end.

(* copy.deepcopy(x, memo) of one slot: atomic values are returned as they are *)
Definition dc_slot (sc : schema) (rec : heap -> memo -> addr -> option (heap * addr * memo))
           (h : heap) (m : memo) (s : slot) : option (heap * slot * memo) :=
  match s with
  | SVal v => Some (h, SVal (deepcopy_pv sc v), m)
  | SRef b => match rec h m b with
              | Some (h1, b', m1) => Some (h1, SRef b', m1)
              | None => None
              end
  end.

(* Message.__deepcopy__: deepcopy(value) - a memo of its own for every field *)
Definition dc_slot_fresh (sc : schema) (rec : heap -> memo -> addr -> option (heap * addr * memo))
           (h : heap) (m : memo) (s : slot) : option (heap * slot * memo) :=
  match dc_slot sc rec h [] s with
  | Some (h1, s', _) => Some (h1, s', m)
  | None => None
  end.

Fixpoint dc (sc : schema) (n : nat) (h : heap) (m : memo) (a : addr) {struct n} : option (heap * addr * memo) :=
  match n with
  | O => None
  | S n' =>
      match lookup m a with
      | Some a' => Some (h, a', m)
      | None =>
          match nth_error h a with
          | None => None
          | Some c =>
              match ckind c with
              | KMsg cl _ _ _ =>
                  match thread (dc_slot_fresh sc (dc sc n')) h [] (cslots c) with
                  | None => None
                  | Some (h1, ss, _) =>
                      Some (h1 ++ [mkCell (ckind c) (overlay_slots sc cl ss)], length h1, (a, length h1) :: m)
                  end
              | _ =>
                  match thread (dc_slot sc (dc sc n')) h m (cslots c) with
                  | None => None
                  | Some (h1, ss, m1) => Some (h1 ++ [mkCell (ckind c) ss], length h1, (a, length h1) :: m1)
                  end
              end
          end
      end
  end.

Definition h_deepcopy (sc : schema) (n : nat) (h : heap) (a : addr) : option (heap * addr) :=
  match dc sc n h [] a with
  | Some (h', a', _) => Some (h', a')
  | None => None
  end.

(* ---- pickle.loads(pickle.dumps(m)) = cls.FromString(bytes(m)): a fresh tree ---- *)
Definition h_pickle_rt (sc : schema) (n : nat) (h : heap) (a : addr) : option (heap * addr) :=
  match abs n h a with
  | Some (PMsg o) =>
      match pickle_rt sc o with
      | Ok o' => Some (alloc_tree h o')
      | Err _ => None
      end
  | _ => None
  end.

(* ---- paths and mutations through a root ---- *)
Inductive pstep :=
| PField (i : nat)         (* attribute read: AttributeError for an unselected oneof member, lazy default stored *)
| PItem (k : nat)          (* l[k] *)
| PKey (key : pv).         (* d[key] *)

Definition key_eqb (a b : pv) : bool :=
  match a, b with
  | PInt x, PInt y => Z.eqb x y
  | PBool x, PBool y => Bool.eqb x y
  | PStr x, PStr y => bytes_eqb x y
  | _, _ => false
  end.

Fixpoint find_key (key : pv) (ks : list pv) : option nat :=
  match ks with
  | [] => None
  | k :: r => if key_eqb key k then Some O
              else match find_key key r with Some j => Some (S j) | None => None end
  end.

Definition upd (h : heap) (a : addr) (c : cell) : heap := set_nth a c h.

Fixpoint remove_nth {A} (i : nat) (l : list A) : list A :=
  match l, i with
  | [], _ => []
  | _ :: r, O => r
  | x :: r, S i' => x :: remove_nth i' r
  end.

(* one step of a path; the heap comes back because an attribute read may store a default in the holder *)
Definition nav_step (sc : schema) (h : heap) (a : addr) (st : pstep) : heap * option addr :=
  match nth_error h a with
  | None => (h, None)
  | Some c =>
      match st, ckind c with
      | PField i, KMsg cl _ _ cur =>
          match nth_error (cfields (get_class sc cl)) i with
          | None => (h, None)
          | Some f =>
              match group_selects cur f i with
              | Some false => (h, None)
              | _ =>
                  match nth i (cslots c) (SVal PPlaceholder) with
                  | SRef b => (h, Some b)
                  | SVal PPlaceholder =>
                      let '(h1, s) := alloc_pv h (default_of sc f) in
                      (upd h1 a (mkCell (ckind c) (set_nth i s (cslots c))),
                       match s with SRef b => Some b | SVal _ => None end)
                  | SVal _ => (h, None)
                  end
              end
          end
      | PItem k, KList =>
          match nth_error (cslots c) k with
          | Some (SRef b) => (h, Some b)
          | _ => (h, None)
          end
      | PKey key, KDict ks =>
          match find_key key ks with
          | Some j => match nth_error (cslots c) j with
                      | Some (SRef b) => (h, Some b)
                      | _ => (h, None)
                      end
          | None => (h, None)
          end
      | _, _ => (h, None)
      end
  end.

Fixpoint nav (sc : schema) (h : heap) (a : addr) (path : list pstep) {struct path} : heap * option addr :=
  match path with
  | [] => (h, Some a)
  | st :: r =>
      let '(h1, ob) := nav_step sc h a st in
      match ob with
      | Some b => nav sc h1 b r
      | None => (h1, None)
      end
  end.

(* Message.__setattr__(field i, v) on the message at address a; v is a fresh value (a literal / a constructor call) *)
Definition h_setattr_at (sc : schema) (h : heap) (a : addr) (i : nat) (v : pv) : heap :=
  match nth_error h a with
  | None => h
  | Some c =>
      match ckind c with
      | KMsg cl sow unk cur =>
          let fs := cfields (get_class sc cl) in
          let v := if fieldless sc v then mark_sow v else v in
          match nth_error fs i with
          | None => h
          | Some f =>
              let '(h1, s) := alloc_pv h v in
              match fgroup f with
              | None => upd h1 a (mkCell (KMsg cl true unk cur) (set_nth i s (cslots c)))
              | Some g =>
                  let slots' :=
                    (fix go (j : nat) (fs : list fdesc) (slots : list slot) {struct fs} : list slot :=
                       match fs, slots with
                       | f' :: fs', x :: slots' =>
                           (if opt_nat_eqb (fgroup f') (Some g) && negb (Nat.eqb j i) then SVal PPlaceholder else x)
                           :: go (S j) fs' slots'
                       | _, _ => slots
                       end) O fs (cslots c) in
                  upd h1 a (mkCell (KMsg cl true unk (set_nth g (Some i) cur)) (set_nth i s slots'))
              end
          end
      | _ => h
      end
  end.

Inductive mut :=
| MSet (path : list pstep) (i : nat) (v : pv)          (* root.<path>.<field i> = v *)
| MRead (path : list pstep)                            (* root.<path> read (lazy defaults stored on the way) *)
| MAppend (path : list pstep) (v : pv)                 (* root.<path>.append(v) *)
| MListSet (path : list pstep) (k : nat) (v : pv)      (* root.<path>[k] = v *)
| MDictSet (path : list pstep) (key : pv) (v : pv)     (* root.<path>[key] = v *)
| MDictDel (path : list pstep) (key : pv)              (* del root.<path>[key] *)
| MAppendRef (path : list pstep) (src : list pstep).   (* root.<path>.append(root.<src>): aliasing inside one structure *)

Definition with_list (h : heap) (a : addr) (f : list slot -> list slot) : heap :=
  match nth_error h a with
  | Some c => match ckind c with
              | KList => upd h a (mkCell KList (f (cslots c)))
              | _ => h
              end
  | None => h
  end.

Definition h_mut (sc : schema) (h : heap) (root : addr) (m : mut) : heap :=
  match m with
  | MRead path => fst (nav sc h root path)
  | MSet path i v =>
      let '(h1, oa) := nav sc h root path in
      match oa with Some a => h_setattr_at sc h1 a i v | None => h1 end
  | MAppend path v =>
      let '(h1, oa) := nav sc h root path in
      match oa with
      | Some a => let '(h2, s) := alloc_pv h1 v in with_list h2 a (fun l => l ++ [s])
      | None => h1
      end
  | MListSet path k v =>
      let '(h1, oa) := nav sc h root path in
      match oa with
      | Some a => let '(h2, s) := alloc_pv h1 v in with_list h2 a (set_nth k s)
      | None => h1
      end
  | MDictSet path key v =>
      let '(h1, oa) := nav sc h root path in
      match oa with
      | Some a =>
          let '(h2, s) := alloc_pv h1 v in
          match nth_error h2 a with
          | Some c =>
              match ckind c with
              | KDict ks =>
                  match find_key key ks with
                  | Some j => upd h2 a (mkCell (KDict ks) (set_nth j s (cslots c)))
                  | None => upd h2 a (mkCell (KDict (ks ++ [key])) (cslots c ++ [s]))
                  end
              | _ => h2
              end
          | None => h2
          end
      | None => h1
      end
  | MDictDel path key =>
      let '(h1, oa) := nav sc h root path in
      match oa with
      | Some a =>
          match nth_error h1 a with
          | Some c =>
              match ckind c with
              | KDict ks =>
                  match find_key key ks with
                  | Some j => upd h1 a (mkCell (KDict (remove_nth j ks)) (remove_nth j (cslots c)))
                  | None => h1
                  end
              | _ => h1
              end
          | None => h1
          end
      | None => h1
      end
  | MAppendRef path src =>
      let '(h1, ob) := nav sc h root src in
      match ob with
      | Some b =>
          let '(h2, oa) := nav sc h1 root path in
          match oa with
          | Some a => with_list h2 a (fun l => l ++ [SRef b])
          | None => h2
          end
      | None => h1
      end
  end.

Definition h_muts (sc : schema) (h : heap) (root : addr) (ms : list mut) : heap :=
  fold_left (fun h m => h_mut sc h root m) ms h.

(* ---- the sharing two structures exhibit: every (path from r1, path from r2) that ends at the same cell ---- *)
Definition step_of (k : kind) (j : nat) : pstep :=
  match k with
  | KMsg _ _ _ _ => PField j
  | KList => PItem j
  | KDict ks => PKey (nth j ks PNone)
  end.

(* every mutable object below a (a included), with the path that leads to it; preorder, declaration / insertion order *)
Fixpoint paths (n : nat) (h : heap) (a : addr) (rev_path : list pstep) : list (list pstep * addr) :=
  match n with
  | O => []
  | S n' =>
      match nth_error h a with
      | None => []
      | Some c =>
          (rev rev_path, a) ::
          (fix go (j : nat) (l : list slot) {struct l} : list (list pstep * addr) :=
             match l with
             | [] => []
             | SRef b :: r => paths n' h b (step_of (ckind c) j :: rev_path) ++ go (S j) r
             | SVal _ :: r => go (S j) r
             end) O (cslots c)
      end
  end.

Definition shared (n : nat) (h : heap) (r1 r2 : addr) : list (list pstep * list pstep) :=
  flat_map (fun '(p, a) =>
              flat_map (fun '(q, b) => if Nat.eqb a b then [(p, q)] else []) (paths n h r2 []))
           (paths n h r1 []).

(* aliasing inside one structure: pairs of distinct paths (in preorder) that end at the same cell *)
Definition shared_within (n : nat) (h : heap) (r : addr) : list (list pstep * list pstep) :=
  (fix go (l : list (list pstep * addr)) {struct l} : list (list pstep * list pstep) :=
     match l with
     | [] => []
     | (p, a) :: rest =>
         flat_map (fun '(q, b) => if Nat.eqb a b then [(p, q)] else []) rest ++ go rest
     end) (paths n h r []).
