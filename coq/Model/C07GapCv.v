(* C07 gap closing: EVALUATION helper of the check (harness/props/c07.py, stage "gap").  No new notion is defined here:
   [gap_eval] only puts the values of the specification-side definitions the gap-closing theorems are stated over
   (Model/C07GapDef.v, Model/C07GapOk.v, Model/C01Reach.v, Model/C01Parse.v) into one list of integers, so that the check can
   read them back after vm_compute and compare them with the real object and with its own last-writer tracker:

     [ hist_ok trk_ok sc (new sc c) ops ;            hypothesis of C07_track_sound
       forallb framed_op ops ;                       hypothesis of C07_track_reachable / C07_last_writer_*
       forallb (op_okb sc c) ops ;                   hypothesis of C07_last_writer_on_wire / _in_json
       hist_ok op_value_ok_p sc (new sc c) ops ;     hypothesis of C07_track_reachable / C07_last_writer_*
       run7 sc (new sc c) ops is Ok ]                hypothesis of all of them
     ++ track sc c ops                               0 = None, i + 1 = Some i   (one entry per group)

   [gap_schema] : c01_schema_ok, the schema hypothesis of the same theorems (evaluated once per schema). *)
From Coq Require Import ZArith List Bool.
From BP Require Import Base.Prelude Model.Types Model.Object Model.History Model.C07Ops.
From BP Require Import Model.C01Def Model.C01Reach Model.C01Parse Model.C14Pickle Model.C07GapDef Model.C07GapOk.
Import ListNotations.

Definition zb (b : bool) : Z := if b then 1%Z else 0%Z.

Definition gap_eval (sc : schema) (c : nat) (ops : list op7) : list Z :=
  [zb (hist_ok trk_ok sc (new sc c) ops);
   zb (forallb framed_op ops);
   zb (forallb (op_okb sc c) ops);
   zb (hist_ok op_value_ok_p sc (new sc c) ops);
   zb (match run7 sc (new sc c) ops with Ok _ => true | Err _ => false end)]
  ++ map (fun x => match x with Some i => Z.of_nat (S i) | None => 0%Z end) (track sc c ops).

Definition gap_schema (sc : schema) : list Z := [zb (c01_schema_ok sc)].
