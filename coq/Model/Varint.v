(* L1 mirror of src/betterproto/__init__.py: dump_varint / encode_varint /
   size_varint / load_varint / decode_varint.  Written with the same bit
   operations the Python uses; proofs are in Proofs/VarintP.v. *)
From BP Require Import Base.Prelude.

(* ---- dump_varint ----
     if value < -(1 << 63): raise ValueError
     elif value < 0: value += 1 << 64
     bits = value & 0x7F; value >>= 7
     while value: write(0x80 | bits); bits = value & 0x7F; value >>= 7
     write(bits)
   The loop is structural recursion on fuel; [enc_fuel] is large enough for every
   non-negative value (lemma enc_go_fuel_irrelevant), so the fuel-exhausted arm is dead. *)
Fixpoint enc_go (fuel : nat) (v : Z) : list byte :=
  let bits := Z.land v 127 in
  let v' := Z.shiftr v 7 in
  match fuel with
  | O => [byte_of_Z bits]
  | S f => if v' =? 0 then [byte_of_Z bits]
           else byte_of_Z (Z.lor 128 bits) :: enc_go f v'
  end.

Definition enc_fuel (v : Z) : nat := S (Z.to_nat (Z.log2 v)).

Definition encode_varint (v : Z) : result (list byte) :=
  if v <? - (2 ^ 63) then Err EValue
  else let v := if v <? 0 then v + 2 ^ 64 else v in
       Ok (enc_go (enc_fuel v) v).

(* ---- size_varint ----
     if value < -(1 << 63): raise ValueError
     elif value < 0: return 10
     elif value == 0: return 1
     else: return math.ceil(value.bit_length() / 7)
   bit_length/7 is a float division of two small ints; its ceiling is exact. *)
Definition bit_length (v : Z) : Z := if v =? 0 then 0 else Z.log2 (Z.abs v) + 1.

Definition size_varint (v : Z) : result Z :=
  if v <? - (2 ^ 63) then Err EValue
  else if v <? 0 then Ok 10
  else if v =? 0 then Ok 1
  else Ok ((bit_length v + 6) / 7).

(* ---- load_varint ----
     for shift in count(0, 7):
         if shift >= 64: raise ValueError("Too many bytes")
         b = stream.read(1)
         if not b: raise EOFError
         raw += b; result |= (b & 0x7F) << shift
         if not (b & 0x80): return result, raw
   Ten iterations have shift < 64; the eleventh raises before reading.
   Returns (value, raw bytes consumed, rest of the stream). *)
Fixpoint load_go (n : nat) (shift acc : Z) (raw s : list byte)
  : result (Z * list byte * list byte) :=
  match n with
  | O => Err ETooLong
  | S n' =>
      match s with
      | [] => Err EEof
      | b :: s' =>
          let bi := Z_of_byte b in
          let acc' := Z.lor acc (Z.shiftl (Z.land bi 127) shift) in
          if Z.land bi 128 =? 0 then Ok (acc', raw ++ [b], s')
          else load_go n' (shift + 7) acc' (raw ++ [b]) s'
      end
  end.

Definition load_varint (s : list byte) : result (Z * list byte * list byte) :=
  load_go 10 0 0 [] s.

(* ---- decode_varint(buffer, pos) -> (value, new_pos) ----
   BytesIO.seek(pos) with pos < 0 raises ValueError; beyond the end the read is empty. *)
Definition decode_varint (buf : list byte) (pos : Z) : result (Z * Z) :=
  if pos <? 0 then Err EValue
  else do (v, raw, _) <- load_varint (skipn (Z.to_nat pos) buf);
       Ok (v, pos + Zlength raw).
