(* Model/C11GapDefs.v - new vocabulary of the C11 gap closing (Proofs/C11GapA.v, C11GapB.v).  No proofs here, and nothing of
   Model/Grpc.v is changed: every definition below is an ADDITION on top of it.

   (1) THE INSTANCE NAMESPACE OF A STUB (known finding C11-K3).  Model/Grpc.v resolves `stub.<py>` in the CLASS body only
       ([assoc_last (stub_class svc) py]).  The real attribute lookup on an instance looks into the instance __dict__
       first, and ServiceStub.__init__ stores exactly four instance attributes: self.channel, self.timeout, self.deadline,
       self.metadata (grpc/grpclib_client.py; the names are read from the source by the translation tie of Properties/C11Src.v,
       C11Src_instance_attribute_names).  A generated method with one of these Python names is therefore unreachable through an
       instance: `stub.timeout` is the stored value (None, a float, a Deadline, a mapping, the Channel), none of which is
       callable, so `stub.timeout(request)` raises TypeError before anything reaches channel.request.
         [stub_instance_attrs]      the four names
         [shadowedb py]             py is one of them
         [stub_getattr svc py]      getattr(stub, py): the instance attribute if shadowed, else the class attribute
         [call_inst ...]            stub.<py>(arg, **ckw) ON AN INSTANCE: TypeError if shadowed, else Model/Grpc.v's [call]
   (2) boolean forms of the side conditions of the headline theorems (names_distinct, pynames_distinct, owns, arg_ok,
       handler_ok), so that every hypothesis can be evaluated (Proofs/C11GapA.v proves them equivalent to the Props).
   (3) [stub_known_route]: the decidable statement "r is the route of some RPC of the service". *)
From BP Require Import Base.Prelude Model.Grpc.

(* ---- (1) ---- *)
Definition key_channel  : str := [x63; x68; x61; x6e; x6e; x65; x6c].
Definition key_timeout  : str := [x74; x69; x6d; x65; x6f; x75; x74].
Definition key_deadline : str := [x64; x65; x61; x64; x6c; x69; x6e; x65].
Definition key_metadata : str := [x6d; x65; x74; x61; x64; x61; x74; x61].

Definition stub_instance_attrs : list str := [key_channel; key_timeout; key_deadline; key_metadata].

Definition shadowedb (py : str) : bool := existsb (str_eqb py) stub_instance_attrs.

(* what getattr(stub, py) is on an INSTANCE *)
Inductive stub_attr :=
| AttrData                      (* a stored value: the Channel / None / a number / a Deadline / a mapping - never callable *)
| AttrMethod (d : stub_def).    (* the bound generated method *)

Definition stub_getattr (svc : service) (py : str) : option stub_attr :=
  if shadowedb py then Some AttrData
  else option_map AttrMethod (assoc_last (stub_class svc) py).

Inductive call_result :=
| CallTypeError                 (* 'NoneType' / 'Channel' / ... object is not callable: nothing was sent, no handler ran *)
| CallObs (o : observation).

(* stub.<py>(arg, timeout=, deadline=, metadata=) on an instance constructed with skw.  None as in [call]
   (no such attribute / iterator where a message is expected) *)
Definition call_inst (svc : service) (im : impl) (skw : kw) (py : str) (arg : carg) (ckw : kw) : option call_result :=
  match stub_getattr svc py with
  | None => None
  | Some AttrData => Some CallTypeError
  | Some (AttrMethod _) => option_map CallObs (call svc im skw py arg ckw)
  end.

(* no RPC of the service has a shadowed Python name *)
Definition unshadowedb (svc : service) : bool := forallb (fun m => negb (shadowedb (m_py m))) (s_methods svc).

(* ---- (2) ---- *)
Fixpoint str_memb (x : str) (l : list str) : bool :=
  match l with [] => false | y :: r => str_eqb y x || str_memb x r end.
Fixpoint nodupb (l : list str) : bool :=
  match l with [] => true | x :: r => negb (str_memb x r) && nodupb r end.

Definition names_distinctb (svc : service) : bool := nodupb (map m_name (s_methods svc)).
Definition pynames_distinctb (svc : service) : bool := nodupb (map m_py (s_methods svc)).

Definition method_eqb (a c : method) : bool :=
  str_eqb (m_name a) (m_name c) && str_eqb (m_py a) (m_py c) && Bool.eqb (m_cs a) (m_cs c) &&
  Bool.eqb (m_ss a) (m_ss c) && str_eqb (m_in a) (m_in c) && str_eqb (m_out a) (m_out c).

(* m occurs in l at a position after which no method has its Python name *)
Fixpoint ownsb_list (l : list method) (m : method) : bool :=
  match l with
  | [] => false
  | x :: r => ownsb_list r m || (method_eqb x m && negb (str_memb (m_py m) (map m_py r)))
  end.
Definition ownsb (svc : service) (m : method) : bool := ownsb_list (s_methods svc) m.

Definition typedb (t : str) (ms : list msg) : bool := forallb (fun r => str_eqb (fst r) t) ms.

Definition arg_okb (m : method) (a : carg) : bool :=
  match a with
  | ArgOne r => negb (m_cs m) && str_eqb (fst r) (m_in m)
  | ArgIter rs => m_cs m && typedb (m_in m) rs
  end.

(* the same function as Proofs/GrpcP.v [produced] (restated here because Model files hold no imports of Proofs) *)
Definition producedb (ss : bool) (h : hbody) (inp : hinput) : list msg * option Z :=
  match h with
  | HGen f => f inp
  | HCoro f => match f inp with
               | RetMsg y => (if ss then [] else [y], None)
               | RetNone => ([], None)
               | Raise1 s => ([], Some s)
               end
  end.

Definition handler_okb (m : method) (h : hbody) (inp : hinput) : bool :=
  typedb (m_out m) (fst (producedb (m_ss m) h inp)) &&
  (m_ss m || match h with
             | HCoro f => match f inp with RetNone => false | _ => true end
             | HGen _ => false
             end).

(* ---- (3) ---- *)
Definition stub_known_route (svc : service) (r : str) : bool := str_memb r (map (route svc) (s_methods svc)).
