(* C10 model additions: several messages on ONE stream.

     for m in ms: m.dump(stream, betterproto.SIZE_DELIMITED)          -> dump_stream
     [Cls().load(stream, betterproto.SIZE_DELIMITED) for Cls in cs]   -> loads

   [dump] is Model/Len.v (prefix = encode_varint (len_obj m), the SEPARATE __len__ walk),
   [load_delimited] is Model/Decode.v (Message.load with size = SIZE_DELIMITED: the prefix
   varint, the read/size accounting, the size == 0 case, the three size errors).
   A stream is the list of bytes not yet read; an exception ends the run (the position
   of a stream after an exception is not part of the model). *)
From BP Require Import Base.Prelude Model.Types Model.Varint Model.Object.
From BP Require Import Model.Encode Model.Len Model.Decode Model.Canon.

(* everything the writer put on the stream; Err when some dump raises *)
Fixpoint dump_stream (sc : schema) (ms : list obj) : result (list byte) :=
  match ms with
  | [] => Ok []
  | m :: r => do a <- dump sc m true; do b <- dump_stream sc r; Ok (a ++ b)
  end.

(* successive loads with the classes [cs]: the messages returned before the first
   exception, and either the unread rest (every load returned) or that exception *)
Fixpoint loads (sc : schema) (cs : list nat) (s : list byte) : list obj * result (list byte) :=
  match cs with
  | [] => ([], Ok s)
  | c :: cs' =>
      match load_delimited sc c s with
      | Ok (m, s') => let '(ms, r) := loads sc cs' s' in (m :: ms, r)
      | Err e => ([], Err e)
      end
  end.

(* ---- observables for the correspondence check ---- *)

(* per load: the snapshot of the returned object and the number of unread bytes
   (len(stream) - stream.tell()); the run stops at the first exception (CE) *)
Fixpoint loads_trace (sc : schema) (cs : list nat) (s : list byte) : list cv :=
  match cs with
  | [] => []
  | c :: cs' =>
      match load_delimited sc c s with
      | Ok (m, s') => CL [cv_of_obj m; CZ (Zlength s')] :: loads_trace sc cs' s'
      | Err _ => [CE EOther]
      end
  end.

(* the same run on the stream cut after k bytes, summarised against the uncut run [full]:
   number of loads that returned, whether each returned object is snapshot-equal to the one
   the uncut run returned at that position, unread bytes after each, and whether the run
   ended in an exception *)
Fixpoint cut_trace (sc : schema) (cs : list nat) (s : list byte) (full : list cv)
  : Z * bool * list cv * bool :=
  match cs with
  | [] => (0, true, [], false)
  | c :: cs' =>
      match load_delimited sc c s with
      | Ok (m, s') =>
          let same := match full with
                      | CL [snap; _] :: _ => cv_eqb snap (cv_of_obj m)
                      | _ => false
                      end in
          let '(n, ok, rests, err) := cut_trace sc cs' s' (tl full) in
          (n + 1, same && ok, CZ (Zlength s') :: rests, err)
      | Err _ => (0, true, [], true)
      end
  end.

Definition cut_summary (sc : schema) (cs : list nat) (s : list byte) (full : list cv) (k : nat) : cv :=
  let '(n, ok, rests, err) := cut_trace sc cs (firstn k s) full in
  CL [CZ n; cbool ok; CL rests; cbool err].

Definition all_cuts (sc : schema) (cs : list nat) (s : list byte) (ks : list nat) : cv :=
  let full := loads_trace sc cs s in
  CL (map (cut_summary sc cs s full) ks).

(* ---- what the reader is expected to return: Cls().parse(bytes(m)) for each written message,
        up to the first one that raises (writer schema scW, reader schema scR and reader
        classes cs may differ from the writer's: "reader older than writer") ---- *)
Fixpoint parse_each (scW scR : schema) (cs : list nat) (ms : list obj) : list obj * bool :=
  match cs, ms with
  | c :: cs', m :: ms' =>
      match enc_obj scW m with
      | Ok bs =>
          match parse scR c bs with
          | Ok m' => let '(l, ok) := parse_each scW scR cs' ms' in (m' :: l, ok)
          | Err _ => ([], false)
          end
      | Err _ => ([], false)
      end
  | _, _ => ([], true)
  end.
