(* C20, message level: vocabulary for "an enum-typed field in one of the five positions the property names"
   over the shared codec model (Model/Object.v schemas and values, Model/Encode.v, Model/Decode.v, Model/Json.v).
   Nothing of the code is modelled anew here; the definitions only NAME things of the existing models:

     enum_position f      which of the five positions a field descriptor is, and of which enum of the schema
     holds_enum pos x v   the value x a field of that position reads as holds the number v
     place pos k v        the smallest value of that position holding v (v itself / [v] / {k: v})
     field_member sc e x  the Python object an enum-typed attribute holding the integer x IS: the codec models
                          keep the number only (PInt z, comment "then cls.try_value" in Decode.postprocess_varint,
                          "try_value" in Json.enum_from_json); the object is Enum.try_value of the field's class
     jlookup k j          d.get(k) on a JSON object

   No proofs here (Proofs/C20Msg*.v). *)
From BP Require Import Base.Prelude Model.Types Model.Object Model.WellFormed Model.Json.
From BP Require Model.Enum.

Inductive epos := PosSingular | PosRepeated | PosMapValue | PosOneof | PosOptional.

Definition some_b {A} (o : option A) : bool := match o with Some _ => true | None => false end.

(* the descriptor of an enum-typed field, by position.  Under wf_field the boolean guards are implied by the
   type hint alone (Proofs/C20MsgDef.v enum_position_complete): every field whose annotation is E, Optional[E],
   List[E] or Dict[K, E] for an Enum subclass E is classified. *)
Definition enum_position (f : fdesc) : option (epos * nat) :=
  let bare := negb (some_b (fwraps f)) in
  match fhint f, fmap f with
  | HPlain (PyEnum e), None =>
      if ptype_eqb (fty f) TEnum && negb (fopt f) && bare
      then Some (match fgroup f with Some _ => PosOneof | None => PosSingular end, e) else None
  | HOptional (PyEnum e), None =>
      if ptype_eqb (fty f) TEnum && fopt f && bare && negb (some_b (fgroup f)) then Some (PosOptional, e) else None
  | HList (PyEnum e), None =>
      if ptype_eqb (fty f) TEnum && negb (fopt f) && bare && negb (some_b (fgroup f)) then Some (PosRepeated, e) else None
  | HDict _ (PyEnum e), Some (_, vt) =>
      if ptype_eqb (fty f) TMap && ptype_eqb vt TEnum && negb (fopt f) && bare && negb (some_b (fgroup f))
      then Some (PosMapValue, e) else None
  | _, _ => None
  end.

(* the annotation mentions an Enum subclass in element position *)
Definition hint_enum (f : fdesc) : option nat :=
  match fhint f with
  | HPlain (PyEnum e) | HOptional (PyEnum e) | HList (PyEnum e) | HDict _ (PyEnum e) => Some e
  | _ => None
  end.

Definition is_int (v : Z) (y : pv) : bool := match y with PInt z => z =? v | _ => false end.

(* the attribute value x (what m.f returns) holds the number v in that position *)
Definition holds_enum (pos : epos) (x : pv) (v : Z) : bool :=
  match pos, x with
  | (PosSingular | PosOneof | PosOptional), PInt z => z =? v
  | PosRepeated, PList l => existsb (is_int v) l
  | PosMapValue, PDict d => existsb (fun ky => is_int v (snd ky)) d
  | _, _ => false
  end.

(* the smallest value of the position that holds v (k: the map key) *)
Definition place (pos : epos) (k : pv) (v : Z) : pv :=
  match pos with
  | PosSingular | PosOneof | PosOptional => PInt v
  | PosRepeated => PList [PInt v]
  | PosMapValue => PDict [(k, PInt v)]
  end.

(* the key type of a map field (TBool for the others: never looked at) *)
Definition key_type (f : fdesc) : ptype := match fmap f with Some (kt, _) => kt | None => TBool end.

(* m = Cls(); m.f = place pos k v *)
Definition built (sc : schema) (c i : nat) (pos : epos) (k : pv) (v : Z) : obj :=
  setattr sc (new sc c) i (place pos k v).

(* the enum class of the schema's e-th enum (= Json.enum_cls) and its body *)
Definition enum_body (sc : schema) (e : nat) : Enum.defn := emembers (nth e (enums sc) (mkE [])).

(* the member object an enum-typed attribute holding x is *)
Definition field_member (sc : schema) (e : nat) (x : pv) : option Enum.member :=
  match x with PInt z => Some (Enum.try_value (enum_cls sc e) z) | _ => None end.

(* d.get(k) for a JSON object *)
Fixpoint jassoc (k : list byte) (d : list (json * json)) : option json :=
  match d with
  | [] => None
  | (JStr k', v) :: r => if bytes_eqb k k' then Some v else jassoc k r
  | _ :: r => jassoc k r
  end.
Definition jlookup (k : list byte) (j : json) : option json :=
  match j with JObj d => jassoc k d | _ => None end.

(* does to_dict (include_default_values=False) leave the field out: the proto3 default of a field without
   presence, and an unset optional *)
Definition enum_omitted (pos : epos) (x : pv) : bool :=
  match pos, x with
  | PosSingular, PInt z => z =? 0
  | PosRepeated, PList [] => true
  | PosMapValue, PDict [] => true
  | PosOptional, PNone => true
  | _, _ => false
  end.

(* a JSON document holding one field: {key: j}, {key: [j]}, {key: {jk: j}} by position *)
Definition jplace (pos : epos) (jk j : json) : json :=
  match pos with
  | PosSingular | PosOneof | PosOptional => j
  | PosRepeated => JList [j]
  | PosMapValue => JObj [(jk, j)]
  end.
Definition jdoc (key : list byte) (pos : epos) (jk j : json) : json := JObj [(JStr key, jplace pos jk j)].
