(* C01 (binary round trip): definitions the theorems and the check of C01 are stated with.
   Nothing of the code is modelled anew here:

   1. [parse_new] [post_len] [decode_value] [step] [loop] are verbatim copies of sub-terms of
      [Decode.load], given names so that lemmas can speak about "what one record does";
      Proofs/C01StepP.v proves [load = loop] by conversion ([reflexivity]), so an edit of
      Decode.v that changes behaviour breaks that proof.
   2. Boolean side conditions on schema and value beyond WellFormed.v
      ([builtins_exact], [deep]-lifted [oneof_clean], [cur_ok], [no_unknown], [keys_unique],
      [nan_free], [sow_ok]), all evaluated on the generated data by harness/props/c01.py.
   3. [norm_obj]: the object that decoding the encoding of [o] produces (a specification
      function, validated against the implementation by the check and proved equal to
      [parse (enc_obj o)] in Proofs/C01*.v).
   4. [obs_agree]: agreement of the observers the property names (which_one_of, None-ness,
      serialized_on_wire of nested messages), recursively; [c01_holds]: the property as a
      boolean, evaluated on every generated case. *)
From BP Require Import Base.Prelude Model.Types Model.Varint Model.Scalar Model.Float Model.Utf8.
From BP Require Import Model.Object Model.Eq Model.TimeCore Model.Encode Model.Decode Model.WellFormed.
From BP Require Import gen.Tables.

(* ------------------------------------------------------------------------------------------ *)
(* 1. Message.load taken apart                                                                  *)
(* ------------------------------------------------------------------------------------------ *)
Section Step.
  Variables (fuel' : nat) (sc : schema).

  (* cls().parse(payload) *)
  Definition parse_new (c' : nat) (bs : list byte) : result obj :=
    do (o', _) <- load fuel' sc (new sc c') bs None; Ok o'.

  (* the WIRE_LEN_DELIM branch of _postprocess_single for a non-packed field *)
  Definition post_len (f : fdesc) (t : ptype) (ety : pyty) (wraps : option ptype) (bs : list byte) : result pv :=
    if ptype_eqb t TString then
      if utf8_valid bs then Ok (PStr bs) else Err EUnicode
    else if ptype_eqb t TMessage then
      match ety, wraps with
      | PyDatetime, _ =>
          do m <- parse_new timestamp_cls bs;
          match snd (getattr sc m 0), snd (getattr sc m 1) with
          | Ok (PInt sec), Ok (PInt nan) => do us <- us_of_ts sec nan; Ok (PDatetime us)
          | _, _ => Err EType
          end
      | PyTimedelta, _ =>
          do m <- parse_new duration_cls bs;
          match snd (getattr sc m 0), snd (getattr sc m 1) with
          | Ok (PInt sec), Ok (PInt nan) => do us <- us_of_dur sec nan; Ok (PTimedelta us)
          | _, _ => Err EType
          end
      | _, Some w =>
          match wrapper_cls w with
          | None => Err EKey
          | Some wc => do m <- parse_new wc bs; snd (getattr sc m 0)
          end
      | PyMsg c', None => do m <- parse_new c' bs; Ok (mark_sow (PMsg m))
      | _, None => Err EType
      end
    else Ok (PBytes bs).

  (* value of a record that belongs to field f and whose wire type fits *)
  Definition decode_value (f : fdesc) (p : parsed) : result pv :=
    if (pwt p =? WIRE_LEN_DELIM) && tmem (fty f) PACKED_TYPES then
      do l <- unpack_packed (Datatypes.S (length (pbytes p))) (fty f) (pbytes p); Ok (PList l)
    else if pwt p =? WIRE_VARINT then Ok (postprocess_varint (fty f) (pint p))
    else if (pwt p =? WIRE_FIXED_32) || (pwt p =? WIRE_FIXED_64) then unpack_value (fty f) (pbytes p)
    else if ptype_eqb (fty f) TMap then
      do e <- parse_new (fentry f) (pbytes p); Ok (PMsg e)
    else post_len f (fty f) (hint_elem (fhint f)) (fwraps f) (pbytes p).

  (* the loop body after the size accounting; [continue] is what happens next *)
  Definition step_k {A} (cd : cdesc) (o : obj) (p : parsed) (continue : obj -> result A) : result A :=
    let 'Obj c raw sow unk cur := o in
    match field_by_number cd (pnum p) with
    | None => continue (Obj c raw sow (unk ++ praw p) cur)
    | Some (i, f) =>
        if negb (wire_type_fits f (pwt p)) then continue (Obj c raw sow (unk ++ praw p) cur)
        else
          do value <- decode_value f p;
          let '(o, current) :=
            match getattr sc o i with
            | (o', Ok cur_v) => (o', cur_v)
            | (_, Err _) => let d := default_of sc f in (setattr sc o i d, d)
            end in
          let 'Obj c raw sow unk cur := o in
          if ptype_eqb (fty f) TMap then
            match value, current with
            | PMsg e, PDict d =>
                match getattr sc e 0, getattr sc e 1 with
                | (_, Ok k), (_, Ok v) => continue (Obj c (set_nth i (PDict (dict_set d sc k v)) raw) sow unk cur)
                | _, _ => Err EAttribute
                end
            | _, _ => Err EType
            end
          else
            match current with
            | PList l =>
                let l' := match value with PList vs => l ++ vs | _ => l ++ [value] end in
                continue (Obj c (set_nth i (PList l') raw) sow unk cur)
            | _ => continue (setattr sc o i value)
            end
    end.

  Variables (size : option Z) (cd : cdesc).

  Fixpoint loop (n : nat) (o : obj) (s : list byte) (read : Z) {struct n} : result (obj * list byte) :=
    match n with
    | O => Err EFuel
    | S n' =>
        match s with
        | [] =>
            match size with
            | Some sz => if read <? sz then Err EValue else Ok (o, s)
            | None => Ok (o, s)
            end
        | _ =>
            do (num_wire, r, s1) <- load_varint s;
            do (p, s2) <- load_field fuel' s1 num_wire r;
            do read <- match size with
                       | Some sz => let read' := read + Zlength (praw p) in
                                    if sz <? read' then Err EValue else Ok read'
                       | None => Ok read
                       end;
            let finished := match size with Some sz => read =? sz | None => false end in
            step_k cd o p (fun o => if finished then Ok (o, s2) else loop n' o s2 read)
        end
    end.
End Step.

(* one record applied to the object *)
Definition step (fuel' : nat) (sc : schema) (cd : cdesc) (o : obj) (p : parsed) : result obj :=
  step_k fuel' sc cd o p (fun o' => Ok o').

(* ------------------------------------------------------------------------------------------ *)
(* 2. side conditions                                                                           *)
(* ------------------------------------------------------------------------------------------ *)

(* [P] holds of every message object nested anywhere in [v] (v itself included) *)
Fixpoint deep (P : obj -> bool) (v : pv) {struct v} : bool :=
  match v with
  | PList l => (fix all (l : list pv) : bool := match l with [] => true | x :: r => deep P x && all r end) l
  | PDict d => (fix all (d : list (pv * pv)) : bool :=
                  match d with [] => true | (_, x) :: r => deep P x && all r end) d
  | PMsg o =>
      P o && (let 'Obj _ raw _ _ _ := o in
              (fix all (l : list pv) : bool := match l with [] => true | x :: r => deep P x && all r end) raw)
  | _ => true
  end.

(* the schema's first classes ARE the bundled ones (msggen prints `builtin_classes ++ [...]`) *)
Definition opt_eqb {A} (e : A -> A -> bool) (a b : option A) : bool :=
  match a, b with Some x, Some y => e x y | None, None => true | _, _ => false end.
Definition pyty_eqb (a b : pyty) : bool :=
  match a, b with
  | PyInt, PyInt | PyFloat, PyFloat | PyBool, PyBool | PyStr, PyStr | PyBytes, PyBytes
  | PyDatetime, PyDatetime | PyTimedelta, PyTimedelta => true
  | PyEnum x, PyEnum y | PyMsg x, PyMsg y => Nat.eqb x y
  | _, _ => false
  end.
Definition hint_eqb (a b : hint) : bool :=
  match a, b with
  | HPlain x, HPlain y | HOptional x, HOptional y | HList x, HList y => pyty_eqb x y
  | HDict k v, HDict k' v' => pyty_eqb k k' && pyty_eqb v v'
  | _, _ => false
  end.
Definition fdesc_eqb (a b : fdesc) : bool :=
  bytes_eqb (fname a) (fname b) && (fnum a =? fnum b) && ptype_eqb (fty a) (fty b) &&
  opt_eqb (fun x y => ptype_eqb (fst x) (fst y) && ptype_eqb (snd x) (snd y)) (fmap a) (fmap b) &&
  opt_eqb Nat.eqb (fgroup a) (fgroup b) && opt_eqb ptype_eqb (fwraps a) (fwraps b) &&
  Bool.eqb (fopt a) (fopt b) && hint_eqb (fhint a) (fhint b) && Nat.eqb (fentry a) (fentry b).
Fixpoint list_eqb {A} (e : A -> A -> bool) (a b : list A) : bool :=
  match a, b with
  | [], [] => true
  | x :: a', y :: b' => e x y && list_eqb e a' b'
  | _, _ => false
  end.
Definition cdesc_eqb (a b : cdesc) : bool :=
  list_eqb fdesc_eqb (cfields a) (cfields b) && Nat.eqb (cngroups a) (cngroups b).
Definition builtins_exact (sc : schema) : bool :=
  list_eqb cdesc_eqb (firstn (length builtin_classes) (classes sc)) builtin_classes.

(* _group_current only ever names a member of that group *)
Definition cur_ok (sc : schema) (o : obj) : bool :=
  let fs := cfields (get_class sc (ocls o)) in
  (fix go (g : nat) (cur : list (option nat)) : bool :=
     match cur with
     | [] => true
     | None :: r => go (Datatypes.S g) r
     | Some i :: r =>
         match nth_error fs i with
         | Some f => opt_nat_eqb (fgroup f) (Some g)
         | None => false
         end && go (Datatypes.S g) r
     end) O (ocur o).

Definition no_unknown (o : obj) : bool := match ounk o with [] => true | _ => false end.

(* a Python dict has each key once *)
Fixpoint keys_nodup (sc : schema) (d : list (pv * pv)) : bool :=
  match d with
  | [] => true
  | (k, _) :: r => negb (existsb (fun kv => pv_eq sc k (fst kv)) r) && keys_nodup sc r
  end.
Definition keys_unique (sc : schema) (o : obj) : bool :=
  forallb (fun x => match x with PDict d => keys_nodup sc d | _ => true end) (oraw o).

(* no NaN directly inside a list or as a map value (known finding K7 lives outside) *)
Definition nan_free (o : obj) : bool :=
  forallb (fun x => match x with
                    | PList l => forallb (fun y => negb (pv_is_nan y)) l
                    | PDict d => forallb (fun kv => negb (pv_is_nan (snd kv))) d
                    | _ => true
                    end) (oraw o).

(* the flag of a singular nested message that will be put on the wire is raised
   (constructor / setattr / parse maintain this for every non-default sub-message; a freshly
   constructed all-default sub-message passed as a oneof member or as an optional field has
   the flag down and comes back with the flag up: measured by the check) *)
Definition sow_ok (sc : schema) (o : obj) : bool :=
  let 'Obj c raw _ _ cur := o in
  (fix go (i : nat) (raw : list pv) (fs : list fdesc) {struct raw} : bool :=
     match raw, fs with
     | x :: raw', f :: fs' =>
         (match x, fhint f with
          | PMsg o', (HPlain _ | HOptional _) =>
              osow o' ||
              negb (negb (is_default sc f x) || fopt f ||
                    match group_selects cur f i with Some true => true | _ => false end)
          | PPlaceholder, HPlain (PyMsg _) =>
              (* a selected message member always holds the message it was set to *)
              negb (match group_selects cur f i with Some true => true | _ => false end)
          | _, _ => true
          end) && go (Datatypes.S i) raw' fs'
     | _, _ => true
     end) O raw (cfields (get_class sc c)).

(* everything the main theorems assume about the value, in one boolean *)
Definition c01_value_ok (sc : schema) (o : obj) : bool :=
  in_range sc o &&
  deep (fun o' => oneof_clean sc o' && cur_ok sc o' && no_unknown o' && keys_unique sc o') (PMsg o).
(* the synthetic Entry class of a map field is annotated like the map itself (Dict[K, V] -> key: K, value: V);
   wf_schema only asks that both annotations fit the proto types *)
Definition entry_hints_ok (sc : schema) (f : fdesc) : bool :=
  match fhint f with
  | HDict pk pv' =>
      match cfields (get_class sc (fentry f)) with
      | [fk; fv] => hint_eqb (fhint fk) (HPlain pk) && hint_eqb (fhint fv) (HPlain pv')
      | _ => false
      end
  | _ => true
  end.
Definition entries_ok (sc : schema) : bool :=
  forallb (fun cd => forallb (entry_hints_ok sc) (cfields cd)) (classes sc).
Definition c01_schema_ok (sc : schema) : bool := wf_schema sc && builtins_exact sc && entries_ok sc.

(* ------------------------------------------------------------------------------------------ *)
(* 3. the decoded form of the encoding                                                          *)
(* ------------------------------------------------------------------------------------------ *)
Definition raise_sow (o : obj) : obj := let 'Obj c r _ u g := o in Obj c r true u g.

(* struct.unpack("<f", struct.pack("<f", x)) *)
Definition norm_f32 (b : Z) : Z := match d2f b with Some w => f2d w | None => b end.

Definition norm_scalar (t : ptype) (v : pv) : pv :=
  match t, v with
  | TFloat, PFloat b => PFloat (norm_f32 b)
  | _, _ => v
  end.

Definition wrapper_field (vt : ptype) : fdesc := plain_field value_name 1 vt.

Section Norm.
  Variable sc : schema.
  Variable rec : obj -> obj.      (* the decoded form of a nested message (flag raised) *)

  (* singular value / unpacked list element / packed list element *)
  Definition norm_elem (t : ptype) (v : pv) : pv :=
    match v with PMsg o => PMsg (rec o) | _ => norm_scalar t v end.

  (* a wrapper field's value: _get_wrapper(w)(value=v) skips a default value, and the reader's
     `.value` then materialises the default *)
  Definition norm_wrapped (w : ptype) (v : pv) : pv :=
    match wrapper_value_type w with
    | Some vt => if is_default (mkS [] []) (wrapper_field vt) v then default_of sc (wrapper_field vt)
                 else norm_scalar vt v
    | None => v
    end.

  (* a map value: _serialize_single(2, vt, v) without serialize_empty drops a sub-message that encodes
     to nothing, and the reader's `.value` then materialises a fresh one *)
  Definition norm_map_value (vt : ptype) (v : pv) : pv :=
    match v with
    | PMsg o => match enc_obj sc o with Ok [] => PMsg (new sc (ocls o)) | _ => PMsg (rec o) end
    | _ => norm_scalar vt v
    end.

  Definition norm_slot (f : fdesc) (sel : option bool) (x : pv) : pv :=
    let fresh := if fopt f then PNone else PPlaceholder in
    match sel with
    | Some false => fresh
    | _ =>
        let selected := match sel with Some true => true | _ => false end in
        match x with
        | PNone => fresh
        | PPlaceholder =>
            if selected then match default_of sc f with PMsg o => PMsg (raise_sow o) | d => d end
            else fresh
        | PList [] => fresh
        | PList l => PList (map (norm_elem (fty f)) l)
        | PDict [] => fresh
        | PDict d =>
            match fmap f with
            | Some (_, vt) => PDict (map (fun kv => (fst kv, norm_map_value vt (snd kv))) d)
            | None => x
            end
        | _ =>
            let forced := is_some (fgroup f) || fopt f || selected ||
                          match x with PMsg o => osow o | _ => false end in
            if is_default sc f x && negb forced then fresh
            else match fwraps f with
                 | Some w => norm_wrapped w x
                 | None => norm_elem (fty f) x
                 end
        end
    end.
End Norm.

Fixpoint norm_obj (sc : schema) (o : obj) {struct o} : obj :=
  let 'Obj c raw _ _ cur := o in
  Obj c
    ((fix go (i : nat) (raw : list pv) (fs : list fdesc) {struct raw} : list pv :=
        match raw, fs with
        | x :: raw', f :: fs' => norm_slot sc (norm_obj sc) f (group_selects cur f i) x :: go (Datatypes.S i) raw' fs'
        | _, _ => []
        end) O raw (cfields (get_class sc c)))
    true [] cur.

(* ------------------------------------------------------------------------------------------ *)
(* 4. the observers the property names                                                          *)
(* ------------------------------------------------------------------------------------------ *)
Definition res_ok {A} (r : result A) : bool := match r with Ok _ => true | Err _ => false end.
Definition res_none (r : result pv) : bool := match r with Ok PNone => true | _ => false end.
(* betterproto.serialized_on_wire(m.f) for a readable message-valued attribute *)
Definition res_flag (r : result pv) : bool := match r with Ok (PMsg o) => osow o | _ => false end.

(* same which_one_of for every group, same readability / None-ness / serialized_on_wire of every
   attribute, and the same recursively for the nested messages both sides hold (singular, list
   elements and map values position by position) *)
Fixpoint obs_agree (sc : schema) (a b : pv) {struct a} : bool :=
  match a, b with
  | PList x, PList y =>
      (fix go (x y : list pv) : bool :=
         match x, y with
         | [], [] => true
         | u :: x', v :: y' => obs_agree sc u v && go x' y'
         | _, _ => false
         end) x y
  | PDict x, PDict y =>
      (fix go (x y : list (pv * pv)) : bool :=
         match x, y with
         | [], [] => true
         | (_, u) :: x', (_, v) :: y' => obs_agree sc u v && go x' y'
         | _, _ => false
         end) x y
  | PMsg oa, PMsg ob =>
      list_eqb opt_nat_eqb (ocur oa) (ocur ob) &&
      (let 'Obj _ ra _ _ _ := oa in
       (fix go (i : nat) (ra rb : list pv) {struct ra} : bool :=
          match ra, rb with
          | u :: ra', v :: rb' =>
              Bool.eqb (res_ok (read sc oa i)) (res_ok (read sc ob i)) &&
              Bool.eqb (res_none (read sc oa i)) (res_none (read sc ob i)) &&
              Bool.eqb (res_flag (read sc oa i)) (res_flag (read sc ob i)) &&
              (match u, v with
               | PPlaceholder, _ | _, PPlaceholder => true
               | _, _ => obs_agree sc u v
               end) && go (Datatypes.S i) ra' rb'
          | [], [] => true
          | _, _ => false
          end) O ra (oraw ob))
  | _, _ => true
  end.

(* the same observers on the attributes of the two objects themselves (no recursion: [norm_obj] is compositional,
   so the nested messages are covered by the same statement about them) *)
Definition obs_top (sc : schema) (a b : obj) : bool :=
  list_eqb opt_nat_eqb (ocur a) (ocur b) &&
  (fix go (i : nat) (ra : list pv) {struct ra} : bool :=
     match ra with
     | [] => true
     | _ :: ra' =>
         Bool.eqb (res_ok (read sc a i)) (res_ok (read sc b i)) &&
         Bool.eqb (res_none (read sc a i)) (res_none (read sc b i)) &&
         Bool.eqb (res_flag (read sc a i)) (res_flag (read sc b i)) && go (Datatypes.S i) ra'
     end) O (oraw a).

(* the property, as a boolean on one value *)
Definition c01_holds (sc : schema) (o : obj) : bool :=
  match enc_obj sc o with
  | Ok bs =>
      match parse sc (ocls o) bs with
      | Ok o' =>
          obj_eq sc o o' && obs_agree sc (PMsg o) (PMsg o') && obs_top sc o o' &&
          match enc_obj sc o' with Ok bs' => bytes_eqb bs bs' | Err _ => false end
      | Err _ => false
      end
  | Err _ => false
  end.
