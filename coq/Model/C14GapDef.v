(* C14 gap closing: sequences in which pickle round trips are INTERLEAVED with observers, copy and deepcopy (the quantifier's
   "in any order"; Model/C14Seq.v [cop] has no pickle because pickle can raise).  Definitions only; nothing of the code is
   modelled anew: [pickle_rt] is Model/History.v, [apply_cop] Model/C14Seq.v. *)
From BP Require Import Base.Prelude Model.Types Model.Object Model.History Model.C14Ops Model.C14Seq.

Inductive cop2 :=
| C2 (c : cop)
| C2Pickle.                     (* continue with pickle.loads(pickle.dumps(m)) *)

Fixpoint run_cops2 (sc : schema) (o : obj) (l : list cop2) {struct l} : result obj :=
  match l with
  | [] => Ok o
  | C2 c :: r => run_cops2 sc (apply_cop sc o c) r
  | C2Pickle :: r => do o' <- pickle_rt sc o; run_cops2 sc o' r
  end.

(* the shape condition of the copy theorems at every point where a copy / deepcopy is taken (as [cops_shaped]) *)
Fixpoint cops2_shaped (sc : schema) (o : obj) (l : list cop2) {struct l} : bool :=
  match l with
  | [] => true
  | C2 c :: r =>
      (match c with CObserve _ => true | CCopy => shaped_top sc o | CDeepcopy => shaped_obj sc o end) &&
      cops2_shaped sc (apply_cop sc o c) r
  | C2Pickle :: r =>
      match pickle_rt sc o with Ok o' => cops2_shaped sc o' r | Err _ => true end
  end.
