(* Base definitions shared by every model file: results, bytes <-> Z, and the
   canonical value type [cv] in which model outputs and implementation outputs
   are compared by the correspondence check (harness writes cases.v files that
   evaluate [mismatches] with vm_compute). No proofs about the code live here. *)
From Coq Require Export ZArith NArith List Bool Lia.
From Coq.Strings Require Export Byte.
Export ListNotations.
Open Scope Z_scope.

(* Python exception classes the properties distinguish. *)
Inductive errkind :=
| EEof        (* EOFError *)
| ETooLong    (* ValueError("Too many bytes when decoding varint") *)
| EValue      (* ValueError *)
| EUnicode    (* UnicodeDecodeError / UnicodeEncodeError *)
| EStruct     (* struct.error *)
| EAttribute  (* AttributeError *)
| EType       (* TypeError *)
| EKey        (* KeyError *)
| EOverflow   (* OverflowError *)
| EFuel       (* model ran out of fuel: excluded by lemma, never a Python outcome *)
| EOther.

Inductive result (A : Type) : Type :=
| Ok (a : A)
| Err (k : errkind).
Arguments Ok {A} a.
Arguments Err {A} k.

Definition bind {A B} (r : result A) (f : A -> result B) : result B :=
  match r with Ok a => f a | Err k => Err k end.
Notation "'do' x <- r ; k" := (bind r (fun x => k))
  (at level 200, x pattern, r at level 100, k at level 200, right associativity).

(* Equality of what a caller can OBSERVE: the exception class.  ETooLong and EValue are both Python's ValueError
   (they differ in the message text only, which is not part of any property and which a harmless rewrite may change),
   so the correspondence identifies them; EEof (EOFError) stays apart from both. *)
Definition errkind_eqb (a b : errkind) : bool :=
  match a, b with
  | ETooLong, EValue | EValue, ETooLong => true
  | EEof, EEof | ETooLong, ETooLong | EValue, EValue | EUnicode, EUnicode
  | EStruct, EStruct | EAttribute, EAttribute | EType, EType | EKey, EKey
  | EOverflow, EOverflow | EFuel, EFuel | EOther, EOther => true
  | _, _ => false
  end.

(* ---- bytes ---- *)
Definition Z_of_byte (b : byte) : Z := Z.of_N (Byte.to_N b).

(* int.to_bytes(1, "little") on a value known to be in 0..255; the [None] arm is
   unreachable for in-range arguments (lemma [byte_of_Z_of_byte] and
   [Z_of_byte_of_Z] in Proofs/BytesP.v), and OverflowError otherwise in Python;
   callers that can reach it must check the range first. *)
Definition byte_of_Z (z : Z) : byte :=
  match Byte.of_N (Z.to_N z) with Some b => b | None => x00 end.

Definition bytes_eqb (a b : list byte) : bool :=
  (fix go (a b : list byte) : bool :=
     match a, b with
     | [], [] => true
     | x :: a', y :: b' => Byte.eqb x y && go a' b'
     | _, _ => false
     end) a b.

(* little-endian unsigned value of a byte string *)
Fixpoint le_value (bs : list byte) : Z :=
  match bs with
  | [] => 0
  | b :: r => Z_of_byte b + 256 * le_value r
  end.

(* n little-endian bytes of z (z taken modulo 256^n) *)
Fixpoint le_bytes (n : nat) (z : Z) : list byte :=
  match n with
  | O => []
  | S n' => byte_of_Z (z mod 256) :: le_bytes n' (z / 256)
  end.

Definition Zlength {A} (l : list A) : Z := Z.of_nat (length l).

(* ---- canonical values for the correspondence check ---- *)
Inductive cv :=
| CZ (z : Z)
| CB (bs : list byte)
| CL (l : list cv)
| CE (k : errkind)
| CN.                      (* None / absent *)

Fixpoint cv_eqb (a b : cv) : bool :=
  match a, b with
  | CZ x, CZ y => Z.eqb x y
  | CB x, CB y => bytes_eqb x y
  | CL x, CL y =>
      (fix go (x y : list cv) : bool :=
         match x, y with
         | [], [] => true
         | u :: x', v :: y' => cv_eqb u v && go x' y'
         | _, _ => false
         end) x y
  | CE x, CE y => errkind_eqb x y
  | CN, CN => true
  | _, _ => false
  end.

Definition cbool (b : bool) : cv := CZ (if b then 1 else 0).
Definition cres {A} (f : A -> cv) (r : result A) : cv :=
  match r with Ok a => f a | Err k => CE k end.
(* ok/error only: the correspondence compares just the fact of failure *)
Definition cres_any {A} (f : A -> cv) (r : result A) : cv :=
  match r with Ok a => f a | Err _ => CE EOther end.
Definition copt {A} (f : A -> cv) (o : option A) : cv :=
  match o with Some a => f a | None => CN end.

(* indices (0-based) of the cases where model output <> implementation output *)
Definition mismatches (l : list (cv * cv)) : list Z :=
  (fix go (i : Z) (l : list (cv * cv)) : list Z :=
     match l with
     | [] => []
     | (a, b) :: r => if cv_eqb a b then go (i + 1) r else i :: go (i + 1) r
     end) 0 l.
