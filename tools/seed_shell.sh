#!/bin/bash
# seed_shell.sh <seed-id> : make /tmp/vrepo-<id> (copy of /repo with the seed's patch applied) and print its path. Remove it yourself.
set -e
ID="$1"; VR=/tmp/vrepo-$ID
rm -rf "$VR"; cp -r /repo "$VR"; rm -rf "$VR/.git"
( cd "$VR" && git init -q . >/dev/null 2>&1; git apply --whitespace=nowarn /verif/seeded/$ID/patch.diff )
echo "$VR"
