#!/usr/bin/env python3
"""mkseed.py Cxx [tag] [n]: create a scratch worktree /tmp/seed/<cxx><tag> of /repo and put the adversary prompt there (PROMPT.md)."""
import json, os, subprocess, sys
pid = sys.argv[1]; tag = sys.argv[2] if len(sys.argv) > 2 else ""; n = sys.argv[3] if len(sys.argv) > 3 else "3"
wt = f"/tmp/seed/{pid.lower()}{tag}"
if not os.path.exists(wt):
    subprocess.check_call(["git", "-C", "/repo", "worktree", "add", "-q", wt, "HEAD"])
props = {json.loads(l)["id"]: json.loads(l) for l in open("/verif/properties.jsonl")}
p = props[pid]
text = f"{p['id']} — {p['title']}\n\n{p['statement']}\n\nQuantification: {p['quantifier']['text']}"
t = open("/verif/tools/prompts/seed.md").read()
t = t.replace("{WT}", wt).replace("{PROPERTY}", text).replace("{N}", n).replace("{PID}", pid)
open(os.path.join(wt, "PROMPT.md"), "w").write(t)
print(wt)
