#!/bin/bash
# selftest_seeds.sh [jobs] : every stored seeded change against the check that RESULTS.md names first in "caught by".
# Prints one line per seed: CAUGHT / MISSED. (isolated copies; /repo and /verif are not touched)
cd /verif
J="${1:-4}"
/venv/bin/python - <<'PY' > /tmp/selftest_list.txt
import re
seen = {}
for line in open("/verif/seeded/RESULTS.md"):
    c = [x.strip() for x in line.strip().strip("|").split("|")]
    if len(c) >= 5 and re.match(r"^C\d\d-\d+", c[0]):
        sid = c[0].split(" ")[0]
        m = re.findall(r"C\d\d", c[3])
        if m:
            seen[sid] = m[0]          # later rows (re-runs) override earlier ones
import os
for sid, chk in sorted(seen.items()):
    if os.path.exists(f"/verif/seeded/{sid}/patch.diff"):
        import json
        if "obsolete_since" in json.load(open(f"/verif/seeded/{sid}/meta.json")):
            continue
        print(sid, chk)
PY
cat /tmp/selftest_list.txt | xargs -P "$J" -L 1 bash -c 'S=$0; C=$1; O=$(bash tools/try_seed.sh seeded/$S/patch.diff $C 2>&1 | grep "violations="); V=$(echo "$O" | sed "s/.*violations=\([0-9]*\).*/\1/"); if [ "$V" != "0" ] && [ -n "$V" ]; then echo "$S $C CAUGHT ($V)"; else echo "$S $C MISSED  $O"; fi'
