#!/bin/bash
# confirm_seed.sh <out-dir-of-one-change> <seed-id>   e.g. confirm_seed.sh /tmp/seed/c09/out/1 C09-1
# Confirms in a fresh scratch worktree of /repo that the change (a) applies, (b) keeps the 193 baseline tests passing,
# (c) makes the demonstration fail, and that the demonstration passes without it. On success stores it as /verif/seeded/<seed-id>/.
set -u
SRC="$1"; ID="$2"; WT=/tmp/confirm-$$
git -C /repo worktree add -q "$WT" HEAD || exit 2
cleanup() { git -C /repo worktree remove --force "$WT" >/dev/null 2>&1; }
trap cleanup EXIT
cd "$WT"
D0=$(PYTHONPATH="$WT/src" timeout 300 /venv/bin/python "$SRC/demo.py" >/dev/null 2>&1; echo $?)
git apply --whitespace=nowarn "$SRC/patch.diff" || { echo "$ID: patch does not apply"; exit 2; }
T=$(PYTHONPATH="$WT/src" timeout 900 /venv/bin/python -m pytest -q -p no:cacheprovider --timeout=900 --continue-on-collection-errors 2>&1 | tail -1)
D1=$(PYTHONPATH="$WT/src" timeout 300 /venv/bin/python "$SRC/demo.py" >/dev/null 2>&1; echo $?)
echo "$ID: tests='$T' demo_without=$D0 demo_with=$D1"
case "$T" in *"193 passed"*) ;; *) echo "$ID: REJECTED (baseline tests changed)"; exit 1;; esac
[ "$D0" = "0" ] && [ "$D1" != "0" ] || { echo "$ID: REJECTED (demo does not discriminate)"; exit 1; }
mkdir -p /verif/seeded/$ID
cp "$SRC/patch.diff" "$SRC/demo.py" /verif/seeded/$ID/
/venv/bin/python - "$SRC/meta.json" "/verif/seeded/$ID/meta.json" "$T" "$D0" "$D1" <<'PY'
import json, sys
m = json.load(open(sys.argv[1]))
m["confirmed_by_lead"] = {"tests_with_change": sys.argv[3], "demo_exit_without_change": int(sys.argv[4]), "demo_exit_with_change": int(sys.argv[5]),
                          "how": "tools/confirm_seed.sh: fresh git worktree of /repo HEAD, git apply, pytest baseline command, demo run with and without the change"}
json.dump(m, open(sys.argv[2], "w"), indent=1)
PY
echo "$ID: stored"
