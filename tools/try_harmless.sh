#!/bin/bash
# try_harmless.sh <Hid> : every registered check against a scratch copy of /repo with a behaviour-preserving patch applied.
# Any VIOLATION line is a FALSE ALARM. One isolated copy of /verif per patch (built once), checks run one after another.
set -u
ID="$1"; PATCH=/verif/seeded/harmless/$ID/patch.diff
VC=/tmp/hcopy-$ID; VR=/tmp/hrepo-$ID
rm -rf "$VC" "$VR"; rsync -a --exclude .git --exclude work /verif/ "$VC"/; cp -r /repo "$VR"; rm -rf "$VR/.git"
( cd "$VR" && git init -q . >/dev/null 2>&1; git apply --whitespace=nowarn "$PATCH" ) || { echo "$ID PATCH-DOES-NOT-APPLY"; exit 2; }
for P in ${CHECKS:-C01 C02 C03 C04 C05 C06 C07 C08 C09 C10 C11 C12 C13 C14 C15 C16 C17 C18 C19 C20}; do
  OUT=$(cd "$VC" && VERIF_REPO="$VR" VERIF_SEED="${VERIF_SEED:-1}" timeout 2400 ./check "$P" 2>&1 | grep -v 'WARNING conda')
  V=$(echo "$OUT" | grep -c '^VIOLATION')
  echo "$ID $P violations=$V $(echo "$OUT" | grep '^VIOLATION' | head -1)"
  if [ "$V" != "0" ]; then
    R=$(echo "$OUT" | grep '^VIOLATION' | head -1 | sed 's/.*replay=\([^ ]*\).*/\1/')
    [ -f "$R" ] && /venv/bin/python -c "
import json
d=json.load(open('$R'))
print('   replay:', d.get('kind'), '|', str(d.get('what'))[:400], '|', str(d.get('input'))[:300], '|', str(d.get('traceback',''))[-400:])"
  fi
done
rm -rf "$VC" "$VR"
