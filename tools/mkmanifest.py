#!/venv/bin/python
"""Regenerates MANIFEST.json from the table below (keeps it valid and the not_applicable list current)."""
import json, os
HERE = os.path.dirname(os.path.dirname(os.path.abspath(__file__)))
ALL = [f"C{i:02d}" for i in range(1, 21)]
TECH = "Coq proof (Gallina mirror model) + executable model/implementation correspondence"
CHECKS = json.load(open(os.path.join(HERE, "tools", "checks.json")))
m = {
    "version": 1,
    "setup_cmd": "./setup.sh",
    "hooks": {
        "guard": "BETTERPROTO_VERIF",
        "enable": "no source hooks are used: the checks observe betterproto from outside (import of /repo/src, stepping event loop); the variable is reserved",
        "baseline_off_cmd": "cd /repo && /venv/bin/python -m pytest -ra -q -p no:cacheprovider --timeout=900 --continue-on-collection-errors",
        "source_commits": CHECKS.get("_fix_commits", []),
        "add_only": True,
    },
    "engines": [{
        "name": "coq-proof+correspondence", "path": "check",
        "serves_properties": [p for p in ALL if p in CHECKS],
        "kind_free_text": "Coq 8.16.1 theorems over a hand-written Gallina mirror of the code (coq/), tables regenerated from the live module (harness/gen_tables.py), executable correspondence model<->implementation by vm_compute on generated cases (harness/)",
    }],
    "checks": [],
    "not_applicable": [],
    "notes": CHECKS.get("_notes", ""),
}
for p in ALL:
    c = CHECKS.get(p)
    if not c:
        m["not_applicable"].append({"property_id": p, "reason": "not claimed yet: the Coq model and check for this property are not built at this commit (work in progress, see DESIGN.md §9); the technique applies"})
        continue
    m["checks"].append({
        "property_id": p,
        "quick_cmd": f"./check {p}",
        "thorough_cmd": f"VERIF_TIER=thorough ./check {p}",
        "evidence_file": f"/verif/evidence/{p}.json",
        "replay_cmd_template": f"./check {p} --replay {{path}}",
        "engine": "coq-proof+correspondence",
        "level_claimed": {"category": c.get("category", "proof"), "text": c["text"], "design_ref": c.get("design_ref", f"DESIGN.md §4 {p}")},
        "level_note": c["note"],
        "technique": c.get("technique", TECH),
    })
json.dump(m, open(os.path.join(HERE, "MANIFEST.json"), "w"), indent=1)
print("MANIFEST.json:", len(m["checks"]), "checks;", len(m["not_applicable"]), "not claimed")
