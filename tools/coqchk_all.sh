#!/bin/bash
# Re-checks the compiled Properties files (and everything they depend on) with Coq's independent checker and records
# the axioms the whole context relies on (the full CONTEXT SUMMARY). Output: /verif/evidence/coqchk.txt
cd /verif/coq
MODS=$(/venv/bin/python - <<'PY'
import json
m = json.load(open("/verif/MANIFEST.json"))
import glob, os
mods = [f"BP.Properties.{c['property_id']}" for c in m["checks"]]
# satellites built by a stage of a check (C16Src, C16SrcZigzag), when compiled
mods += ["BP.Properties." + os.path.basename(f)[:-3] for f in sorted(glob.glob("/verif/coq/Properties/C*Src*.vo"))]
print(" ".join(mods))
PY
)
( echo "# coqchk -o over: $MODS"; echo "# $(coqchk --version 2>&1 | head -1)"; date -u;
  timeout 14400 coqchk -o -silent -Q . BP $MODS 2>&1 | sed -n '/CONTEXT SUMMARY/,$p' ) > /verif/evidence/coqchk.txt
tail -5 /verif/evidence/coqchk.txt
