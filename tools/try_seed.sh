#!/bin/bash
# try_seed.sh <patch.diff> Cxx [Cyy ...]   — run checks against a scratch copy of /repo with the patch applied, from an
# isolated copy of /verif (so that concurrent work in /verif and /repo is not disturbed). Prints one line per check.
set -u
PATCH="$(readlink -f "$1")"; shift
TAG="$$"
VC=/tmp/vcopy-$TAG; VR=/tmp/vrepo-$TAG
rsync -a --exclude .git --exclude work /verif/ "$VC"/
rm -rf "$VR"; cp -r /repo "$VR"; rm -rf "$VR/.git"
( cd "$VR" && git init -q . >/dev/null 2>&1; git apply --whitespace=nowarn "$PATCH" ) || { echo "PATCH-DOES-NOT-APPLY $PATCH"; rm -rf "$VC" "$VR"; exit 2; }
for P in "$@"; do
  OUT=$(cd "$VC" && VERIF_REPO="$VR" VERIF_SEED="${VERIF_SEED:-1}" timeout 1500 ./check "$P" 2>&1 | grep -v 'WARNING conda')
  RC=$?
  V=$(echo "$OUT" | grep -c '^VIOLATION')
  echo "$P: violations=$V $(echo "$OUT" | grep '^VIOLATION' | head -2 | tr '\n' ' ')"
  if [ "$V" != "0" ]; then
    R=$(echo "$OUT" | grep '^VIOLATION' | head -1 | sed 's/.*replay=\([^ ]*\).*/\1/')
    [ -f "$R" ] && /venv/bin/python -c "
import json,sys
d=json.load(open('$R'))
print('   replay:', d.get('kind'), '|', str(d.get('what'))[:300], '|', str(d.get('input'))[:300])"
  fi
done
rm -rf "$VC" "$VR"
