#!/bin/bash
# Build the Coq development from files on disk (offline). Full .vo build (never -vos).
#   ./setup.sh                 builds what the registered checks need (MANIFEST.json)
#   ./setup.sh Properties/C16.vo ...   builds the given targets
# Everything (table regeneration, _CoqProject, make) runs under one lock.
set -e
cd "$(dirname "$0")"
if [ -z "${VERIF_SETUP_LOCKED:-}" ]; then
  export VERIF_SETUP_LOCKED=1
  exec flock coq/.build.lock "$0" "$@"
fi
export PYTHONHASHSEED=0 PYTHONDONTWRITEBYTECODE=1
# T1: every harness/gen_*.py regenerates its own coq/gen/*.v from ${VERIF_REPO:-/repo} (rewritten only on change)
for g in harness/gen_*.py; do
  PYTHONPATH="${VERIF_REPO:-/repo}/src:$(pwd)" /venv/bin/python "$g" 2>&1 | grep -v 'WARNING conda' || true
done
cd coq
( echo "-Q . BP"; find Base gen Model Spec Proofs Properties -name '*.v' | LC_ALL=C sort ) > _CoqProject.new.$$
if ! cmp -s _CoqProject.new.$$ _CoqProject 2>/dev/null; then mv _CoqProject.new.$$ _CoqProject; coq_makefile -f _CoqProject -o Makefile >/dev/null; else rm -f _CoqProject.new.$$; fi
[ -f Makefile ] || coq_makefile -f _CoqProject -o Makefile >/dev/null
if [ $# -eq 0 ]; then
  # no targets: build what the registered checks need (other files may be work in progress)
  set -- $(/venv/bin/python - <<'PY'
import json
m = json.load(open("../MANIFEST.json"))
print(" ".join(f"Properties/{c['property_id']}.vo" for c in m["checks"]), "Model/Canon.vo Model/Len.vo Model/Decode.vo")
PY
)
fi
exec timeout 3000 make -j"${VERIF_JOBS:-16}" "$@"
