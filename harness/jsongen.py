"""Helpers of the dict / JSON checks (C04, C05, ...): printers of real Python JSON-ish values as
Gallina literals for coq/Model/Json.v (`json` literals and canonical `cv` forms), the text path, and
feature walks over the raw state of real Message objects (which class of the C04 side conditions a value falls in)."""
import json
import math
import struct
from datetime import datetime, timedelta

import betterproto as bp

from .lib import cb, cbool, cl, coq_bytes, cz, CN
from . import msggen

CANON_NAN = 0x7FF8000000000000


def f64_bits(x):
    return struct.unpack("<Q", struct.pack("<d", x))[0]


class NotJson(Exception):
    pass


# --------------------------------------------------------------------------------------
# Gallina `json` literal of a Python value as to_dict produces / from_dict accepts it
# --------------------------------------------------------------------------------------
def json_literal(x):
    if x is None:
        return "JNull"
    if isinstance(x, bool):
        return f"(JBool {'true' if x else 'false'})"
    if isinstance(x, int):
        return f"(JInt ({int(x)}))"
    if isinstance(x, float):
        return f"(JFloat ({f64_bits(x)}))"
    if isinstance(x, str):
        try:
            return f"(JStr {coq_bytes(x.encode('utf-8'))})"
        except UnicodeEncodeError:
            raise msggen.Unmodellable("lone surrogate")
    if isinstance(x, (list, tuple)):
        return "(JList [" + "; ".join(json_literal(i) for i in x) + "])"
    if isinstance(x, dict):
        return "(JObj [" + "; ".join(f"({json_literal(k)}, {json_literal(v)})" for k, v in x.items()) + "])"
    if isinstance(x, (bytes, bytearray)):
        return f"(JPy (PBytes {coq_bytes(bytes(x))}))"
    if isinstance(x, datetime):
        return f"(JPy (PDatetime ({msggen.us_of_datetime(x)})))"
    if isinstance(x, timedelta):
        return f"(JPy (PTimedelta ({msggen.us_of_timedelta(x)})))"
    raise msggen.Unmodellable(f"json value of type {type(x)}")


# --------------------------------------------------------------------------------------
# canonical cv of the same values (Model/Json.v cv_of_json)
# --------------------------------------------------------------------------------------
def json_cv(x):
    if x is None:
        return CN
    if isinstance(x, bool):
        return cl([cz(1), cbool(x)])
    if isinstance(x, int):
        return cz(int(x))
    if isinstance(x, float):
        return cl([cz(2), cz(CANON_NAN if math.isnan(x) else f64_bits(x))])
    if isinstance(x, str):
        try:
            return cl([cz(3), cb(x.encode("utf-8"))])
        except UnicodeEncodeError:
            raise msggen.Unmodellable("lone surrogate")
    if isinstance(x, (list, tuple)):
        return cl([cz(6), cl([json_cv(i) for i in x])])
    if isinstance(x, dict):
        return cl([cz(7), cl([cl([json_cv(k), json_cv(v)]) for k, v in x.items()])])
    if isinstance(x, (bytes, bytearray)):
        return cl([cz(9), cb(bytes(x))])
    if isinstance(x, datetime):
        return cl([cz(9), cl([cz(4), cz(msggen.us_of_datetime(x))])])
    if isinstance(x, timedelta):
        return cl([cz(9), cl([cz(5), cz(msggen.us_of_timedelta(x))])])
    raise msggen.Unmodellable(f"json value of type {type(x)}")


def canon(x):
    """hashable canonical form of a JSON-ish value (dict order kept; NaN canonical)"""
    if isinstance(x, float):
        return ("f", CANON_NAN if math.isnan(x) else f64_bits(x))
    if isinstance(x, (list, tuple)):
        return ("l",) + tuple(canon(i) for i in x)
    if isinstance(x, dict):
        return ("d",) + tuple((canon(k), canon(v)) for k, v in x.items())
    if isinstance(x, (bytes, bytearray)):
        return ("b", bytes(x))
    if isinstance(x, bool):
        return ("B", x)
    if isinstance(x, int):
        return ("i", int(x))
    return (type(x).__name__, x)


def text_rt(d):
    return json.loads(json.dumps(d))


# --------------------------------------------------------------------------------------
# feature walk: the classes of values the C04 theorems exclude (Proofs/C04Def.v json_supported)
# --------------------------------------------------------------------------------------
def raw(m, name):
    return object.__getattribute__(m, name)


def features(schema, m, top=True):
    """set of labels: unknown-fields | lazy-intermediate | nan-in-container | oneof-unclean | ill-typed"""
    out = set()
    cls = type(m)
    c = schema.classes[schema.index_of[cls] - msggen.NBUILTIN]
    if raw(m, "_unknown_fields"):
        out.add("unknown-fields")
    cur = raw(m, "_group_current")
    for f in c.fields:
        v = raw(m, f.name)
        if f.group is not None:
            selected = cur.get(f"g{f.group}") == f.name
            if (v is not bp.PLACEHOLDER) != selected:
                out.add("oneof-unclean")
        if v is bp.PLACEHOLDER or v is None:
            continue
        if f.card == "repeated":
            items = list(v)
        elif f.card == "map":
            items = list(v.values())
        else:
            items = [v]
        for x in items:
            if isinstance(x, float) and math.isnan(x) and f.card in ("repeated", "map"):
                out.add("nan-in-container")
            if isinstance(x, bp.Message):
                out |= features(schema, x, top=False)
                if (f.card == "plain" and f.group is None and not raw(x, "_serialized_on_wire") and bool(x)):
                    out.add("lazy-intermediate")
    return out


# --------------------------------------------------------------------------------------
# WellFormed.in_range evaluated on the real object (exact: the correspondence compares it with Coq's verdict)
# --------------------------------------------------------------------------------------
def _f32_ok(x):
    if math.isnan(x):
        return True
    try:
        return struct.unpack("<f", struct.pack("<f", x))[0] == x
    except OverflowError:
        return False


def _scalar_in_range(pt, v):
    if pt in msggen.INT_RANGE:
        lo, hi = msggen.INT_RANGE[pt]
        return isinstance(v, int) and not isinstance(v, bool) and lo <= v < hi
    if pt == "bool":
        return isinstance(v, bool)
    if pt == "double":
        return isinstance(v, float)
    if pt == "float":
        return isinstance(v, float) and _f32_ok(v)
    if pt == "string":
        if not isinstance(v, str):
            return False
        try:
            v.encode("utf-8")
            return True
        except UnicodeEncodeError:
            return False
    if pt == "bytes":
        return isinstance(v, (bytes, bytearray))
    return False


def _elem_in_range(schema, e, v):
    if e.kind == "datetime":
        return isinstance(v, datetime) and v.tzinfo is not None and -62135596800000000 <= msggen.us_of_datetime(v) <= 253402300799999999
    if e.kind == "timedelta":
        return isinstance(v, timedelta) and abs(msggen.us_of_timedelta(v)) <= 315576000000 * 10 ** 6
    if e.kind == "msg":
        return isinstance(v, bp.Message) and type(v) is schema.classes[e.ref].py and in_range(schema, v)
    if e.kind == "enum":
        return isinstance(v, int) and not isinstance(v, bool) and -(1 << 31) <= v < (1 << 31)
    return _scalar_in_range(e.pt, v)


def in_range(schema, m):
    c = schema.classes[schema.index_of[type(m)] - msggen.NBUILTIN]
    for f in c.fields:
        v = raw(m, f.name)
        if v is bp.PLACEHOLDER:
            continue
        if v is None:
            if f.card in ("optional", "wrapper"):
                continue
            return False
        if f.card == "repeated":
            if not isinstance(v, list) or not all(_elem_in_range(schema, f.elem, x) for x in v):
                return False
        elif f.card == "map":
            if not isinstance(v, dict) or not all(_scalar_in_range(f.key.pt, k) and _elem_in_range(schema, f.elem, x) for k, x in v.items()):
                return False
        elif not _elem_in_range(schema, f.elem, v):
            return False
    return True
