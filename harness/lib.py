"""Shared machinery of the checks: build + audit of the Coq development,
evaluation of model expressions inside Coq (cases.v + vm_compute), Gallina
literal printers, evidence / replay writers, known-finding classification."""
import json
import os
import random
import re
import shutil
import subprocess
import sys
import tempfile
import time
from concurrent.futures import ThreadPoolExecutor

VERIF = os.path.dirname(os.path.dirname(os.path.abspath(__file__)))
COQ = os.path.join(VERIF, "coq")
REPO = os.environ.get("VERIF_REPO", "/repo")
JOBS = int(os.environ.get("VERIF_JOBS", "16"))
PY = "/venv/bin/python"

FORBIDDEN = re.compile(
    r"\b(Admitted|admit|Axiom|Axioms|Parameter|Parameters|Conjecture|Conjectures|bypass_check|"
    r"Admit\s+Obligations)\b|Unset\s+Guard|Unset\s+Positivity|Unset\s+Universe|type-in-type|impredicative-set"
)


def strip_comments(text: str) -> str:
    out, depth, i = [], 0, 0
    while i < len(text):
        if text.startswith("(*", i):
            depth += 1
            i += 2
        elif text.startswith("*)", i) and depth:
            depth -= 1
            i += 2
        else:
            if not depth:
                out.append(text[i])
            i += 1
    return "".join(out)


# --------------------------------------------------------------------------------------
# Gallina literal printers (canonical values, Base/Prelude.v `cv`)
# --------------------------------------------------------------------------------------
def coq_bytes(b: bytes) -> str:
    return "[" + "; ".join("x%02x" % c for c in b) + "]"


def coq_z(n: int) -> str:
    return f"({n})%Z"


def coq_nat(n: int) -> str:
    return f"{n}%nat"


def coq_bool(b: bool) -> str:
    return "true" if b else "false"


def coq_list(items) -> str:
    return "[" + "; ".join(items) + "]"


def coq_opt(x, f=lambda s: s) -> str:
    return "None" if x is None else f"(Some {f(x)})"


def cz(n) -> str:
    return f"(CZ ({int(n)}))"


def cb(b: bytes) -> str:
    return f"(CB {coq_bytes(bytes(b))})"


def cl(items) -> str:
    return "(CL [" + "; ".join(items) + "])"


def ce(kind: str) -> str:
    return f"(CE {kind})"


CN = "CN"


def cbool(b) -> str:
    return cz(1 if b else 0)


EXC_KIND = [
    (EOFError, "EEof"),
    (UnicodeError, "EUnicode"),
    (OverflowError, "EOverflow"),
    (AttributeError, "EAttribute"),
    (TypeError, "EType"),
    (KeyError, "EKey"),
]


def exc_kind(e: BaseException) -> str:
    import struct

    if isinstance(e, struct.error):
        return "EStruct"
    for cls, k in EXC_KIND:
        if isinstance(e, cls):
            return k
    if isinstance(e, ValueError):
        return "EValue"     # never classified by message text; the model's ETooLong compares equal to EValue (Prelude.errkind_eqb)
    return "EOther"


# --------------------------------------------------------------------------------------
class Ctx:
    def __init__(self, pid, tier, seed):
        self.pid = pid
        self.tier = tier
        self.seed = seed
        self.rng = random.Random(seed)
        self.t0 = time.time()
        self.work = tempfile.mkdtemp(prefix=f"verif-{pid}-")
        self.failures = []  # dicts: kind ('corr'|'oracle'|'proof'), cls, what, input, expected, observed
        self.known_seen = {}
        self.notes = []
        self.cov = {
            "evaluations": 0,
            "distinct_nontrivial": 0,
            "samples": [],
            "traces_validated_against_impl": 0,
            "disagreements_checked": 0,
        }
        self.dist = {}
        self.proof = None
        self.build_ok = None
        self.build_log = ""
        self._distinct = set()

    @property
    def thorough(self):
        return self.tier == "thorough"

    def count(self, key, n=1):
        self.dist[key] = self.dist.get(key, 0) + n

    def seen_nontrivial(self, canon):
        """register a distinct non-trivial case (canonical hashable form)"""
        self._distinct.add(canon if isinstance(canon, (str, bytes, int, tuple)) else repr(canon))

    def sample(self, s, cap=12):
        if len(self.cov["samples"]) < cap:
            self.cov["samples"].append(s)

    def fail(self, kind, what, cls=None, **kw):
        d = {"kind": kind, "what": what, "cls": cls}
        d.update(kw)
        self.failures.append(d)

    def cleanup(self):
        shutil.rmtree(self.work, ignore_errors=True)


# --------------------------------------------------------------------------------------
# build + audit
# --------------------------------------------------------------------------------------
def run(cmd, timeout=3000, cwd=None, env=None):
    e = dict(os.environ)
    e.update({"PYTHONHASHSEED": "0", "PYTHONDONTWRITEBYTECODE": "1", "PYTHONPATH": os.path.join(REPO, "src")})
    if env:
        e.update(env)
    try:
        r = subprocess.run(cmd, cwd=cwd, env=e, capture_output=True, text=True, timeout=timeout)
        out = "\n".join(l for l in (r.stdout + r.stderr).splitlines() if "WARNING conda" not in l)
        return r.returncode, out
    except subprocess.TimeoutExpired as ex:
        return 124, f"timeout after {timeout}s: {cmd}\n{ex.stdout or ''}"


def build(ctx, targets):
    """regenerate tables (T1) and build the given .vo targets (full build, never -vos)."""
    rc, out = run([os.path.join(VERIF, "setup.sh")] + targets, timeout=3000, cwd=VERIF)
    ctx.build_ok = rc == 0
    ctx.build_log = out[-8000:]
    return ctx.build_ok


def audit(ctx, prop_file):
    """Compile Properties/Cxx.v on its own, collect one Print Assumptions verdict per theorem."""
    path = os.path.join(COQ, "Properties", prop_file)
    src = strip_comments(open(path).read())
    theorems = re.findall(r"^\s*Theorem\s+([A-Za-z0-9_']+)", src, re.M)
    printed = re.findall(r"^\s*Print Assumptions\s+([A-Za-z0-9_']+)\s*\.", src, re.M)
    problems = []
    if theorems != printed:
        problems.append(f"theorems and Print Assumptions differ: {sorted(set(theorems) ^ set(printed))}")
    # forbidden constructs anywhere in the development
    for root, _, files in os.walk(COQ):
        for fn in files:
            if fn.endswith(".v"):
                t = strip_comments(open(os.path.join(root, fn)).read())
                m = FORBIDDEN.search(t)
                if m:
                    problems.append(f"forbidden construct {m.group(0)!r} in {os.path.relpath(os.path.join(root, fn), COQ)}")
    rc, out = run(["coqc", "-Q", ".", "BP", os.path.join("Properties", prop_file)], timeout=1200, cwd=COQ)
    verdicts = []
    if rc != 0:
        problems.append("Properties file does not compile: " + out[-1500:])
    else:
        blocks = []
        for line in out.splitlines():
            if line.startswith("Closed under the global context"):
                blocks.append(line)
            elif line.startswith("Axioms:") or line.startswith("Section Variables:"):
                blocks.append(line)
            elif blocks and not blocks[-1].startswith("Closed under"):
                blocks[-1] += "\n" + line
        if len(blocks) != len(printed):
            problems.append(f"{len(printed)} Print Assumptions but {len(blocks)} verdicts")
        # Standard-library axioms a Properties file may rely on must be NAMED in it:  (* STDLIB-AXIOMS-ALLOWED: a.b.c d.e.f *)
        # (the real-number axioms Flocq's semantics of IEEE 754 rests on). A theorem whose Print Assumptions lists only such
        # names counts as discharged, and the names go into the evidence's trusted base; anything else is a problem.
        allowed = set()
        for mm in re.finditer(r"STDLIB-AXIOMS-ALLOWED:([^*]*)", open(path).read()):
            allowed |= set(mm.group(1).split())
        for name, blk in zip(printed, blocks):
            closed = blk.startswith("Closed under")
            used = []
            if not closed:
                # axiom lines look like `Module.name : type` (continuation lines of the type are indented)
                used = [l.split(":")[0].strip() for l in blk.split("\n")[1:] if l and not l[0].isspace() and ":" in l]
            ok = closed or (blk.startswith("Axioms:") and used and set(used) <= allowed)
            verdicts.append({"theorem": name, "closed": ok, "assumptions": [] if closed else blk.split("\n"),
                             "stdlib_axioms": sorted(set(used)) if (ok and not closed) else []})
            if not ok:
                problems.append(f"{name} depends on axioms: {blk[:300]}")
    ctx.proof = {
        "file": f"coq/Properties/{prop_file}",
        "obligations": len(printed),
        "discharged": sum(1 for v in verdicts if v["closed"]) if not [p for p in problems if "compile" in p] else 0,
        "theorems": printed,
        "verdicts": verdicts,
        "problems": problems,
    }
    return ctx.proof


# --------------------------------------------------------------------------------------
# evaluate model expressions in Coq and compare with expected canonical values
# --------------------------------------------------------------------------------------
def _run_chunk(args):
    path, imports, pairs, prelude = args
    with open(path, "w") as f:
        f.write(f"From BP Require Import Base.Prelude {imports}.\n")
        f.write(prelude + "\n")
        f.write("Definition cases : list (cv * cv) := [\n")
        f.write(";\n".join(f"({m}, {e})" for m, e in pairs))
        f.write("\n].\nDefinition bad := Eval vm_compute in mismatches cases.\nPrint bad.\n")
    rc, out = run(["coqc", "-Q", COQ, "BP", path], timeout=1800)
    if rc != 0:
        return None, out[-3000:]
    m = re.search(r"bad\s*=\s*(.*?)\s*:\s*list Z", out, re.S)
    if not m:
        return None, out[-3000:]
    return [int(x) for x in re.findall(r"-?\d+", m.group(1).replace("%Z", ""))], ""


_ensured = set()


def ensure_built(imports):
    """Every module a case file imports must have a .vo: build the missing ones (a fresh restore has none, and a module
    that no Properties file depends on - e.g. Model/Sweep - is not built by the Properties targets)."""
    missing = []
    for mod in imports.split():
        rel = mod.replace(".", "/") + ".vo"
        if rel in _ensured:
            continue
        _ensured.add(rel)
        if os.path.exists(os.path.join(COQ, rel[:-1])) and not os.path.exists(os.path.join(COQ, rel)):
            missing.append(rel)
    if missing:
        rc, out = run([os.path.join(VERIF, "setup.sh")] + missing, timeout=3000, cwd=VERIF)
        if rc != 0:
            raise RuntimeError("could not build " + " ".join(missing) + ": " + out[-2000:])


def coq_compare(ctx, name, imports, pairs, chunk=400, prelude=""):
    """pairs: list of (model_expr : cv, expected : cv literal); prelude: Gallina text (Definitions shared by the
    cases, e.g. schemas) placed before them in every chunk file. Returns sorted list of
    indices where the model disagrees with the implementation; raises RuntimeError if
    the case file does not compile (model not runnable)."""
    if not pairs:
        return []
    ensure_built(imports)
    jobs = []
    for ci, start in enumerate(range(0, len(pairs), chunk)):
        path = os.path.join(ctx.work, f"{name}_{ci}.v")
        jobs.append((path, imports, pairs[start:start + chunk], prelude))
    bad = []
    with ThreadPoolExecutor(max_workers=JOBS) as ex:
        for ci, (res, err) in enumerate(ex.map(_run_chunk, jobs)):
            if res is None:
                raise RuntimeError(f"model evaluation failed in {name} chunk {ci}: {err}")
            bad.extend(ci * chunk + i for i in res)
    ctx.cov["traces_validated_against_impl"] += len(pairs)
    return sorted(bad)


def coq_eval(ctx, imports, expr):
    """Evaluate one expression with vm_compute and return Coq's printed answer (for replays)."""
    ensure_built(imports)
    path = os.path.join(ctx.work, f"eval_{abs(hash(expr)) % 10**9}.v")
    with open(path, "w") as f:
        f.write(f"From BP Require Import Base.Prelude {imports}.\nEval vm_compute in ({expr}).\n")
    rc, out = run(["coqc", "-Q", COQ, "BP", path], timeout=600)
    return out.strip()[-4000:]


# --------------------------------------------------------------------------------------
# known findings, replays, evidence
# --------------------------------------------------------------------------------------
def load_known(pid):
    p = os.path.join(VERIF, "known_findings", f"{pid}.json")
    if not os.path.exists(p):
        return []
    return [k for k in json.load(open(p))["findings"] if k["property"] == pid]


def write_replay(ctx, obj):
    os.makedirs(os.path.join(VERIF, "replays"), exist_ok=True)
    n = len([f for f in os.listdir(os.path.join(VERIF, "replays")) if f.startswith(f"{ctx.pid}-{ctx.seed}-")])
    path = os.path.join(VERIF, "replays", f"{ctx.pid}-{ctx.seed}-{n}.json")
    obj = dict(obj)
    obj.setdefault("property", ctx.pid)
    obj.setdefault("how_to_replay", f"./check {ctx.pid} --replay {path}")
    with open(path, "w") as f:
        json.dump(obj, f, indent=1, default=repr)
    return path


def finish(ctx, level, technique_note, assumptions, trusted_base, rule, extra_cov=None):
    """classify failures, print KNOWN-FINDING / VIOLATION lines, write evidence, return exit code."""
    known = load_known(ctx.pid)
    open_cls = {k["cls"]: k for k in known if k["status"] == "open"}
    violations = []
    for f in ctx.failures:
        if f.get("cls") in open_cls and f["kind"] != "corr":
            ctx.known_seen.setdefault(f["cls"], f)
        else:
            violations.append(f)
    for cls, k in open_cls.items():
        if cls in ctx.known_seen:
            print(f"KNOWN-FINDING: property={ctx.pid} {k['id']} {k['what_fails']}")
        else:
            ctx.notes.append(f"open finding {k['id']} ({cls}) was not reproduced by this run")
    proof_broken = (ctx.build_ok is False) or (ctx.proof is not None and ctx.proof["problems"])
    nviol = 0
    # report at most a handful of distinct violations (first of each class/what)
    reported = set()
    order = {"oracle": 0, "corr": 1, "proof": 2, "crash": 3}
    violations.sort(key=lambda f: (1 if f.get("no_input") else 0, order.get(f["kind"], 9)))
    for f in violations:
        key = (f["kind"], f.get("cls"), f["what"])
        if key in reported:
            continue
        reported.add(key)
        if len(reported) > 5:
            break
        path = write_replay(ctx, f)
        suffix = " no-failing-input-found" if f.get("no_input") else ""
        print(f"VIOLATION property={ctx.pid} replay={path}{suffix}")
        nviol += 1
    if proof_broken and not [f for f in violations if not f.get("no_input")]:
        what = "; ".join(ctx.proof["problems"])[:1500] if ctx.proof and ctx.proof["problems"] else "coq build failed"
        path = write_replay(ctx, {
            "kind": "proof-break", "theorem_or_correspondence": what,
            "build_log_tail": ctx.build_log[-3000:],
            "note": "the proof obligations of this property no longer check against the current tree and the search found no input on which the property itself fails",
        })
        print(f"VIOLATION property={ctx.pid} replay={path} no-failing-input-found")
        nviol += 1
    cov = dict(ctx.cov)
    cov["distinct_nontrivial"] = len(ctx._distinct)
    cov["rule"] = rule
    cov["input_distribution"] = ctx.dist
    if ctx.proof:
        cov["obligations"] = max(ctx.proof["obligations"], 1)
        cov["discharged"] = ctx.proof["discharged"] if not proof_broken or ctx.proof["discharged"] < ctx.proof["obligations"] else 0
        cov["theorems"] = ctx.proof["theorems"]
        cov["print_assumptions"] = [
            {"theorem": v["theorem"], "closed": v["closed"], "assumptions": v["assumptions"]} for v in ctx.proof["verdicts"]
        ]
        cov["proof_problems"] = ctx.proof["problems"]
    cov["checker_cmd"] = f"./setup.sh Properties/{ctx.pid}.vo && (cd coq && coqc -Q . BP Properties/{ctx.pid}.v)  # Coq 8.16.1 kernel, full .vo build"
    stdlib_ax = sorted({a for v in (ctx.proof or {}).get("verdicts", []) for a in v.get("stdlib_axioms", [])})
    cov["trusted_base"] = list(trusted_base) + ([f"standard-library axioms named in Properties/{ctx.pid}.v and used by some theorems (Print Assumptions): "
                                                 + ", ".join(stdlib_ax)] if stdlib_ax else [])
    cov["known_findings_reproduced"] = sorted(ctx.known_seen)
    cov["notes"] = ctx.notes
    cov["exhaustive"] = False
    if extra_cov:
        cov.update(extra_cov)
    ev = {
        "property_id": ctx.pid,
        "tier": ctx.tier,
        "seed": ctx.seed,
        "level": level,
        "technique": technique_note,
        "coverage": cov,
        "assumptions": assumptions,
        "wall_s": round(time.time() - ctx.t0, 2),
        "violations": nviol,
    }
    os.makedirs(os.path.join(VERIF, "evidence"), exist_ok=True)
    with open(os.path.join(VERIF, "evidence", f"{ctx.pid}.json"), "w") as f:
        json.dump(ev, f, indent=1, default=repr)
    ctx.cleanup()
    return 1 if nviol else 0
