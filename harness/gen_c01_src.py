#!/venv/bin/python
"""C01 source-translation tie: translate the CURRENT source text of the decode-side value adjustment
    Message._postprocess_single
of ${VERIF_REPO:-/repo}/src/betterproto/__init__.py into Gallina (coq/gen/C01Src.v), mechanically, with Python's `ast`.

The output is proved extensionally equal to the hand-written model (Model/Decode.v postprocess_varint / unpack_value, the
UTF-8 decoder of Model/Utf8.v, Model/C01Def.v decode_value) in coq/Proofs/C01Src*.v; coq/Properties/C01Src.v states it and
restates the scalar layer of the round trip (C01_scalar_varint / C01_scalar_fixed) with BOTH sides translated source:
src__preprocess_single of gen/C09Src.v (harness/gen_c09_src.py) composed with src__postprocess_single of this file.

This script is an EXTENSION of harness/gen_c09_src.py (itself an extension of harness/gen_c16_src.py); both are imported as
libraries and not modified: statement / expression translation, typing discipline, error monad, fail-closed behaviour are the
ones documented at the top of those files.

    gen_c01_src.py             translate and (re)write coq/gen/C01Src.v (only when the content changed)
    gen_c01_src.py --dry-run   translate, print the verdict, write nothing
    gen_c01_src.py --print     translate and print the Gallina text, write nothing
    gen_c01_src.py --selftest  constructs outside the subset must be rejected with the expected message (writes nothing)

A rejection is NOT a verdict about the property: harness/props/c01.py records "source-translation tie did not hold" and the
sampled correspondence + oracles decide.  A rejected translation leaves NO definition in coq/gen/C01Src.v, only
`src_c01_postprocess_translated := false`; an unreadable / unparsable source leaves a file that does not compile.

ADDITIONS TO THE ACCEPTED SUBSET  (target vocabulary: coq/Model/C01SrcLib.v, on top of C16SrcLib.v / C09SrcLib.v)
-----------------------------------------------------------------------------------------------------------------
Module level (checked, never executed):
  * the root is a METHOD: `class Message` defined exactly once at module level, the method defined exactly once in its body by
    a plain undecorated `def`, no other class of the module defines a method of that name, no attribute of that name is stored
    anywhere in the module and the name does not occur as a string literal (setattr / __dict__ patching).
  * `WIRE_X = <int literal>` bound exactly once -> src01_WIRE_X : Z
  * `class FieldMetadata` defined once, decorated exactly `@dataclasses.dataclass(frozen=True)`, declaring `proto_type: str`
    and `wraps: Optional[str]`
Parameters of the method: the first one, unannotated, named `self` (-> py_self, ABSTRACT); `field_name: str` (-> py_field_name,
  ABSTRACT); `meta: FieldMetadata` (-> py_meta); `int`, `bytes`, `Any` as before.  The return annotation may be `Any`.
Statements:
  * a parameter annotated `Any` may be re-bound with any static type, any number of times (Gallina shadowing); where the two
    sides of a falling-through `if` leave it with DIFFERENT static types (int / bool / bytes / Any) each side is injected into
    pv (PInt / PBool / PBytes); `return <that variable>` from a function annotated `-> Any` injects likewise
  * DELEGATED arms: an `if/elif meta.proto_type == TYPE_MESSAGE:` / `== TYPE_MAP:` arm is not translated; its source must be
    IDENTICAL (ast.dump) to the text pinned below and it becomes `value = delegated_post_message msgarm self field_name meta value`
    / `delegated_post_map maparm ...`; msgarm / maparm are Section variables of the generated file.
Expressions:
  * `meta.proto_type` (-> ptype), `meta.wraps` (-> option ptype)
  * `x == WIRE_A`, `x in (WIRE_A, WIRE_B)` for an int x and module-level int constants
  * `int(<ptype>[<n>:])`, n a non-negative literal -> py_int_of_ptype_suffix n (ValueError unless the rest of the type NAME is
    a run of digits)
  * a dynamic (Any) variable as an operand of `& | ^ + - * << >>` or of one comparison with an int: coerced by py_int_arg
    (TypeError unless int / bool) AFTER both operands have been evaluated and before the operator's own check
  * `_pack_fmt(<ptype>)` -> py_pack_fmt (KeyError outside the table reflected into gen/Tables.v); the result can only be
    assigned to a variable and passed to struct.unpack
  * `struct.unpack(<fmt variable>, <Any>)[0]` as a whole -> py_struct_unpack0
  * `str(<Any>, "utf-8")` -> py_str_decode_utf8
  * `self._betterproto.cls_by_field[field_name].try_value(<int>)` as a whole -> py_enum_try_value
Everything else is REJECTED, naming the construct.
"""
import ast
import os
import sys

HERE = os.path.dirname(os.path.abspath(__file__))
sys.path.insert(0, HERE)
import gen_c09_src as g9  # noqa: E402  (library: never modified; it imports gen_c16_src as g9.g)
g = g9.g
from gen_c16_src import Reject, reject, mangle, wrap_binds, int_literal, zlit, tuple_term  # noqa: E402,F401

REPO = os.environ.get("VERIF_REPO", "/repo")
SRC_REL = g.SRC_REL
OUT = os.path.join(HERE, "..", "coq", "gen", "C01Src.v")

ROOT_CLASS, ROOT = "Message", "_postprocess_single"

# in-memory extension of the libraries' tables with NEW keys only (nothing existing is changed)
g.COQ_TYPE = dict(g.COQ_TYPE, self="py_self", fname="py_field_name", meta="py_meta", fmt="fmt")
g9.VALUE_TYPES = tuple(g9.VALUE_TYPES) + ("fmt",)

DELEG_MSG, DELEG_MAP = "__c01_delegated_message_arm__", "__c01_delegated_map_arm__"

# the delegated arms of _postprocess_single: test and body must be identical to these
PINNED_ARMS = {
    DELEG_MSG: '''
if meta.proto_type == TYPE_MESSAGE:
    cls = self._betterproto.cls_by_field[field_name]

    if cls == datetime:
        value = _Timestamp().parse(value).to_datetime()
    elif cls == timedelta:
        value = _Duration().parse(value).to_timedelta()
    elif meta.wraps:
        # This is a Google wrapper value message around a single
        # scalar type.
        value = _get_wrapper(meta.wraps)().parse(value).value
    else:
        value = cls().parse(value)
        value._serialized_on_wire = True
''',
    DELEG_MAP: '''
if meta.proto_type == TYPE_MAP:
    value = self._betterproto.cls_by_field[field_name]().parse(value)
''',
}
DELEG_TERM = {DELEG_MSG: "delegated_post_message msgarm", DELEG_MAP: "delegated_post_map maparm"}
DELEG_CONST = {"TYPE_MESSAGE": DELEG_MSG, "TYPE_MAP": DELEG_MAP}


def pinned(key):
    node = ast.parse(PINNED_ARMS[key]).body[0]
    return ast.dump(node.test), [ast.dump(s) for s in node.body]


def inj(t, term):
    """a value of static type t where a pv is expected"""
    return {"int": f"(PInt {term})", "bool": f"(PBool {term})", "bytes": f"(PBytes {term})", "any": term}.get(t)


def delegated_test(t):
    """`meta.proto_type == TYPE_MESSAGE` / `== TYPE_MAP` -> the key of the pinned arm, else None"""
    if (isinstance(t, ast.Compare) and len(t.ops) == 1 and isinstance(t.ops[0], ast.Eq) and isinstance(t.left, ast.Attribute)
            and isinstance(t.left.value, ast.Name) and t.left.value.id == "meta" and t.left.attr == "proto_type"
            and isinstance(t.comparators[0], ast.Name)):
        return DELEG_CONST.get(t.comparators[0].id)
    return None


class Translator1(g9.Translator9):
    def index_module(self):
        super().index_module()
        self.int_consts = {}
        for node in self.tree.body:
            if isinstance(node, ast.Assign) and len(node.targets) == 1 and isinstance(node.targets[0], ast.Name):
                v = int_literal(node.value)
                if v is not None and len(self.bound.get(node.targets[0].id, [])) == 1:
                    self.int_consts[node.targets[0].id] = v
        self.used_int_consts = []

    def type_const(self, node, name):
        r = super().type_const(node, name)
        return "src01_" + r[len("src_"):]

    def type_list(self, node, name):
        r = super().type_list(node, name)
        return "src01_" + r[len("src_"):]

    def int_const(self, node, name):
        if name not in self.int_consts:
            reject(node, f"`{name}` is not a module-level int constant bound exactly once by `{name} = <int literal>`")
        if name not in self.used_int_consts:
            self.used_int_consts.append(name)
        return "src01_" + name

    def require_meta_class(self, node):
        name = "FieldMetadata"
        defs = self.classes.get(name, [])
        if len(defs) != 1 or len(self.bound.get(name, [])) != 1:
            reject(node, f"class `{name}` is not defined exactly once at module level")
        c = defs[0]
        if c.bases or c.keywords or len(c.decorator_list) != 1 or \
                ast.unparse(c.decorator_list[0]).replace(" ", "") != "dataclasses.dataclass(frozen=True)":
            reject(c, f"class `{name}` is not a plain class decorated exactly `@dataclasses.dataclass(frozen=True)`")
        if self.imports.get("dataclasses") != ("import", "dataclasses", None) or len(self.bound.get("dataclasses", [])) != 1:
            reject(c, "name `dataclasses` is not bound exactly once by `import dataclasses`")
        fields = {}
        for st in c.body:
            if isinstance(st, ast.AnnAssign) and isinstance(st.target, ast.Name):
                if st.target.id in fields:
                    reject(st, f"field `{st.target.id}` of `{name}` declared twice")
                fields[st.target.id] = ast.unparse(st.annotation).replace(" ", "")
            elif isinstance(st, ast.Assign):
                for tg in st.targets:
                    for n in ast.walk(tg):
                        if isinstance(n, ast.Name) and n.id in ("proto_type", "wraps"):
                            reject(st, f"`{n.id}` of `{name}` is bound by a plain assignment")
            elif isinstance(st, (ast.FunctionDef, ast.AsyncFunctionDef)) and st.name in ("proto_type", "wraps", "__getattribute__", "__getattr__"):
                reject(st, f"`{name}` defines a method `{st.name}`")
        if fields.get("proto_type") != "str" or fields.get("wraps") != "Optional[str]":
            reject(c, f"`{name}` does not declare `proto_type: str` and `wraps: Optional[str]`")

    def method(self, cname, name):
        if name in self.done:
            return self.done[name]
        defs = self.classes.get(cname, [])
        if len(defs) != 1 or len(self.bound.get(cname, [])) != 1:
            reject(self.tree, f"class `{cname}` is not defined exactly once at module level (or is re-bound)")
        c = defs[0]
        mdefs = []
        for st in c.body:
            if isinstance(st, (ast.FunctionDef, ast.AsyncFunctionDef)) and st.name == name:
                mdefs.append(st)
            elif not isinstance(st, (ast.FunctionDef, ast.AsyncFunctionDef, ast.ClassDef)):
                for n in ast.walk(st):
                    if isinstance(n, ast.Name) and isinstance(n.ctx, (ast.Store, ast.Del)) and n.id == name:
                        reject(st, f"`{name}` is (re)bound in the body of class `{cname}` by something other than one `def`")
        if len(mdefs) != 1 or not isinstance(mdefs[0], ast.FunctionDef):
            reject(c, f"method `{cname}.{name}` is not defined exactly once by a plain `def`")
        fd = mdefs[0]
        for n in ast.walk(self.tree):
            if isinstance(n, ast.ClassDef) and n is not c and any(isinstance(st, (ast.FunctionDef, ast.AsyncFunctionDef)) and st.name == name for st in n.body):
                reject(n, f"class `{n.name}` also defines a method `{name}`")
            if isinstance(n, ast.Attribute) and n.attr == name and isinstance(n.ctx, (ast.Store, ast.Del)):
                reject(n, f"an attribute `{name}` is stored somewhere in the module")
            if isinstance(n, ast.Constant) and n.value == name:
                reject(n, f"the string {name!r} occurs in the module (setattr / __dict__ patching cannot be excluded)")
            if isinstance(n, ast.Name) and n.id in (DELEG_MSG, DELEG_MAP):
                reject(n, f"the name `{n.id}` is reserved by the translator")
        if fd.decorator_list:
            reject(fd, f"decorated method `{name}`")
        a = fd.args
        if a.posonlyargs or a.vararg or a.kwarg or a.defaults or a.kwonlyargs or a.kw_defaults:
            reject(fd, f"method `{name}` has non-plain parameters (defaults / * / ** / keyword-only / positional-only)")
        if not a.args or a.args[0].arg != "self" or a.args[0].annotation is not None:
            reject(fd, f"the first parameter of method `{name}` is not an unannotated `self`")
        info = g.FuncInfo(name)
        info.params = [("self", "self")]
        for x in a.args[1:]:
            txt = None if x.annotation is None else ast.unparse(x.annotation).replace(" ", "")
            if x.arg == "field_name" and txt == "str":
                t = "fname"
            elif x.arg == "meta" and txt == "FieldMetadata":
                self.require_meta_class(x)
                t = "meta"
            else:
                t = self.param_type9(x)
            info.params.append((x.arg, t))
        if len({p for p, _ in info.params}) != len(info.params):
            reject(fd, "duplicate parameter names")
        info.streams = []
        info.kw_defaults = []
        # the delegated arms: checked against the pinned text and replaced by one synthetic assignment each
        fd = self.delegate_arms(fd)
        self.in_progress.append(name)
        ft = FuncTranslator1(self, info, fd)
        ft.run()
        self.in_progress.pop()
        self.done[name] = info
        self.order.append(info)
        return info

    def delegate_arms(self, fd):
        import copy
        fd = copy.deepcopy(fd)
        for n in ast.walk(fd):
            if isinstance(n, ast.If):
                key = delegated_test(n.test)
                if key is None:
                    continue
                want_test, want_body = pinned(key)
                if ast.dump(n.test) != want_test or [ast.dump(x) for x in n.body] != want_body:
                    reject(n, f"the delegated `{ast.unparse(n.test)}` arm of `{ROOT}` differs from the text pinned in the translator")
                call = ast.Call(func=ast.Name(id=key, ctx=ast.Load()),
                                args=[ast.Name(id=x, ctx=ast.Load()) for x in ("self", "field_name", "meta", "value")], keywords=[])
                new = ast.Assign(targets=[ast.Name(id="value", ctx=ast.Store())], value=call)
                for x in ast.walk(new):
                    ast.copy_location(x, n.body[0])
                n.body = [new]
        return fd


class FuncTranslator1(g9.FuncTranslator9):
    def run(self):
        self.any_params = {p for p, t in self.info.params if t == "any"}
        super().run()

    def ret_annotation(self):
        r = self.fd.returns
        return None if r is None else (r.value if isinstance(r, ast.Constant) and isinstance(r.value, str) else ast.unparse(r)).replace(" ", "")

    def check_return_annotation(self):
        if self.ret == "any" and self.ret_annotation() == "Any":
            self.mod.param_type9(ast.arg(arg="<return>", annotation=self.fd.returns, lineno=self.fd.lineno))   # `Any` is typing.Any
            return
        return super().check_return_annotation()

    # ------------------------------------------------------------------ typing
    def bind_var(self, node, env, name, t):
        if name in self.any_params and name in env and env[name] != t:
            if inj(t, "x") is None:
                reject(node, f"the `Any` variable `{name}` receives a value of type {t}")
            env = dict(env)
            del env[name]               # re-bound with another static type (Gallina shadowing)
        return super().bind_var(node, env, name, t)

    def do_return(self, s, env):
        if isinstance(s.value, ast.Name) and s.value.id in self.any_params and self.ret_annotation() == "Any":
            t = self.lookup(s.value, env)
            term = inj(t, mangle(s.value.id))
            if term is None:
                reject(s, f"return of a value of type {t} from a function annotated `-> Any`")
            self.set_ret(s, "any")
            return self.ret_wrap(self.result_term(term, env))
        return super().do_return(s, env)

    def do_if(self, s, rest, env, k):
        ta, tb = self.terminates(s.body), self.terminates(s.orelse)
        if ta or tb or self.contains_return(s.body) or self.contains_return(s.orelse):
            return super().do_if(s, rest, env, k)
        # the library's join, except that an `Any` variable whose static types differ on the two sides is injected into pv
        binds, c = self.cond(s.test, env)
        out = {}

        def grab(which):
            def kk(e):
                out[which] = e
                return "@JOIN@"
            return kk
        a = self.block(s.body, env, grab("a"))
        b = self.block(s.orelse, env, grab("b"))
        if "a" not in out or "b" not in out:
            reject(s, "internal: a branch of a joining if did not fall through")
        ea, eb = out["a"], out["b"]
        names = self.assigned_names(s.body, env) + self.assigned_names(s.orelse, env)
        joined, ta_items, tb_items = [], [], []
        env2 = dict(env)
        for n in names:
            if n in joined or n not in ea or n not in eb:
                continue
            if ea[n] == eb[n]:
                ta_items.append(mangle(n))
                tb_items.append(mangle(n))
                env2[n] = ea[n]
            elif n in self.any_params and inj(ea[n], "x") is not None and inj(eb[n], "x") is not None:
                ta_items.append(inj(ea[n], mangle(n)))
                tb_items.append(inj(eb[n], mangle(n)))
                env2[n] = "any"
            else:
                reject(s, f"variable `{n}` has different types after the two branches")
            joined.append(n)
        if not joined:
            reject(s, "if statement without effect on any variable")
        a = a.replace("@JOIN@", f"Ok {tuple_term(ta_items)}")
        b = b.replace("@JOIN@", f"Ok {tuple_term(tb_items)}")
        tup = tuple_term([mangle(n) for n in joined])
        pat = mangle(joined[0]) if len(joined) == 1 else "'" + tup
        self.fresh -= set(joined)
        return wrap_binds(binds, f"bind (if {c}\nthen {a}\nelse {b}) (fun {pat} =>\n{self.block(rest, env2, k)})")

    # ------------------------------------------------------------------ expressions
    def is_int_const(self, e, env):
        return isinstance(e, ast.Name) and e.id not in env and e.id in self.mod.int_consts

    def coerce_any(self, e, sides, env):
        """sides: [(binds, term, type)] of the operands, evaluated left to right; an operand of type any is coerced by
        py_int_arg after ALL operand binds.  Returns (binds, [terms])"""
        binds, terms, late = [], [], []
        for b, tm, t in sides:
            binds += b
            if t == "any":
                self.ncoerce = getattr(self, "ncoerce", 0) + 1
                alias = f"{tm}__int{self.ncoerce}"
                late.append((alias, f"py_int_arg {tm}"))
                terms.append(alias)
            elif t == "int":
                terms.append(tm)
            else:
                reject(e, f"a dynamic (Any) operand together with an operand of type {t}")
        return binds + late, terms

    def binop(self, e, env):
        op = type(e.op).__name__
        if op in ("BitAnd", "BitOr", "BitXor", "Add", "Sub", "Mult", "LShift", "RShift"):
            save = self.ntmp
            l = self.expr(e.left, env)
            r = self.expr(e.right, env)
            if "any" in (l[2], r[2]):
                binds, (tl, tr) = self.coerce_any(e, [l, r], env)
                simple = {"Add": "({} + {})", "Sub": "({} - {})", "Mult": "({} * {})", "BitAnd": "(Z.land {} {})",
                          "BitOr": "(Z.lor {} {})", "BitXor": "(Z.lxor {} {})"}
                if op in simple:
                    return binds, simple[op].format(tl, tr), "int"
                lit = int_literal(e.right)
                if lit is not None and lit >= 0:
                    return binds, f"(Z.{'shiftl' if op == 'LShift' else 'shiftr'} {tl} {lit})", "int"
                t = self.tmp()
                return binds + [(t, f"{'py_lshift' if op == 'LShift' else 'py_rshift'} {tl} {tr}")], t, "int"
            self.ntmp = save
        return super().binop(e, env)

    def expr(self, e, env):
        # meta.proto_type / meta.wraps
        if isinstance(e, ast.Attribute) and isinstance(e.value, ast.Name) and env.get(e.value.id) == "meta":
            if e.attr == "proto_type":
                return [], f"(meta_proto_type {mangle(e.value.id)})", "ptype"
            if e.attr == "wraps":
                return [], f"(meta_wraps {mangle(e.value.id)})", "wraps"
            reject(e, f"attribute `{e.attr}` of a FieldMetadata")
        if isinstance(e, ast.Name):
            if e.id in env and env[e.id] == "fmt":
                return [], mangle(e.id), "fmt"
            if self.is_int_const(e, env):
                return [], self.mod.int_const(e, e.id), "int"
        if isinstance(e, ast.Compare) and len(e.ops) == 1:
            op, left, right = e.ops[0], e.left, e.comparators[0]
            # meta.proto_type == TYPE_X  (the library only recognises plain names as proto types)
            if isinstance(op, (ast.Eq, ast.NotEq)) and any(isinstance(x, ast.Attribute) and isinstance(x.value, ast.Name)
                                                            and env.get(x.value.id) == "meta" and x.attr == "proto_type" for x in (left, right)):
                bl, l, tl = self.expr(left, env)
                br, r, tr = self.expr(right, env)
                if not (tl == tr == "ptype") or bl or br:
                    reject(e, f"comparison between {tl} and {tr}")
                c = f"(ptype_eqb {l} {r})"
                return [], c if isinstance(op, ast.Eq) else f"(negb {c})", "bool"
            # x in (WIRE_A, WIRE_B), x an int
            if isinstance(op, (ast.In, ast.NotIn)) and isinstance(right, (ast.Tuple, ast.List)) and right.elts \
                    and all(self.is_int_const(x, env) for x in right.elts):
                bl, l, tl = self.expr(left, env)
                if tl != "int" or bl:
                    reject(e, f"`in` over int constants with a left operand of type {tl}")
                c = f"(py_int_in {l} [" + "; ".join(self.mod.int_const(x, x.id) for x in right.elts) + "])"
                return [], c if isinstance(op, ast.In) else f"(negb {c})", "bool"
            # one comparison between a dynamic value and an int
            if isinstance(op, (ast.Lt, ast.LtE, ast.Gt, ast.GtE, ast.Eq, ast.NotEq)):
                save = self.ntmp
                l = self.expr(left, env)
                r = self.expr(right, env)
                if "any" in (l[2], r[2]) and isinstance(op, (ast.Lt, ast.LtE, ast.Gt, ast.GtE)):
                    binds, (tl, tr) = self.coerce_any(e, [l, r], env)
                    table = {"Lt": "({} <? {})", "LtE": "({} <=? {})", "Gt": "({} >? {})", "GtE": "({} >=? {})"}
                    return binds, table[type(op).__name__].format(tl, tr), "bool"
                self.ntmp = save
        # struct.unpack(fmt, value)[0]
        if isinstance(e, ast.Subscript):
            v, ix = e.value, e.slice
            if (isinstance(v, ast.Call) and isinstance(v.func, ast.Attribute) and isinstance(v.func.value, ast.Name)
                    and v.func.value.id == "struct" and "struct" not in env and v.func.attr == "unpack"):
                self.mod.require_import(e, "struct", "import")
                if not (int_literal(ix) == 0 and len(v.args) == 2 and not v.keywords and all(isinstance(x, ast.Name) for x in v.args)):
                    reject(e, "struct.unpack other than struct.unpack(<fmt variable>, <value variable>)[0]")
                tf, tv = env.get(v.args[0].id), env.get(v.args[1].id)
                if tf != "fmt" or tv != "any":
                    reject(e, f"struct.unpack({tf}, {tv})[0] (only a `_pack_fmt` result and a dynamic value)")
                r = self.tmp()
                return [(r, f"py_struct_unpack0 {mangle(v.args[0].id)} {mangle(v.args[1].id)}")], r, "any"
            reject(e, "subscript other than struct.unpack(..)[0] / int(<proto type>[n:])")
        return super().expr(e, env)

    def call_expr(self, e, env):
        f = e.func
        if isinstance(f, ast.Name) and f.id not in env and not e.keywords and not any(isinstance(a, ast.Starred) for a in e.args):
            # the synthetic call standing for a delegated (pinned) arm
            if f.id in DELEG_TERM:
                want = [("self", "self"), ("field_name", "fname"), ("meta", "meta"), ("value", "any")]
                for a, (nm, t) in zip(e.args, want):
                    if env.get(nm) != t:
                        reject(e, f"the delegated arm is reached with `{nm}` not of its parameter type ({env.get(nm)})")
                r = self.tmp()
                self.info.uses_arms = True
                return [(r, f"{DELEG_TERM[f.id]} {' '.join(mangle(nm) for nm, _ in want)}")], r, "any"
            # int(<ptype>[n:])
            if f.id == "int" and len(e.args) == 1 and isinstance(e.args[0], ast.Subscript):
                self.mod.require_unshadowed(e, "int")
                sub = e.args[0]
                sl = sub.slice
                if not (isinstance(sl, ast.Slice) and sl.upper is None and sl.step is None and (int_literal(sl.lower) or -1) >= 0):
                    reject(e, "int() of a subscript other than <proto type>[<non-negative literal>:]")
                b, tm, t = self.expr(sub.value, env)
                if t != "ptype" or b:
                    reject(e, f"int(x[n:]) with x a {t}")
                r = self.tmp()
                return [(r, f"py_int_of_ptype_suffix {int_literal(sl.lower)}%nat {tm}")], r, "int"
            # _pack_fmt(<ptype>)
            if f.id == "_pack_fmt" and len(e.args) == 1:
                if len(self.mod.funcs.get("_pack_fmt", [])) != 1 or len(self.mod.bound.get("_pack_fmt", [])) != 1:
                    reject(e, "`_pack_fmt` is not defined exactly once at module level (or is re-bound)")
                b, tm, t = self.expr(e.args[0], env)
                if t != "ptype" or b:
                    reject(e, f"_pack_fmt of a {t}")
                r = self.tmp()
                return [(r, f"py_pack_fmt {tm}")], r, "fmt"
            # str(<Any>, "utf-8")
            if f.id == "str" and len(e.args) == 2:
                self.mod.require_unshadowed(e, "str")
                if not (isinstance(e.args[1], ast.Constant) and e.args[1].value == "utf-8" and isinstance(e.args[0], ast.Name)
                        and env.get(e.args[0].id) == "any"):
                    reject(e, "str() other than str(<dynamic value>, \"utf-8\")")
                r = self.tmp()
                return [(r, f"py_str_decode_utf8 {mangle(e.args[0].id)}")], r, "any"
        # self._betterproto.cls_by_field[field_name].try_value(<int>)
        if isinstance(f, ast.Attribute) and f.attr == "try_value" and isinstance(f.value, ast.Subscript):
            sub = f.value
            ok = (isinstance(sub.value, ast.Attribute) and sub.value.attr == "cls_by_field" and isinstance(sub.value.value, ast.Attribute)
                  and sub.value.value.attr == "_betterproto" and isinstance(sub.value.value.value, ast.Name)
                  and env.get(sub.value.value.value.id) == "self" and isinstance(sub.slice, ast.Name) and env.get(sub.slice.id) == "fname"
                  and len(e.args) == 1 and not e.keywords)
            if not ok:
                reject(e, "try_value other than self._betterproto.cls_by_field[field_name].try_value(<int>)")
            b, tm, t = self.expr(e.args[0], env)
            if t != "int":
                reject(e, f"try_value of a {t}")
            return b, f"(py_enum_try_value {mangle(sub.value.value.value.id)} {mangle(sub.slice.id)} {tm})", "any"
        return super().call_expr(e, env)

    def is_effectful(self, call, env):
        f = call.func
        if isinstance(f, ast.Name) and f.id == "_pack_fmt":
            return False            # a dict lookup: handled in call_expr (py_pack_fmt), not re-translated
        return super().is_effectful(call, env)


# ----------------------------------------------------------------------------------------------- self-test
SELFTEST_HEAD = ("import dataclasses\nimport struct\nfrom typing import Any, Optional\n"
                 "TYPE_INT32 = 'int32'\nTYPE_BOOL = 'bool'\nTYPE_STRING = 'string'\nTYPE_MESSAGE = 'message'\nTYPE_MAP = 'map'\nTYPE_FIXED32 = 'fixed32'\n"
                 "WIRE_VARINT = 0\nWIRE_FIXED_32 = 5\nWIRE_LEN_DELIM = 2\nWIRE_TWICE = 1\nWIRE_TWICE = 2\n"
                 "def _pack_fmt(proto_type: str) -> str:\n    return {TYPE_FIXED32: '<I'}[proto_type]\n"
                 "@dataclasses.dataclass(frozen=True)\nclass FieldMetadata:\n    number: int\n    proto_type: str\n    wraps: Optional[str] = None\n")


def _cls(body, extra=""):
    return "class Message:\n" + "".join("    " + l + "\n" for l in body.strip("\n").split("\n")) + extra


SIG = "def _postprocess_single(self, wire_type: int, meta: FieldMetadata, field_name: str, value: Any) -> Any:\n"
SELFTEST = [
    (_cls(SIG + "    if wire_type == WIRE_VARINT:\n        if meta.proto_type == TYPE_INT32:\n            value = value & 255\n"
          "        elif meta.proto_type == TYPE_BOOL:\n            value = value > 0\n    return value\n"), None),
    (_cls(SIG + "    if wire_type in (WIRE_FIXED_32, WIRE_LEN_DELIM):\n        fmt = _pack_fmt(meta.proto_type)\n"
          "        value = struct.unpack(fmt, value)[0]\n    return value\n"), None),
    (_cls(SIG + "    if meta.proto_type == TYPE_STRING:\n        value = str(value, 'utf-8')\n    return value\n"), None),
    (_cls(SIG + "    if meta.proto_type == TYPE_INT32:\n        bits = int(meta.proto_type[3:])\n        value = value & ((1 << bits) - 1)\n"
          "        value = self._betterproto.cls_by_field[field_name].try_value(value)\n    return value\n"), None),
    (_cls(SIG + "".join("    " + l + "\n" for l in PINNED_ARMS[DELEG_MAP].strip("\n").split("\n")) + "    return value\n"), None),
    (_cls(SIG + "    if meta.proto_type == TYPE_MAP:\n        value = self._betterproto.cls_by_field[field_name]().parse(value[1:])\n    return value\n"),
     "differs from the text pinned"),
    (_cls(SIG + "    if wire_type == WIRE_TWICE:\n        value = value & 1\n    return value\n"), "not a variable that is definitely bound|not a module-level int constant"),
    (_cls(SIG + "    if wire_type == WIRE_VARINT:\n        value = value[0]\n    return value\n"), "subscript other than"),
    (_cls(SIG + "    if wire_type == WIRE_VARINT:\n        value = str(value, 'latin-1')\n    return value\n"), "str() other than"),
    (_cls(SIG + "    if wire_type == WIRE_VARINT:\n        value = meta.number\n    return value\n"), "attribute `number` of a FieldMetadata"),
    (_cls(SIG + "    if wire_type == WIRE_VARINT:\n        value = self.x\n    return value\n"), "expression `Attribute`"),
    (_cls(SIG + "    if wire_type == WIRE_VARINT:\n        value = field_name\n    return value\n"), "use of the fname|as a value"),
    (_cls(SIG + "    if wire_type == WIRE_VARINT:\n        value = struct.unpack('<I', value)[0]\n    return value\n"), "struct.unpack other than"),
    (_cls(SIG + "    if wire_type == WIRE_VARINT:\n        value = int(meta.proto_type[:3])\n    return value\n"), "int() of a subscript other than"),
    (_cls(SIG + "    if wire_type == WIRE_VARINT:\n        value = cls.try_value(value & 1)\n    return value\n"), "try_value other than|call of"),
    (_cls(SIG + "    try:\n        value = value & 1\n    except TypeError:\n        pass\n    return value\n"), "statement `Try`"),
    (_cls(SIG + "    for x in value:\n        value = x\n    return value\n"), "`for` other than"),
    (_cls(SIG + "    return value\n", "Message._postprocess_single = None\n"), "is stored somewhere in the module"),
    (_cls(SIG + "    return value\n", "setattr(Message, '_postprocess_single', None)\n"), "occurs in the module"),
    (_cls(SIG + "    return value\n", "class Sub(Message):\n    def _postprocess_single(self):\n        return 1\n"), "also defines a method"),
    (_cls("@staticmethod\n" + SIG + "    return value\n"), "decorated method"),
    (_cls(SIG.replace("value: Any", "value: Any = None") + "    return value\n"), "non-plain parameters"),
    (_cls(SIG.replace("meta: FieldMetadata", "meta: dict") + "    return value\n"), "parameter annotation `dict`"),
]


def selftest():
    bad = 0
    for src, want in SELFTEST:
        try:
            Translator1(SELFTEST_HEAD + src).method(ROOT_CLASS, ROOT)
            got = None
        except Reject as ex:
            got = str(ex)
        ok = (got is None) if want is None else (got is not None and any(w in got for w in want.split("|")))
        if not ok:
            bad += 1
            print(f"SELFTEST-FAIL: expected {want!r}, got {got!r} for\n{src}")
    print(f"selftest: {len(SELFTEST) - bad}/{len(SELFTEST)} snippets behaved as expected")
    return 1 if bad else 0


# ----------------------------------------------------------------------------------------------- driver
def note(ex):
    return str(ex).replace("*", "x").replace("(", "[").replace(")", "]")[:600]


KEY = "postprocess"


def generate():
    """Returns (Gallina text, {"postprocess": None | reason}).  A rejected translation leaves NO definition behind, only the
    flag `src_c01_postprocess_translated := false`, so the proof files cannot compile against stale or guessed definitions."""
    path = os.path.join(REPO, SRC_REL)
    with open(path, encoding="utf-8") as f:
        source = f.read()
    out = ["(* GENERATED by harness/gen_c01_src.py from the source text of " + SRC_REL.replace(os.sep, "/") + ". Do not edit.",
           "   Mechanical translation (accepted subset: see the generator, harness/gen_c09_src.py and harness/gen_c16_src.py). *)",
           "From BP Require Import Base.Prelude Model.Types Model.Object Model.C16SrcLib Model.C09SrcLib Model.C01SrcLib.", ""]
    verdict = {}
    try:
        mod = Translator1(source)
        info = mod.method(ROOT_CLASS, ROOT)
        out.append("(* ---- module-level constants used by the translated function ---- *)")
        for nm in mod.used_int_consts:
            out.append(f"Definition src01_{nm} : Z := {zlit(mod.int_consts[nm])}.")
        for nm in mod.used_consts:
            out.append(f"Definition src01_{nm} : ptype := {mod.type_consts[nm]}.")
        for nm in mod.used_lists:
            out.append(f"Definition src01_{nm} : list ptype := [" + "; ".join("src01_" + x for x in mod.type_lists[nm]) + "].")
        out += ["", "Section SrcPost.",
                "(* what `self` and `field_name` are is left open: they are only handed to the delegated arms / named by the enum pattern *)",
                "Variables py_self py_field_name : Type.",
                "(* the delegated `meta.proto_type == TYPE_MESSAGE` / `== TYPE_MAP` arms (pinned text, see the translator) *)",
                "Variable msgarm : py_self -> py_field_name -> py_meta -> pv -> result pv.",
                "Variable maparm : py_self -> py_field_name -> py_meta -> pv -> result pv.", "",
                f"(* ---- {ROOT_CLASS}.{info.name} ---- *)", info.text, "End SrcPost.", "",
                "Definition src_c01_postprocess_translated : bool := true."]
        verdict[KEY] = None
    except Reject as ex:
        verdict[KEY] = str(ex)
        out = out[:4] + [f"(* {ROOT_CLASS}.{ROOT} NOT translated - REJECTED: %s *)" % note(ex), "",
                         "Definition src_c01_postprocess_translated : bool := false."]
    return "\n".join(out) + "\n", verdict


def report(verdict):
    for part, why in verdict.items():
        print(f"C01SRC-TRANSLATION-{'OK' if why is None else 'REJECTED'}: {part}" + ("" if why is None else f": {why}"))


def main():
    mode = sys.argv[1] if len(sys.argv) > 1 else ""
    if mode == "--selftest":
        return selftest()
    text, verdict = generate()
    if mode == "--print":
        print(text, end="")
    elif mode != "--dry-run":
        os.makedirs(os.path.dirname(OUT), exist_ok=True)
        old = None
        if os.path.exists(OUT):
            with open(OUT) as f:
                old = f.read()
        if old != text:
            with open(OUT + ".tmp", "w") as f:
                f.write(text)
            os.replace(OUT + ".tmp", OUT)
            print("C01Src.v regenerated")
        else:
            print("C01Src.v unchanged")
    if mode != "--print":
        report(verdict)
    return 3 if any(v is not None for v in verdict.values()) else 0


if __name__ == "__main__":
    try:
        sys.exit(main())
    except Exception as e:  # fail closed: a stale translation must not survive a source that cannot even be read / parsed
        msg = f"{type(e).__name__}: {e}"
        if not (len(sys.argv) > 1 and sys.argv[1] in ("--dry-run", "--print", "--selftest")):
            text = ("(* gen_c01_src.py: source-translation ERROR %s *)\nDefinition translation_failed : False := I.\n"
                    % msg.replace("*", "x").replace("(", "[").replace(")", "]")[:600])
            old = open(OUT).read() if os.path.exists(OUT) else None
            if old != text:
                os.makedirs(os.path.dirname(OUT), exist_ok=True)
                with open(OUT, "w") as f:
                    f.write(text)
        print(f"C01SRC-TRANSLATION-REJECTED: {KEY}: {msg}")
        sys.exit(3)
