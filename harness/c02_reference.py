"""C02 (also usable by C06/C08): google.protobuf classes for a msggen Schema, built in memory, and the
observation functions of the interoperability check.

  build(schema)                 -> RefSchema (one reference class per msggen class, same field names/numbers)
  ref_tree(rs, ci, msg, mode)   -> abstract value of a reference message   (the shape of coq/Spec/Wire.v `aval`)
  bp_tree(schema, ci, m, mode)  -> abstract value of a real betterproto message, through the public API only
                                   (getattr, which_one_of, serialized_on_wire, None-ness)
  tree_cv(tree)                 -> the tree as a `cv` literal, exactly what Proofs/C02Abs.v `cv_of_aval` prints

mode "exact": presence of every field that has presence in the reference.  mode "observable": a plain
datetime / timedelta field has no presence observable in betterproto (the attribute is a datetime either way), so
both sides print the value only (absent = epoch / zero span); floats fold -0.0 into 0.0 when fold_zero is set."""
import struct
from datetime import timedelta

import betterproto as bp
from google.protobuf import descriptor_pb2, descriptor_pool, message_factory
from google.protobuf import duration_pb2, timestamp_pb2, wrappers_pb2, unknown_fields

from . import msggen
from .lib import cz, cb, cl, CN, cbool

T = descriptor_pb2.FieldDescriptorProto
WRAPPER_MSG = {"bool": "BoolValue", "bytes": "BytesValue", "double": "DoubleValue", "float": "FloatValue", "int32": "Int32Value",
               "int64": "Int64Value", "string": "StringValue", "uint32": "UInt32Value", "uint64": "UInt64Value"}
CANON_NAN = 0x7FF8000000000000
_counter = [0]


def camel(name):
    out, up = [], True
    for ch in name:
        if ch == "_":
            up = True
        elif up:
            out.append(ch.upper())
            up = False
        else:
            out.append(ch)
    return "".join(out)


class RefSchema:
    def __init__(self, schema, pool, pkg):
        self.schema, self.pool, self.pkg = schema, pool, pkg
        self.classes = [message_factory.GetMessageClass(pool.FindMessageTypeByName(f"{pkg}.{c.name}")) for c in schema.classes]


def build(schema):
    _counter[0] += 1
    pkg = f"c02r{_counter[0]}"
    pool = descriptor_pool.DescriptorPool()
    for mod in (timestamp_pb2, duration_pb2, wrappers_pb2):
        pool.Add(descriptor_pb2.FileDescriptorProto.FromString(mod.DESCRIPTOR.serialized_pb))
    fdp = descriptor_pb2.FileDescriptorProto(name=f"{pkg}.proto", package=pkg, syntax="proto3")
    fdp.dependency.extend(["google/protobuf/timestamp.proto", "google/protobuf/duration.proto", "google/protobuf/wrappers.proto"])
    for i, members in enumerate(schema.enums):
        e = fdp.enum_type.add(name=f"E{i}")
        if len({v for _, v in members}) != len(members):
            e.options.allow_alias = True
        for n, v in members:
            e.value.add(name=f"E{i}_{n}", number=v)

    def set_elem(fd, elem):
        if elem.kind == "scalar":
            fd.type = getattr(T, "TYPE_" + elem.pt.upper())
        elif elem.kind == "enum":
            fd.type, fd.type_name = T.TYPE_ENUM, f".{pkg}.E{elem.ref}"
        elif elem.kind == "msg":
            fd.type, fd.type_name = T.TYPE_MESSAGE, f".{pkg}.{schema.classes[elem.ref].name}"
        elif elem.kind == "datetime":
            fd.type, fd.type_name = T.TYPE_MESSAGE, ".google.protobuf.Timestamp"
        elif elem.kind == "timedelta":
            fd.type, fd.type_name = T.TYPE_MESSAGE, ".google.protobuf.Duration"
        else:
            raise ValueError(elem)

    for c in schema.classes:
        m = fdp.message_type.add(name=c.name)
        used = sorted({f.group for f in c.fields if f.group is not None})      # a oneof without members cannot be declared
        for g in used:
            m.oneof_decl.add(name=f"g{g}")
        synthetic = []
        for f in c.fields:
            fd = m.field.add(name=f.name, number=f.number, label=T.LABEL_OPTIONAL)
            if f.card == "repeated":
                fd.label = T.LABEL_REPEATED
                set_elem(fd, f.elem)
            elif f.card == "map":
                ename = camel(f.name) + "Entry"
                en = m.nested_type.add(name=ename)
                en.options.map_entry = True
                set_elem(en.field.add(name="key", number=1, label=T.LABEL_OPTIONAL), f.key)
                set_elem(en.field.add(name="value", number=2, label=T.LABEL_OPTIONAL), f.elem)
                fd.label, fd.type, fd.type_name = T.LABEL_REPEATED, T.TYPE_MESSAGE, f".{pkg}.{c.name}.{ename}"
            elif f.card == "wrapper":
                fd.type, fd.type_name = T.TYPE_MESSAGE, ".google.protobuf." + WRAPPER_MSG[f.elem.pt]
            else:
                set_elem(fd, f.elem)
                if f.group is not None:
                    fd.oneof_index = used.index(f.group)
                elif f.card == "optional":
                    fd.proto3_optional = True
                    synthetic.append(fd)
        for fd in synthetic:  # synthetic oneofs come after the real ones
            fd.oneof_index = len(m.oneof_decl)
            m.oneof_decl.add(name="_" + fd.name)
    pool.Add(fdp)
    return RefSchema(schema, pool, pkg)


# --------------------------------------------------------------------------------------
# trees
# --------------------------------------------------------------------------------------
def f64_bits(x):
    b = struct.unpack("<Q", struct.pack("<d", x))[0]
    return CANON_NAN if x != x else b


def scalar_tree(pt, v, fold_zero=False):
    if pt == "bool":
        return ("bool", bool(v))
    if pt in ("float", "double"):
        v = float(v)
        if pt == "float" and v == v and abs(v) != float("inf"):
            try:
                v = struct.unpack("<f", struct.pack("<f", v))[0]     # a float32 field holds what survives the wire
            except OverflowError:
                pass
        if fold_zero and v == 0:
            v = 0.0
        return ("float", f64_bits(v))
    if pt == "string":
        return ("str", v.encode("utf-8"))
    if pt == "bytes":
        return ("bytes", bytes(v))
    return ("int", int(v))


def unknown_records_ref(msg):
    def conv(ufs):
        out = []
        for u in ufs:
            wt, d = u.wire_type, u.data
            if wt == 0:
                out.append((u.field_number, 0, int(d)))
            elif wt == 1:
                out.append((u.field_number, 1, int(d).to_bytes(8, "little") if isinstance(d, int) else bytes(d)))
            elif wt == 5:
                out.append((u.field_number, 5, int(d).to_bytes(4, "little") if isinstance(d, int) else bytes(d)))
            elif wt == 2:
                out.append((u.field_number, 2, bytes(d)))
            elif wt == 3:
                out.append((u.field_number, 3, conv(d)))
            else:
                raise ValueError(f"unknown wire type {wt}")
        return out
    return conv(unknown_fields.UnknownFieldSet(msg))


def ts_tree(seconds, nanos):
    return ("msg", [("int", int(seconds)), ("int", int(nanos))], [])


def key_sort(items):
    def k(kv):
        t = kv[0]
        return t[1]
    return sorted(items, key=k)


def ref_elem(rs, elem, v, mode, fold_zero, wraps=False):
    """one element (a field value that is not a container) of the reference"""
    if wraps:
        return ("msg", [scalar_tree(elem.pt, v.value, fold_zero)], unknown_records_ref(v))
    if elem.kind == "scalar":
        return scalar_tree(elem.pt, v, fold_zero)
    if elem.kind == "enum":
        return ("int", int(v))
    if elem.kind == "msg":
        return ref_tree(rs, elem.ref, v, mode, fold_zero)
    return ("msg", [("int", int(v.seconds)), ("int", int(v.nanos))], unknown_records_ref(v))


def ref_tree(rs, ci, msg, mode="exact", fold_zero=False):
    c = rs.schema.classes[ci]
    fields = []
    for f in c.fields:
        v = getattr(msg, f.name)
        # -0.0 is folded into 0.0 only where betterproto does not write a zero at all (an implicit-presence scalar, also the
        # `value` of a wrapper); where a zero IS written - list element, map value, selected oneof member, optional - its sign counts
        fz = fold_zero if f.elem.kind != "scalar" else False
        if f.card == "repeated":
            fields.append(("list", [ref_elem(rs, f.elem, x, mode, fz) for x in v]))
        elif f.card == "map":
            fields.append(("map", key_sort([(scalar_tree(f.key.pt, k), ref_elem(rs, f.elem, x, mode, fz)) for k, x in v.items()])))
        elif f.card == "wrapper":
            fields.append(("some", ref_elem(rs, f.elem, v, mode, fold_zero, wraps=True)) if msg.HasField(f.name) else ("none",))
        elif f.group is not None:
            sel = msg.WhichOneof(f"g{f.group}") == f.name
            fields.append(("some", ref_elem(rs, f.elem, v, mode, fz)) if sel else ("none",))
        elif f.card == "optional":
            fields.append(("some", ref_elem(rs, f.elem, v, mode, fz)) if msg.HasField(f.name) else ("none",))
        elif f.elem.kind in ("msg", "datetime", "timedelta"):
            if mode == "observable" and f.elem.kind != "msg":
                fields.append(("some", ts_tree(v.seconds, v.nanos)))      # value only
            else:
                fields.append(("some", ref_elem(rs, f.elem, v, mode, fold_zero)) if msg.HasField(f.name) else ("none",))
        else:
            fields.append(ref_elem(rs, f.elem, v, mode, fold_zero))
    return ("msg", fields, unknown_records_ref(msg))


def bp_elem(schema, elem, v, mode, fold_zero, wraps=False):
    if wraps:
        return ("msg", [scalar_tree(elem.pt, v, fold_zero)], [])
    if elem.kind == "scalar":
        return scalar_tree(elem.pt, v, fold_zero)
    if elem.kind == "enum":
        return ("int", int(v))
    if elem.kind == "msg":
        return bp_tree(schema, elem.ref, v, mode, fold_zero)
    if elem.kind == "datetime":
        us = msggen.us_of_datetime(v)
        return ts_tree(us // 10 ** 6, (us % 10 ** 6) * 1000)
    us = msggen.us_of_timedelta(v)
    s = abs(us) // 10 ** 6 * (1 if us >= 0 else -1)
    n = (abs(us) % 10 ** 6) * 1000 * (1 if us >= 0 else -1)
    return ts_tree(s, n)


def bp_tree(schema, ci, m, mode="observable", fold_zero=False):
    """what a user of betterproto can observe of m (public API only)"""
    from . import wiregen
    c = schema.classes[ci]
    fields = []
    for f in c.fields:
        fz = fold_zero if f.elem.kind != "scalar" else False        # see ref_tree
        if f.group is not None:
            name, v = bp.which_one_of(m, f"g{f.group}")
            fields.append(("some", bp_elem(schema, f.elem, v, mode, fz)) if name == f.name else ("none",))
            continue
        v = getattr(m, f.name)
        if f.card == "repeated":
            fields.append(("list", [bp_elem(schema, f.elem, x, mode, fz) for x in v]))
        elif f.card == "map":
            fields.append(("map", key_sort([(scalar_tree(f.key.pt, k), bp_elem(schema, f.elem, x, mode, fz)) for k, x in v.items()])))
        elif f.card == "wrapper":
            fields.append(("none",) if v is None else ("some", bp_elem(schema, f.elem, v, mode, fold_zero, wraps=True)))
        elif f.card == "optional":
            fields.append(("none",) if v is None else ("some", bp_elem(schema, f.elem, v, mode, fz)))
        elif f.elem.kind == "msg":
            fields.append(("some", bp_elem(schema, f.elem, v, mode, fold_zero)) if bp.serialized_on_wire(v) else ("none",))
        elif f.elem.kind in ("datetime", "timedelta"):
            fields.append(("some", bp_elem(schema, f.elem, v, mode, fold_zero)))          # value only (mode observable)
        else:
            fields.append(bp_elem(schema, f.elem, v, mode, fold_zero))
    unk = wiregen.read_records(bytes(object.__getattribute__(m, "_unknown_fields")))
    return ("msg", fields, unk)


# --------------------------------------------------------------------------------------
def rec_cv(r):
    num, wt, p = r
    if wt == 0:
        pl = cl([cz(0), cz(p)])
    elif wt == 3:
        pl = cl([cz(3), cl([rec_cv(x) for x in p])])
    else:
        pl = cl([cz(wt), cb(p)])
    return cl([cz(num), pl])


def tree_cv(t):
    k = t[0]
    if k == "int":
        return cz(t[1])
    if k == "bool":
        return cl([cz(1), cbool(t[1])])
    if k == "float":
        return cl([cz(2), cz(t[1])])
    if k == "str":
        return cl([cz(3), cb(t[1])])
    if k == "bytes":
        return cb(t[1])
    if k == "none":
        return CN
    if k == "some":
        return cl([cz(4), tree_cv(t[1])])
    if k == "list":
        return cl([cz(6), cl([tree_cv(x) for x in t[1]])])
    if k == "map":
        return cl([cz(7), cl([cl([tree_cv(a), tree_cv(b)]) for a, b in t[1]])])
    if k == "msg":
        return cl([cz(8), cl([tree_cv(x) for x in t[1]]), cl([rec_cv(r) for r in t[2]])])
    raise ValueError(t)


def tree_diff(a, b, path="", names=None):
    """first difference between two trees, as a short string (None when equal)"""
    if a == b:
        return None
    if a[0] != b[0]:
        return f"{path}: {a!r:.200} vs {b!r:.200}"
    k = a[0]
    if k == "msg":
        for i, (x, y) in enumerate(zip(a[1], b[1])):
            d = tree_diff(x, y, f"{path}/field#{i}")
            if d:
                return d
        if a[2] != b[2]:
            return f"{path}/unknown: {a[2]!r:.200} vs {b[2]!r:.200}"
        return f"{path}: field counts {len(a[1])} vs {len(b[1])}"
    if k == "some":
        return tree_diff(a[1], b[1], path + "/some")
    if k == "list":
        if len(a[1]) != len(b[1]):
            return f"{path}: list lengths {len(a[1])} vs {len(b[1])}: {a[1]!r:.200} vs {b[1]!r:.200}"
        for i, (x, y) in enumerate(zip(a[1], b[1])):
            d = tree_diff(x, y, f"{path}[{i}]")
            if d:
                return d
    if k == "map":
        da, db = dict((repr(k_), v) for k_, v in a[1]), dict((repr(k_), v) for k_, v in b[1])
        if set(da) != set(db):
            return f"{path}: map keys differ: {sorted(set(da) ^ set(db))!r:.300}"
        for k_ in da:
            d = tree_diff(da[k_], db[k_], f"{path}[{k_}]")
            if d:
                return d
    return f"{path}: {a!r:.200} vs {b!r:.200}"
