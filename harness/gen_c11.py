#!/venv/bin/python
"""T1 for C11: regenerate coq/gen/C11Tables.v by REFLECTION of a rendered probe.

The real plugin (from ${VERIF_REPO:-/repo}) renders a probe .proto with one method per
combination of (client_streaming, server_streaming); the generated module is imported and

  * every stub method is called with instrumented `_unary_unary/...` attributes: which helper
    the template body calls, with which route / declared types / keyword pass-through;
  * every helper of betterproto.ServiceStub is called on a fake channel: which
    grpclib.const.Cardinality and which request type it hands to channel.request,
    what it sends (order, end of stream) and what it returns;
  * `ProbeBase().__mapping__()` is read: route key, adapter function, Cardinality, types;
  * the un-overridden Base methods are run: which status they raise.

Fail-closed: anything unexpected makes the generator write a file that does not compile, so
the proof stage breaks instead of silently using stale data.  The file is rewritten only when
its content changes.
"""
import asyncio
import os
import shutil
import sys
import tempfile

REPO = os.environ.get("VERIF_REPO", "/repo")
HERE = os.path.dirname(os.path.abspath(__file__))
sys.path.insert(0, os.path.join(REPO, "src"))
sys.path.insert(1, os.path.dirname(HERE))
OUT = os.path.join(HERE, "..", "coq", "gen", "C11Tables.v")


class TranslationError(Exception):
    pass


PROBE = {
    "c11probe.proto": """syntax = "proto3";
package c11.probe;
message PIn { int32 a = 1; }
message POut { int32 b = 1; }
service Probe {
  rpc MUU (PIn) returns (POut);
  rpc MUS (PIn) returns (stream POut);
  rpc MSU (stream PIn) returns (POut);
  rpc MSS (stream PIn) returns (stream POut);
}
""",
    "c11bare.proto": """syntax = "proto3";
message BIn { int32 a = 1; }
message BOut { int32 b = 1; }
service Bare { rpc M (BIn) returns (BOut); }
""",
}
FLAGS = {"MUU": (False, False), "MUS": (False, True), "MSU": (True, False), "MSS": (True, True)}
HELPERS = ["_unary_unary", "_unary_stream", "_stream_unary", "_stream_stream"]


def coq_bytes(b: bytes) -> str:
    return "[" + "; ".join("x%02x" % c for c in b) + "]"


def coq_str(s: str) -> str:
    return coq_bytes(s.encode("utf-8"))


def cb(b) -> str:
    return "true" if b else "false"


def card_name(c) -> str:
    import grpclib.const

    if not isinstance(c, grpclib.const.Cardinality):
        raise TranslationError(f"not a Cardinality: {c!r}")
    return c.name


class FakeStream:
    def __init__(self, rec, replies):
        self.rec, self.replies = rec, list(replies)

    async def __aenter__(self):
        return self

    async def __aexit__(self, *a):
        return False

    async def send_request(self, **kw):
        self.rec.append(("send_request",))

    async def send_message(self, m, end=False):
        self.rec.append(("send_message", m, bool(end)))

    async def end(self):
        self.rec.append(("end",))

    async def recv_message(self):
        return self.replies.pop(0) if self.replies else None

    def __aiter__(self):
        return self

    async def __anext__(self):
        if self.replies:
            return self.replies.pop(0)
        raise StopAsyncIteration


class FakeChannel:
    def __init__(self, replies=()):
        self.calls, self.rec, self.replies = [], [], replies

    def request(self, name, cardinality, request_type, reply_type, **kw):
        self.calls.append((name, cardinality, request_type, reply_type, kw))
        return FakeStream(self.rec, self.replies)


async def drain(x):
    if hasattr(x, "__aiter__"):
        return [y async for y in x]
    return await x


def reflect(mod, bare):
    import betterproto
    import grpclib
    from betterproto.compile.naming import pythonize_method_name

    out = []
    w = out.append
    PIn, POut = mod.PIn, mod.POut
    # ---------------------------------------------------------------- stub sites
    T, D, M = object(), object(), object()
    stub_sites, probe_routes = [], []
    for name, (cs, ss) in FLAGS.items():
        py = pythonize_method_name(name)
        stub = mod.ProbeStub(FakeChannel())
        seen = []

        def mk(h):
            def rec(*a, **k):
                seen.append((h, a, k))

                async def coro():
                    return POut(b=1)

                async def gen():
                    yield POut(b=1)

                return gen() if h.endswith("_stream") else coro()
            return rec

        for h in HELPERS:
            setattr(stub, h, mk(h))
        arg = [PIn(a=1)] if cs else PIn(a=1)
        asyncio.run(drain(getattr(stub, py)(arg, timeout=T, deadline=D, metadata=M)))
        if len(seen) != 1:
            raise TranslationError(f"stub method {py} called {len(seen)} helpers")
        h, a, k = seen[0]
        want_args = (a[0], arg, PIn, POut) if cs else (a[0], arg, POut)
        shape_ok = (len(a) == len(want_args) and all(x is y for x, y in zip(a, want_args))
                    and set(k) == {"timeout", "deadline", "metadata"}
                    and k["timeout"] is T and k["deadline"] is D and k["metadata"] is M)
        if not isinstance(a[0], str):
            raise TranslationError("route argument is not a string")
        stub_sites.append(f"({cb(cs)}, {cb(ss)}, H{h}, {cb(shape_ok)})")
        probe_routes.append((name, a[0]))
    w("(* (client_streaming, server_streaming, helper the rendered stub body calls,\n"
      "    positional args are (route, request, [declared input type,] declared output type) and\n"
      "    timeout/deadline/metadata are handed through unchanged) *)")
    w("Definition stub_sites : list (bool * bool * helper * bool) :=\n  [" + ";\n   ".join(stub_sites) + "].")
    # ---------------------------------------------------------------- helper sites
    helper_sites = []
    for h in HELPERS:
        takes_iter = h.startswith("_stream")
        returns_iter = h.endswith("_stream")
        ch = FakeChannel(replies=[POut(b=7), POut(b=8)])
        stub = betterproto.ServiceStub(ch)
        reqs = [PIn(a=1), PIn(a=2), PIn(a=3)]
        if takes_iter:
            res = asyncio.run(drain(getattr(stub, h)("/r", reqs, PIn, POut)))
        else:
            res = asyncio.run(drain(getattr(stub, h)("/r", reqs[0], POut)))
        if len(ch.calls) != 1:
            raise TranslationError(f"{h} opened {len(ch.calls)} requests")
        name, cardv, rt, pt, kw = ch.calls[0]
        sent = [(e[1], e[2]) for e in ch.rec if e[0] == "send_message"]
        if takes_iter:
            order_ok = [m for m, _ in sent] == reqs and (("end",) in ch.rec or (sent and sent[-1][1]))
        else:
            order_ok = len(sent) == 1 and sent[0][0] is reqs[0] and sent[0][1] is True
        if returns_iter:
            res_ok = [r.b for r in res] == [7, 8]
        else:
            res_ok = res.b == 7
        types_ok = name == "/r" and rt is PIn and pt is POut and set(kw) == {"timeout", "deadline", "metadata"}
        helper_sites.append(f"(H{h}, {card_name(cardv)}, {cb(bool(order_ok))}, {cb(bool(res_ok))}, {cb(bool(types_ok))})")
    w("(* (helper, Cardinality it gives channel.request, it sends the request(s) in order and ends the stream,\n"
      "    it returns the first reply / all replies in order, route and types are handed on) *)")
    w("Definition helper_sites : list (helper * card * bool * bool * bool) :=\n  [" + ";\n   ".join(helper_sites) + "].")
    # ---------------------------------------------------------------- mapping sites
    base = mod.ProbeBase()
    mp = base.__mapping__()
    if not isinstance(mp, dict) or len(mp) != len(FLAGS):
        raise TranslationError(f"unexpected __mapping__: {mp!r}")
    mapping_sites, map_routes = [], []
    by_name = {}
    for key, hd in mp.items():
        if not isinstance(hd, grpclib.const.Handler):
            raise TranslationError(f"mapping value is not a Handler: {hd!r}")
        nm = key.rsplit("/", 1)[-1]
        by_name[nm] = (key, hd)
    for name, (cs, ss) in FLAGS.items():
        if name not in by_name:
            raise TranslationError(f"no mapping entry ends in /{name}")
        key, hd = by_name[name]
        py = pythonize_method_name(name)
        fn_ok = getattr(hd.func, "__name__", "").endswith("__rpc_" + py) and getattr(hd.func, "__self__", None) is base
        ty_ok = hd.request_type is PIn and hd.reply_type is POut
        mapping_sites.append(f"({cb(cs)}, {cb(ss)}, {card_name(hd.cardinality)}, {cb(fn_ok and ty_ok)})")
        map_routes.append((name, key))
    w("(* (client_streaming, server_streaming, Cardinality of the __mapping__ entry,\n"
      "    func is self.__rpc_<py_name> and request/reply types are the declared classes) *)")
    w("Definition mapping_sites : list (bool * bool * card * bool) :=\n  [" + ";\n   ".join(mapping_sites) + "].")
    # ---------------------------------------------------------------- default bodies
    defaults = []
    for name, (cs, ss) in FLAGS.items():
        py = pythonize_method_name(name)
        try:
            asyncio.run(drain(getattr(base, py)(None)))
            raise TranslationError(f"default {py} did not raise")
        except grpclib.GRPCError as e:
            defaults.append(f"({cb(cs)}, {cb(ss)}, {int(e.status.value)}%Z)")
    w("(* status raised by the method bodies of the generated Base class *)")
    w("Definition default_status : list (bool * bool * Z) := [" + "; ".join(defaults) + "].")
    w(f"Definition status_unimplemented : Z := {int(grpclib.const.Status.UNIMPLEMENTED.value)}%Z.")
    w(f"Definition status_unknown : Z := {int(grpclib.const.Status.UNKNOWN.value)}%Z.")
    # ---------------------------------------------------------------- routes of the probe
    w("(* the probe services as the model sees them, and the route strings the rendered code contains *)")
    ms = "; ".join(
        f"Method {coq_str(n)} {coq_str(pythonize_method_name(n))} {cb(cs)} {cb(ss)} {coq_str('.c11.probe.PIn')} {coq_str('.c11.probe.POut')}"
        for n, (cs, ss) in FLAGS.items())
    w(f"Definition probe_service : service := Service {coq_str('c11.probe')} {coq_str('Probe')} [{ms}].")
    w("Definition probe_stub_routes : list (str * str) := [" + "; ".join(f"({coq_str(n)}, {coq_str(r)})" for n, r in probe_routes) + "].")
    w("Definition probe_mapping_routes : list (str * str) := [" + "; ".join(f"({coq_str(n)}, {coq_str(r)})" for n, r in map_routes) + "].")
    bmp = bare.BareBase().__mapping__()
    if len(bmp) != 1:
        raise TranslationError("Bare mapping")
    (bkey, _), = bmp.items()
    w(f"Definition bare_service : service := Service [] {coq_str('Bare')} "
      f"[Method {coq_str('M')} {coq_str(pythonize_method_name('M'))} false false {coq_str('.BIn')} {coq_str('.BOut')}].")
    w(f"Definition bare_mapping_route : str := {coq_str(bkey)}.")
    return out


def generate() -> str:
    from harness import plugin_util as pu

    work = tempfile.mkdtemp(prefix="verif-c11gen-")
    try:
        root = f"c11probe_{os.getpid()}"
        rc, outp, _ = pu.generate(work, PROBE, root)
        if rc != 0:
            raise TranslationError("plugin failed on the probe: " + outp[-800:])
        mod = pu.import_generated(work, root, "c11.probe")
        bare = pu.import_generated(work, root)
        body = reflect(mod, bare)
    finally:
        shutil.rmtree(work, ignore_errors=True)
    head = ["(* GENERATED by harness/gen_c11.py by reflection of a probe service rendered by the live plugin. Do not edit. *)",
            "From BP Require Import Base.Prelude Model.Grpc.", ""]
    return "\n".join(head + body) + "\n"


def write(text):
    os.makedirs(os.path.dirname(OUT), exist_ok=True)
    old = None
    if os.path.exists(OUT):
        with open(OUT) as f:
            old = f.read()
    if old != text:
        with open(OUT + ".tmp", "w") as f:
            f.write(text)
        os.replace(OUT + ".tmp", OUT)
        print("C11Tables.v regenerated")
    else:
        print("C11Tables.v unchanged")


if __name__ == "__main__":
    try:
        text = generate()
    except BaseException as e:  # noqa: fail closed
        msg = f"{type(e).__name__}: {e}".replace("*)", "* )").replace('"', "'")[:600]
        write("(* GENERATED by harness/gen_c11.py: reflection FAILED, this file intentionally does not compile.\n"
              f"   {msg} *)\nDefinition c11_tables_generator_failed : False := I.\n")
        print(f"TRANSLATION-ERROR: {msg}")
        sys.exit(3)
    write(text)
