"""C12 — controlled asyncio event loop.

Runs small configurations of tasks around one real `AsyncChannel` with an explicit
schedule: every iteration executes exactly ONE ready handle (one task resumption, run
to its next suspension point) chosen by the caller.  No source hook: the channel,
asyncio.Queue, Task and Future are the real (pure-Python) classes; the loop is a
BaseEventLoop whose ready queue is drained by hand.

A configuration is {"maxsize": int, "progs": [{"ops": [...], "tmo": bool, "timer": bool}]};
ops: ("send",) ("send_from", n, close) ("recv",) ("recvloop",) ("iter", y) ("consumer",)
("close",) ("cancel", u) ("yield",).  Task ids are indices into progs; the tasks
`close()` spawns for `_flush_queue` get the following ids in creation order.  A prog with
"timer": True is not a real task: it stands for the wait_for timer of the task it cancels
(that task has "tmo": True) and is "ready" while the real TimerHandle is pending.
"""
import asyncio
import asyncio.base_events
import asyncio.events
import asyncio.futures
import asyncio.tasks
import sys

PyTask = asyncio.tasks._PyTask
PyFuture = asyncio.futures._PyFuture



class Item(tuple):
    """(sender, index) with the truth value of a betterproto message: every even-numbered item is FALSY, like a message whose
    fields are all default (what a gRPC stream carries). An item is an item whatever bool() says of it (seeded change C12-5)."""
    __slots__ = ()

    def __bool__(self):
        return self[1] % 2 == 1


class Infeasible(Exception):
    pass


class StepLoop(asyncio.base_events.BaseEventLoop):
    """ready handles are executed one at a time by `run_handle`; time is virtual."""

    def __init__(self):
        super().__init__()
        self._now = 0.0
        self.c12_tasks = []  # real tasks in creation order (user tasks then flush tasks)
        self.c12_current = None
        self.set_task_factory(self._factory)

    def time(self):
        return self._now

    def _factory(self, loop, coro, **kw):
        t = PyTask(coro, loop=loop, **kw)
        self.c12_tasks.append(t)
        return t

    def create_future(self):
        f = PyFuture(loop=self)
        # who creates it, and from where (Queue.get / Queue.put)
        f.c12_kind = sys._getframe(1).f_code.co_name
        f.c12_owner = self.c12_current
        return f

    def _process_events(self, event_list):  # never used
        pass

    def _write_to_self(self):
        pass

    def run_handle(self, h):
        asyncio.events._set_running_loop(self)
        try:
            h._run()
        finally:
            asyncio.events._set_running_loop(None)


OUT_RET, OUT_CLOSED, OUT_DONE, OUT_CANCELLED, OUT_TIMEOUT, OUT_VALUE, OUT_OTHER = 10, 11, 12, 13, 14, 15, 99


class Run:
    """one execution of a configuration under a schedule"""

    def __init__(self, cfg, chan_mod, stub_cls=None):
        self.cfg = cfg
        self.mod = chan_mod
        self.stub_cls = stub_cls
        self.loop = StepLoop()
        self.recv_log = []        # (receiver id, item) in the order receive()/__anext__ returned them
        self.sent_log = []        # items in the order Queue._put was executed
        self.npre = None          # len(sent_log) at the first close()
        self.drained = False      # some receiver saw None / ChannelDone / StopAsyncIteration
        self.pos = {}             # task id -> (op index, sub counter)
        self.bad_send_after_close = []
        self.cancel_targets = set()
        self.unexpected = []
        self.timer_of = {}        # target id -> timer pseudo id
        self.timer_fired = set()
        self.steps = 0
        progs = cfg["progs"]
        self.nuser = len(progs)
        asyncio.events._set_running_loop(self.loop)
        try:
            self.ch = chan_mod.AsyncChannel(buffer_limit=cfg["maxsize"])
        finally:
            asyncio.events._set_running_loop(None)
        qobj = self.ch._queue
        orig_put = qobj._put
        orig_close = self.ch.close

        def _put(item):
            self.sent_log.append(item)
            return orig_put(item)

        qobj._put = _put  # observation only (instance attribute, the class is untouched)
        self.flush_obj = getattr(self.ch, "_AsyncChannel__flush")
        self.id_of = {}
        self.real = {}  # id -> real task
        for i, p in enumerate(progs):
            if p.get("timer"):
                tgt = [o for o in p["ops"] if o[0] == "cancel"][0][1]
                self.timer_of[tgt] = i
        for i, p in enumerate(progs):
            if p.get("timer"):
                # keep creation order = id order: a placeholder that is never a real task
                continue
            coro = self._body(i, p["ops"])
            if p.get("tmo"):
                coro = self._with_timeout(coro)
            n_before = len(self.loop.c12_tasks)
            t = self.loop.create_task(coro)
            assert len(self.loop.c12_tasks) == n_before + 1
            self.real[i] = t
            self.id_of[t] = i
        self.nflush = 0

    # ---------------------------------------------------------------- programs
    async def _with_timeout(self, coro):
        return await asyncio.wait_for(coro, 1000.0)

    async def _body(self, tid, ops):
        ch = self.ch
        mod = self.mod
        k = 0
        for idx, op in enumerate(ops):
            self.pos[tid] = idx
            kind = op[0]
            if kind == "send":
                was_closed = ch._closed
                await ch.send(Item((tid, k)))
                k += 1
                if was_closed:
                    self.bad_send_after_close.append((tid, idx))
            elif kind == "send_from":
                was_closed = ch._closed
                items = [Item((tid, k + i)) for i in range(op[1])]
                if (tid + k) % 2:
                    # every other send_from gets an ASYNC iterable as its source (the other branch of send_from); a generator
                    # that never suspends adds no scheduling point, so the model's step granularity is unchanged
                    async def _src(items=items):
                        for it in items:
                            yield it
                    await ch.send_from(_src(), close=op[2])
                else:
                    await ch.send_from(items, close=op[2])
                k += op[1]
                if was_closed:
                    self.bad_send_after_close.append((tid, idx))
                if op[2]:
                    self._note_close()
            elif kind == "recv":
                try:
                    x = await ch.receive()
                except mod.ChannelDone:
                    self.drained = True
                    raise
                if x is None:
                    self.drained = True
                else:
                    self.recv_log.append((tid, x))
            elif kind == "recvloop":
                while True:
                    try:
                        x = await ch.receive()
                    except mod.ChannelDone:
                        self.drained = True
                        break
                    if x is None:
                        self.drained = True
                        break
                    self.recv_log.append((tid, x))
            elif kind == "iter":
                async for x in ch:
                    self.recv_log.append((tid, x))
                    if op[1]:
                        await asyncio.sleep(0)
                self.drained = True
            elif kind == "consumer":
                run = self

                class _Stream:
                    async def send_message(self_, m):
                        run.recv_log.append((tid, m))
                        await asyncio.sleep(0)

                    async def end(self_):
                        run.drained = True

                await self.stub_cls._send_messages(_Stream(), ch)
            elif kind == "close":
                ch.close()
                self._note_close()
            elif kind == "cancel":
                self._assign_new_tasks()
                tgt = self.real.get(op[1])
                if tgt is not None:
                    if not tgt.done():
                        self.cancel_targets.add(op[1])
                    tgt.cancel()
            elif kind == "yield":
                await asyncio.sleep(0)
            else:
                raise AssertionError(op)
        self.pos[tid] = len(ops)

    def _note_close(self):
        if self.npre is None:
            self.npre = len(self.sent_log)

    # ---------------------------------------------------------------- observation
    def _assign_new_tasks(self):
        for t in self.loop.c12_tasks:
            if t not in self.id_of:
                i = self.nuser + self.nflush
                self.nflush += 1
                self.id_of[t] = i
                self.real[i] = t

    def ready(self):
        """ids that can be scheduled now, in ready-queue order (timers last)"""
        self._assign_new_tasks()
        out = []
        for h in self.loop._ready:
            if h._cancelled:
                continue
            owner = getattr(h._callback, "__self__", None)
            if owner in self.id_of:
                out.append(self.id_of[owner])
            else:
                self.unexpected.append(repr(h))
        for h in self.loop._scheduled:
            if h._cancelled:
                continue
            tm = getattr(h._callback, "__self__", None)
            tgt = self.id_of.get(getattr(tm, "_task", None))
            if tgt in self.timer_of:
                out.append(self.timer_of[tgt])
            else:
                self.unexpected.append(repr(h))
        return out

    def step(self, tid):
        self._assign_new_tasks()
        loop = self.loop
        self.steps += 1
        if tid in self.timer_of.values():
            tgt = [u for u, i in self.timer_of.items() if i == tid][0]
            for h in list(loop._scheduled):
                tm = getattr(h._callback, "__self__", None)
                if not h._cancelled and self.id_of.get(getattr(tm, "_task", None)) == tgt:
                    loop._scheduled.remove(h)
                    h._scheduled = False
                    if not self.real[tgt].done():
                        self.cancel_targets.add(tgt)
                    loop.c12_current = tid
                    loop.run_handle(h)
                    self.timer_fired.add(tid)
                    self._assign_new_tasks()
                    return
            raise Infeasible(f"timer {tid} is not pending")
        for h in list(loop._ready):
            owner = getattr(h._callback, "__self__", None)
            if not h._cancelled and self.id_of.get(owner) == tid:
                loop._ready.remove(h)
                loop.c12_current = tid
                loop.run_handle(h)
                self._assign_new_tasks()
                return
        raise Infeasible(f"task {tid} has no ready handle")

    def outcome(self, t):
        if t.cancelled():
            return OUT_CANCELLED
        e = t.exception()
        if e is None:
            return OUT_RET
        if isinstance(e, self.mod.ChannelClosed):
            return OUT_CLOSED
        if isinstance(e, self.mod.ChannelDone):
            return OUT_DONE
        if isinstance(e, TimeoutError):
            return OUT_TIMEOUT
        if isinstance(e, ValueError):
            return OUT_VALUE
        self.unexpected.append(repr(e))
        return OUT_OTHER

    def task_status(self, i):
        """(status code, must_cancel) in the model's coding"""
        if i in self.timer_of.values():
            return (OUT_RET if i in self.timer_fired else 0, False)
        t = self.real.get(i)
        if t is None:
            return (-1, False)
        if t.done():
            return (self.outcome(t), False)
        fw = t._fut_waiter
        mc = bool(t._must_cancel)
        if fw is None:
            return (0, mc)
        kind = getattr(fw, "c12_kind", None)
        base = 1 if kind == "get" else (4 if kind == "put" else 90)
        if fw.cancelled():
            return (base + 2, mc)
        if fw.done():
            return (base + 1, mc)
        return (base, mc)

    def _item(self, x):
        if x is self.flush_obj:
            return None
        if isinstance(x, tuple) and len(x) == 2 and all(isinstance(v, int) for v in x):
            return x
        return (-1, -1)  # something that was never sent

    def snapshot(self):
        self._assign_new_tasks()
        ch = self.ch
        qo = ch._queue
        n = self.nuser + self.nflush
        return {
            "q": [self._item(x) for x in qo._queue],
            "closed": bool(ch._closed),
            "flushed": bool(ch._flushed),
            "W": int(ch._waiting_receivers),
            "unfin": int(qo._unfinished_tasks),
            "getters": [(getattr(f, "c12_owner", -1), bool(f.done())) for f in qo._getters],
            "putters": [(getattr(f, "c12_owner", -1), bool(f.done())) for f in qo._putters],
            "tasks": [self.task_status(i) for i in range(n)],
            "recv": [(t, self._item(x)) for t, x in self.recv_log],
            "sent": [self._item(x) for x in self.sent_log if x is not self.flush_obj],
            "npre": self.npre or 0,
            "drained": bool(self.drained),
        }

    def key(self):
        """identifies the global state for the exhaustive search (snapshot + program counters)"""
        s = self.snapshot()
        return repr((s, sorted(self.pos.items()), self.sent_log, sorted(self.ready())))

    def close(self):
        # retrieve exceptions so that nothing is logged at GC time, drop whatever is left
        for t in self.loop.c12_tasks:
            if t.done() and not t.cancelled():
                t.exception()
            elif not t.done():
                t._log_destroy_pending = False
                try:
                    t.get_coro().close()  # runs the pending finally blocks now, quietly
                except BaseException:  # noqa
                    pass
        self.loop._ready.clear()
        self.loop._scheduled.clear()
        self.loop.close()


def execute(cfg, chooser, chan_mod, stub_cls=None, max_steps=200, want_snaps=True):
    """run cfg; chooser(ready_ids, run) -> id or None (stop).  Returns (run, schedule, snapshots)"""
    run = Run(cfg, chan_mod, stub_cls)
    sched, snaps = [], []
    try:
        while len(sched) < max_steps:
            rd = run.ready()
            if not rd:
                break
            c = chooser(rd, run)
            if c is None:
                break
            run.step(c)
            sched.append(c)
            if want_snaps:
                snaps.append(run.snapshot())
        run.final_ready = run.ready()
        run.final = run.snapshot()
    finally:
        run.close()
    return run, sched, snaps


def replay(cfg, schedule, chan_mod, stub_cls=None):
    it = iter(schedule)

    def chooser(rd, run):
        c = next(it, None)
        if c is not None and c not in rd:
            raise Infeasible(f"schedule picks {c}, ready = {rd}")
        return c

    return execute(cfg, chooser, chan_mod, stub_cls, max_steps=len(schedule) + 1)
